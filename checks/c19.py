"""C19 — Machine-readable output is one well-formed, schema-conformant document.

translate   Gen/Bindings.lean (ts-rs bindings + wrapper result types), Gen/OutputShapes.lean (serde shapes, format_json
            documents, per-handler stdout emission table, exit-code mapping, stdout sites of the core)
prove       RModel.Props.C19 (finite table: one document / conformance / status; witnesses for the known defects)
oracle      CLI grid, exhaustive over a finite grid: every command x scenario class x options; for each run,
            independently of the model: stdout must be exactly one JSON value and nothing else, the value must validate
            against the TypeScript type(s) the wrappers declare (own validator over the parsed .d.ts), a failure must be
            reported on stderr, and the status must be 0 exactly when the requested effect is observed in the tree /
            history / plan file.
correspond  the model's prediction for the row (rmodel `c19row`): number of documents, top-level key set, optional keys,
            presence of MatchHunk.replace / Rename.new_path, status class, conformance verdict  vs  the observation.
"""
import json
import os
import re
import shutil
import subprocess

from . import common
from .common import hexs

TERM, REPL = "foo_bar", "baz_qux"
PREVIEWS = {"plan": ["table", "diff", "matches", "summary", "none"], "search": ["table", "matches", "summary", "none"],
            "rename": ["table", "diff", "matches", "summary", "none"], "replace": ["table", "diff", "matches", "summary", "none"]}
J = ["--output", "json"]

# ---------------------------------------------------------------------------------------------------
# trees


def tree(kind):
    """kind: both | matches | renames | none | nonutf8 (= both, plus a matching file whose NAME is not valid UTF-8, created by
    execute())  (content matches only on line 1: `replace` plans are line-relative, C03)"""
    t = {"keep.txt": ("f", b"nothing here\n", 0o644)}
    if kind == "nonutf8":
        kind = "both"
    if kind in ("both", "matches"):
        t["src/main.rs"] = ("f", b"let foo_bar = 1; // FooBar\n", 0o644)
    if kind in ("both", "renames"):
        t["docs/foo_bar.txt"] = ("f", b"plain\n", 0o644)
    return t


def renamed(kind):
    t = {"keep.txt": ("f", b"nothing here\n", 0o644)}
    if kind in ("both", "matches"):
        t["src/main.rs"] = ("f", b"let baz_qux = 1; // BazQux\n", 0o644)
    if kind in ("both", "renames"):
        t["docs/baz_qux.txt"] = ("f", b"plain\n", 0o644)
    return t


def replaced(kind):
    """`replace --no-regex foo_bar baz_qux`: literal, no case variants"""
    t = renamed(kind)
    if kind in ("both", "matches"):
        t["src/main.rs"] = ("f", b"let baz_qux = 1; // FooBar\n", 0o644)
    return t


def snap(root):
    s = common.snapshot(root, exclude=(".renamify", ".git", ".gitignore"))
    return {k: v for k, v in s.items() if v[0] == "f"}


def same_tree(snapshot, tree_dict):
    want = {k: ("f", v[2], v[1]) for k, v in tree_dict.items()}
    got = {k: ("f", v[1], v[2]) for k, v in snapshot.items()}
    return want == got


def git_commits(root):
    p = subprocess.run(["git", "rev-list", "--count", "HEAD"], cwd=root, env=dict(common.BASE_ENV, HOME=root), stdout=subprocess.PIPE,
                       stderr=subprocess.DEVNULL)
    try:
        return int(p.stdout.decode().strip() or 0)
    except ValueError:
        return 0


def history_len(root):
    p = os.path.join(root, ".renamify", "history.json")
    try:
        return len(json.load(open(p)))
    except (OSError, ValueError):
        return 0


# ---------------------------------------------------------------------------------------------------
# scenarios

class Sc:
    """one run of the grid"""

    def __init__(self, name, cmd, argv, kind="both", pre=(), effect="none", row=None, fail=None, site=None, git=False,
                 mutate=None, tier="quick", cls="ok", tty=False, lock=False, tree=None, expect=None):
        self.tree, self.expect = tree, expect     # explicit tree / expected tree (effect "custom") instead of the `kind` families
        self.lock = lock              # another process holds .renamify/renamify.lock while the command runs
        self.tty = tty                # stdin and stdout are a terminal (answer `y`): outside the model's rows
        self.name, self.cmd, self.argv, self.kind, self.pre = name, cmd, list(argv), kind, list(pre)
        self.effect = effect          # none | plan_written | renamed | replaced | restored | impossible
        self.row = row or {}          # model row fields (quiet, dry, yes, preview, noregex) — json is derived from argv
        self.fail = fail              # callee of the handler site that fails in the model row (None: nothing fails)
        self.site = site              # None | err_arm | clap | pre_dispatch | panic  (where the process gives up)
        self.git, self.mutate, self.tier, self.cls = git, mutate, tier, cls

    @property
    def is_json(self):
        return "--output" in self.argv and self.argv[self.argv.index("--output") + 1:][:1] == ["json"]


def opts_variants(cmd, thorough):
    """(suffix, extra argv, row fields) for --quiet / --dry-run / --preview"""
    out = []
    dry = [False, True] if cmd in ("plan", "rename", "replace") else [False]
    for q in (False, True):
        for d in dry:
            pvs = [None] + (PREVIEWS.get(cmd, []) if thorough else [])
            for pv in pvs:
                extra = (["--quiet"] if q else []) + (["--dry-run"] if d else []) + (["--preview", pv] if pv else [])
                sfx = ("+quiet" if q else "") + ("+dry" if d else "") + (f"+pv={pv}" if pv else "")
                out.append((sfx, extra, {"quiet": q, "dry": d, "preview": bool(pv) and pv != "none"}))
    return out


def scenarios(thorough):
    S = []
    NA = ["--no-auto-init"]
    S.append(Sc("version", "version", ["version"] + J))
    kinds_all = ["both", "matches", "renames", "none"]
    for cmd in ("plan", "search", "rename", "replace"):
        for kind in kinds_all:
            for sfx, extra, row in opts_variants(cmd, thorough):
                # quick tier: the full option cross product on `both` and `none`, the plain line on the mixed kinds
                if not thorough and kind in ("matches", "renames") and sfx:
                    continue
                row = dict(row)
                if cmd == "plan":
                    argv = ["plan", TERM, REPL] + J + NA + extra
                    eff = "none" if row["dry"] else "plan_written"
                elif cmd == "search":
                    argv = ["search", TERM] + J + NA + extra
                    eff = "none"
                elif cmd == "rename":
                    argv = ["rename", TERM, REPL, "-y"] + J + NA + extra
                    row["yes"] = True
                    eff = "none" if (row["dry"] or kind == "none") else "renamed"
                else:
                    argv = ["replace", TERM, REPL, "--no-regex", "-y"] + J + NA + extra
                    row["yes"], row["noregex"] = True, True
                    eff = "none" if (row["dry"] or kind == "none") else "replaced"
                S.append(Sc(f"{cmd}/{kind}{sfx}", cmd, argv, kind=kind, effect=eff, row=row))
    # replace: summary format with --quiet (the early return exists there too), the applying control, regex mode
    S.append(Sc("replace/both+summary+quiet", "replace", ["replace", TERM, REPL, "--no-regex", "-y", "--quiet"] + NA, effect="replaced",
                row={"yes": True, "noregex": True, "quiet": True}))
    S.append(Sc("replace/both+summary (control)", "replace", ["replace", TERM, REPL, "--no-regex", "-y"] + NA, effect="replaced",
                row={"yes": True, "noregex": True}))
    S.append(Sc("replace/both+regex", "replace", ["replace", TERM, REPL, "-y"] + J + NA, effect="replaced", row={"yes": True}))
    S.append(Sc("replace/both+no-yes", "replace", ["replace", TERM, REPL, "--no-regex"] + J + NA, effect="none", row={"noregex": True}))
    # nonexistent path: plan / search / rename treat it as an empty scan (class `none`); replace reports an IO error
    for cmd, argv, eff, row in (("plan", ["plan", TERM, REPL, "no_such_dir"], "plan_written", {}),
                                ("search", ["search", TERM, "no_such_dir"], "none", {}),
                                ("rename", ["rename", TERM, REPL, "no_such_dir", "-y"], "none", {"yes": True})):
        S.append(Sc(f"{cmd}/nonexistent-path", cmd, argv + J + NA, kind="both", effect=eff, row=dict(row, nomatches=True, norenames=True),
                    cls="nonexistent-path"))
    S.append(Sc("replace/nonexistent-path", "replace", ["replace", TERM, REPL, "no_such_dir", "--no-regex", "-y"] + J + NA, effect="impossible",
                fail="create_simple_plan", site="err_arm", row={"yes": True, "noregex": True}, cls="nonexistent-path"))
    # a matched / renamed path that is not valid UTF-8: refused by the planner up front since 56d4ab2 (before that the
    # dry-run commands printed `"plan": null` with status 0 — classified non_utf8_plan_null, unlisted, if it ever comes back)
    for cmd, argv, fail, row in (("search", ["search", TERM], "plan_operation", {}),
                                 ("plan", ["plan", TERM, REPL, "--dry-run"], "plan_operation", {"dry": True}),
                                 ("plan", ["plan", TERM, REPL], "plan_operation", {}),
                                 ("rename", ["rename", TERM, REPL, "-y", "--dry-run"], "rename_operation", {"dry": True, "yes": True}),
                                 ("replace", ["replace", TERM, REPL, "--no-regex", "-y"], "create_simple_plan", {"yes": True, "noregex": True})):
        S.append(Sc(f"{cmd}/nonutf8" + ("+dry" if row.get("dry") else ""), cmd, argv + J + NA, kind="nonutf8", effect="impossible", fail=fail,
                    site="err_arm", row=row, cls="non-utf8-path"))
    S.append(Sc("replace/empty-pattern", "replace", ["replace", "", "x", "--no-regex", "-y"] + J + NA, effect="impossible",
                fail="create_simple_plan", site="err_arm", row={"yes": True, "noregex": True}, cls="invalid-pattern"))
    # a search PATH argument that is itself a directory named after the term: its own rename is held back unless
    # --rename-root is given, and the operation then adds a "Next step (root directory rename): mv …" hint to the preview it
    # returns (summary format only) — the one place where rename_operation produces text after applying
    def proj(d, inner, content):
        t = {"keep.txt": ("f", b"nothing here\n", 0o644), d + "/notes.txt": ("f", b"unrelated\n", 0o644)}
        if content is not None:
            t[d + "/src/main.rs"] = ("f", content, 0o644)
            t[d + "/docs/" + inner] = ("f", b"plain\n", 0o644)
        return t
    R0 = proj("foo_bar_proj", "foo_bar.txt", b"let foo_bar = 1; // FooBar\n")
    R_in = proj("foo_bar_proj", "baz_qux.txt", b"let baz_qux = 1; // BazQux\n")       # everything below the root renamed
    R_all = proj("baz_qux_proj", "baz_qux.txt", b"let baz_qux = 1; // BazQux\n")      # … and the root itself
    R_only = proj("foo_bar_proj", None, None)                                           # nothing but the root matches
    for rsfx, rflag, exp in (("", [], R_in), ("+rename-root", ["--rename-root"], R_all), ("+no-rename-root", ["--no-rename-root"], R_in)):
        for fsfx, fmt in (("", J), ("+summary", [])):
            for q in (False, True):
                S.append(Sc(f"rename/root-path{rsfx}{fsfx}" + ("+quiet" if q else ""), "rename",
                            ["rename", TERM, REPL, "foo_bar_proj", "-y"] + rflag + fmt + NA + (["--quiet"] if q else []),
                            tree=R0, expect=exp, effect="custom", row={"yes": True, "quiet": q}, cls="root-path"))
    for fsfx, fmt in (("", J), ("+summary", [])):
        S.append(Sc(f"plan/root-path{fsfx}", "plan", ["plan", TERM, REPL, "foo_bar_proj"] + fmt + NA, tree=R0, effect="plan_written",
                    cls="root-path"))
        S.append(Sc(f"rename/root-path-only{fsfx}", "rename", ["rename", TERM, REPL, "foo_bar_proj", "-y"] + fmt + NA, tree=R_only,
                    expect=R_only, effect="custom", row={"yes": True, "nomatches": True, "norenames": True}, cls="root-path"))
    # apply / undo / redo / history / status after real operations
    plan_pre = [["plan", TERM, REPL, "--quiet"] + NA]
    ren_pre = [["rename", TERM, REPL, "-y", "--quiet"] + NA]
    for q in (False, True):
        qs, qa = ("+quiet" if q else ""), (["--quiet"] if q else [])
        rq = {"quiet": q}
        S.append(Sc("apply/pending" + qs, "apply", ["apply"] + J + NA + qa, pre=plan_pre, effect="renamed", row=rq))
        S.append(Sc("undo/latest" + qs, "undo", ["undo", "latest"] + J + qa, pre=ren_pre, effect="restored", row=rq))
        S.append(Sc("redo/latest" + qs, "redo", ["redo", "latest"] + J + qa, pre=ren_pre + [["undo", "latest", "--quiet"]], effect="renamed", row=rq))
        S.append(Sc("history/empty" + qs, "history", ["history"] + J + qa, row=rq))
        S.append(Sc("history/one" + qs, "history", ["history"] + J + qa, pre=ren_pre, row=rq))
        S.append(Sc("history/three+limit" + qs, "history", ["history", "--limit", "2"] + J + qa,
                    pre=ren_pre + [["undo", "latest", "--quiet"], ["redo", "latest", "--quiet"]], row=rq))
        S.append(Sc("status/empty" + qs, "status", ["status"] + J + qa, row=rq))
        S.append(Sc("status/pending" + qs, "status", ["status"] + J + qa, pre=plan_pre, row=rq))
        S.append(Sc("status/after-apply" + qs, "status", ["status"] + J + qa, pre=ren_pre, row=rq))
    # ---- error kinds ------------------------------------------------------------------------------
    E = "err_arm"
    S.append(Sc("undo/unknown-id", "undo", ["undo", "nosuch"] + J, effect="impossible", fail="undo_operation", site=E, cls="unknown-id"))
    S.append(Sc("redo/unknown-id", "redo", ["redo", "nosuch"] + J, effect="impossible", fail="redo_operation", site=E, cls="unknown-id"))
    S.append(Sc("apply/unknown-id", "apply", ["apply", "nosuchid"] + J + NA, effect="impossible", fail="apply_operation", site=E, cls="unknown-id"))
    S.append(Sc("apply/no-plan-file", "apply", ["apply"] + J + NA, effect="impossible", fail="apply_operation", site=E, cls="missing-plan"))
    S.append(Sc("apply/missing-plan-path", "apply", ["apply", "missing/plan.json"] + J + NA, effect="impossible", fail="apply_operation", site=E,
                cls="missing-plan"))
    S.append(Sc("apply/corrupt-plan", "apply", ["apply"] + J + NA, effect="impossible", fail="apply_operation", site=E, mutate="corrupt_plan",
                cls="missing-plan"))
    S.append(Sc("status/corrupt-plan", "status", ["status"] + J, effect="impossible", fail="status_operation", site=E, mutate="corrupt_plan",
                cls="missing-plan"))
    S.append(Sc("replace/invalid-regex", "replace", ["replace", "foo(", "x", "-y"] + J + NA, effect="impossible", fail="Regex::new", site=E,
                row={"yes": True}, cls="invalid-regex"))
    for cmd, argv, fail, row in (("plan", ["plan", TERM, REPL], "plan_operation", {}), ("search", ["search", TERM], "plan_operation", {}),
                                 ("rename", ["rename", TERM, REPL, "-y"], "rename_operation", {"yes": True}),
                                 ("replace", ["replace", TERM, REPL, "--no-regex", "-y"], "create_simple_plan", {"yes": True, "noregex": True})):
        S.append(Sc(f"{cmd}/invalid-exclude-regex", cmd, argv + ["--exclude-matching-lines", "foo("] + J + NA, effect="impossible", fail=fail,
                    site=E, row=row, cls="invalid-regex"))
    for cmd, argv, fail, row in (("plan", ["plan", TERM, "con"], "plan_operation", {}),
                                 ("rename", ["rename", TERM, "con", "-y"], "rename_operation", {"yes": True})):
        S.append(Sc(f"{cmd}/conflict", cmd, argv + J + NA, kind="renames", effect="impossible", fail=fail, site=E, row=row, cls="conflict"))
    S.append(Sc("rename/no-yes-noninteractive", "rename", ["rename", TERM, REPL] + J + NA, effect="renamed", fail="rename_operation", site=E,
                cls="no-confirmation"))
    S.append(Sc("apply/stale-plan", "apply", ["apply"] + J + NA, pre=plan_pre, effect="renamed", fail="apply_operation", site=E,
                mutate="stale_same_length", cls="stale-plan"))
    S.append(Sc("apply/stale-plan-truncated", "apply", ["apply"] + J + NA, pre=plan_pre, effect="renamed", fail="apply_operation", site=E,
                mutate="stale_truncated", cls="stale-plan"))        # a panic until 29e3f64 (then: an ordinary error)
    # the workspace lock is held by another process (`renamify test-lock`): every locking command refuses
    L = dict(lock=True, cls="lock-held", site=E, effect="impossible")
    S.append(Sc("plan/lock-held", "plan", ["plan", TERM, REPL] + J + NA, fail="plan_operation", **L))
    S.append(Sc("rename/lock-held", "rename", ["rename", TERM, REPL, "-y"] + J + NA, fail="rename_operation", row={"yes": True}, **L))
    S.append(Sc("replace/lock-held", "replace", ["replace", TERM, REPL, "--no-regex", "-y"] + J + NA, fail="renamify_core::LockFile::acquire",
                row={"yes": True, "noregex": True}, **L))
    S.append(Sc("apply/lock-held", "apply", ["apply"] + J + NA, pre=plan_pre, fail="apply_operation", **L))
    S.append(Sc("undo/lock-held", "undo", ["undo", "latest"] + J, pre=ren_pre, fail="undo_operation", **L))
    S.append(Sc("redo/lock-held", "redo", ["redo", "latest"] + J, pre=ren_pre + [["undo", "latest", "--quiet"]], fail="redo_operation", **L))
    S.append(Sc("replace/lock-held+dry", "replace", ["replace", TERM, REPL, "--no-regex", "-y", "--dry-run"] + J + NA, effect="none",
                row={"yes": True, "noregex": True, "dry": True}, lock=True, cls="lock-held"))
    S.append(Sc("search/lock-held", "search", ["search", TERM] + J + NA, effect="none", lock=True, cls="lock-held"))
    # --commit inside a real git repository (rename, replace, apply accept it): git's own messages must not reach our stdout
    # (until 684ddcb `replace --commit` ran `git add` / `git commit` with an inherited stdout: "[main 0ba0b50] Replace …"
    # preceded the document), and the operation includes the commit
    for fsfx, fmt in (("", J), ("+summary", [])):
        for q in ((False, True) if fmt else (False,)):
            qs, qa = ("+quiet" if q else ""), (["--quiet"] if q else [])
            S.append(Sc(f"replace/commit{fsfx}{qs}", "replace", ["replace", TERM, REPL, "--no-regex", "-y", "--commit"] + fmt + NA + qa,
                        effect="replaced", git="committed", row={"yes": True, "noregex": True, "commit": True, "quiet": q}, cls="git-commit"))
            S.append(Sc(f"rename/commit{fsfx}{qs}", "rename", ["rename", TERM, REPL, "-y", "--commit"] + fmt + NA + qa,
                        effect="renamed", git="committed", row={"yes": True, "commit": True, "quiet": q}, cls="git-commit"))
            S.append(Sc(f"apply/commit{fsfx}{qs}", "apply", ["apply", "--commit"] + fmt + NA + qa, pre=plan_pre,
                        effect="renamed", git="committed", row={"commit": True, "quiet": q}, cls="git-commit"))
    # --commit where there is no repository: the commit step fails after the change (an Err-arm error, one error document)
    S.append(Sc("replace/commit-no-repo", "replace", ["replace", TERM, REPL, "--no-regex", "-y", "--commit"] + J + NA, effect="impossible",
                fail="commit_changes", site=E, row={"yes": True, "noregex": True, "commit": True}, cls="git-commit"))
    S.append(Sc("rename/commit-no-repo", "rename", ["rename", TERM, REPL, "-y", "--commit"] + J + NA, effect="impossible",
                fail="rename_operation", site=E, row={"yes": True, "commit": True}, cls="git-commit"))
    # stdout on a terminal: the only situation in which the prompt of rename_operation is reachable under --output json
    S.append(Sc("rename/tty-no-yes", "rename", ["rename", TERM, REPL] + J + NA, effect="renamed", tty=True, cls="terminal"))
    S.append(Sc("rename/tty-yes (control)", "rename", ["rename", TERM, REPL, "-y"] + J + NA, effect="renamed", tty=True, row={"yes": True},
                cls="terminal"))
    # clap: invalid flag values / unknown flags
    for name, argv in (("plan/invalid-preview", ["plan", TERM, REPL, "--preview", "bogus"] + J + NA),
                       ("history/invalid-limit", ["history", "--limit", "abc"] + J),
                       ("status/invalid-output", ["status", "--output", "bogus"]),
                       ("search/dry-run-not-accepted", ["search", TERM, "--dry-run"] + J + NA),
                       ("undo/missing-id", ["undo"] + J)):
        S.append(Sc(name, name.split("/")[0], argv, effect="impossible", site="clap", cls="invalid-flag"))
    # exits of main before the dispatch
    S.append(Sc("status/-C-nonexistent", "status", ["-C", "no_such_dir", "status"] + J, effect="impossible", site="pre_dispatch", cls="bad-directory"))
    # a free-form option value clap does not validate: `--auto-init <mode>` is checked by check_and_auto_init itself
    for cmd, argv in (("plan", ["plan", TERM, REPL]), ("search", ["search", TERM]), ("rename", ["rename", TERM, REPL, "-y"]),
                      ("replace", ["replace", TERM, REPL, "--no-regex", "-y"]), ("apply", ["apply"])):
        for av in (["--auto-init", "bogus"], ["--auto-init=bogus"]):
            if cmd != "plan" and len(av) == 1:
                continue
            S.append(Sc(f"{cmd}/auto-init-bogus" + ("=" if len(av) == 1 else ""), cmd, argv + av + J, effect="impossible", site="pre_dispatch",
                        git=True, cls="bad-auto-init"))
    # ---- first run: auto-init --------------------------------------------------------------------
    for git in (True, False):
        g = "git" if git else "nogit"
        for sfx, extra in (("", []), ("+y", ["-y"]), ("+no-auto-init", NA), ("+auto-init=repo", ["--auto-init", "repo"])):
            S.append(Sc(f"plan/first-run-{g}{sfx}", "plan", ["plan", TERM, REPL] + J + extra, effect="plan_written", git=git, cls="first-run"))
        for cmd, argv, eff, row in (("search", ["search", TERM], "none", {}), ("rename", ["rename", TERM, REPL, "-y"], "renamed", {"yes": True}),
                                    ("replace", ["replace", TERM, REPL, "--no-regex", "-y"], "replaced", {"yes": True, "noregex": True})):
            S.append(Sc(f"{cmd}/first-run-{g}", cmd, argv + J, effect=eff, row=row, git=git, cls="first-run"))
        S.append(Sc(f"apply/first-run-{g}", "apply", ["apply", "-y"] + J, pre=[["plan", TERM, REPL, "--quiet"] + NA], effect="renamed", git=git,
                    cls="first-run"))
    names = [s.name for s in S]
    assert len(names) == len(set(names)), "duplicate scenario names"
    return S


# ---------------------------------------------------------------------------------------------------
# independent checks of one run

def decode_all(text):
    """-> (list of JSON values, list of non-JSON fragments) found on stdout"""
    dec = json.JSONDecoder()
    vals, junk, i = [], [], 0
    n = len(text)
    glued = False
    while i < n:
        while i < n and text[i] in " \t\r\n":
            i += 1
        if i >= n:
            break
        try:
            v, j = dec.raw_decode(text, i)
            # a bare number/string/true/false/null in running text is prose, not a document
            if not isinstance(v, (dict, list)):
                raise ValueError("scalar")
            vals.append(v)
            i = j
            glued = False
        except ValueError:
            # skip to the next place a document could start (or the end of the line); what is skipped is text
            j = i + 1
            while j < n and text[j] not in "{[\n":
                j += 1
            frag = text[i:j]
            if junk and glued:
                junk[-1] = (junk[-1] + frag)[:80]
            else:
                junk.append(frag[:80])
            glued = True
            i = j
    return vals, [x.strip() for x in junk if x.strip()]


def ts_validate(decls, t, v, path="$", depth=0):
    """errors of value v against the TS type t (structural; an optional member may be absent, not null)"""
    k = t[0]
    if depth > 40:
        return [f"{path}: recursion"]
    if k == "any":
        return []
    if k == "str":
        return [] if isinstance(v, str) else [f"{path}: expected string, got {jt(v)}"]
    if k == "num":
        return [] if isinstance(v, (int, float)) and not isinstance(v, bool) else [f"{path}: expected number, got {jt(v)}"]
    if k == "bool":
        return [] if isinstance(v, bool) else [f"{path}: expected boolean, got {jt(v)}"]
    if k == "null":
        return [] if v is None else [f"{path}: expected null, got {jt(v)}"]
    if k == "undef":
        return [f"{path}: a JSON value is never undefined"]
    if k == "lit":
        return [] if v == t[1] else [f"{path}: expected literal {t[1]!r}, got {v!r:.40}"]
    if k == "arr":
        if not isinstance(v, list):
            return [f"{path}: expected array, got {jt(v)}"]
        errs = []
        for i, x in enumerate(v):
            errs += ts_validate(decls, t[1], x, f"{path}[{i}]", depth + 1)
        return errs
    if k == "tuple":
        if not isinstance(v, list) or len(v) != len(t[1]):
            return [f"{path}: expected {len(t[1])}-tuple, got {jt(v)}"]
        errs = []
        for i, (tt, x) in enumerate(zip(t[1], v)):
            errs += ts_validate(decls, tt, x, f"{path}[{i}]", depth + 1)
        return errs
    if k == "record":
        if not isinstance(v, dict):
            return [f"{path}: expected object, got {jt(v)}"]
        errs = []
        for kk, x in v.items():
            errs += ts_validate(decls, t[1], x, f"{path}.{kk}", depth + 1)
        return errs
    if k == "obj":
        if not isinstance(v, dict):
            return [f"{path}: expected object, got {jt(v)}"]
        errs = []
        for name, optional, tt in t[1]:
            if name not in v:
                if not optional:
                    errs.append(f"{path}.{name}: missing required member")
            else:
                errs += ts_validate(decls, tt, v[name], f"{path}.{name}", depth + 1)
        return errs
    if k == "union":
        best = None
        for tt in t[1]:
            e = ts_validate(decls, tt, v, path, depth + 1)
            if not e:
                return []
            if best is None or len(e) < len(best):
                best = e
        return best or [f"{path}: empty union"]
    if k == "ref":
        if t[1] not in decls:
            return [f"{path}: unknown type {t[1]}"]
        return ts_validate(decls, decls[t[1]], v, path, depth + 1)
    return [f"{path}: unsupported type {k}"]


def jt(v):
    return {dict: "object", list: "array", str: "string", bool: "boolean", type(None): "null"}.get(type(v), "number")


def generalise(errs):
    """error list -> set of array-index-free messages"""
    return sorted({re.sub(r"\[\d+\]", "[]", e) for e in errs})


def mutate(root, how):
    p = os.path.join(root, ".renamify", "plan.json")
    if how == "corrupt_plan":
        os.makedirs(os.path.dirname(p), exist_ok=True)
        open(p, "w").write("{not json")
    elif how == "stale_same_length":
        open(os.path.join(root, "src/main.rs"), "wb").write(b"let xxx_yyy = 1; // XxxYyy\n")
    elif how == "stale_truncated":
        open(os.path.join(root, "src/main.rs"), "wb").write(b"x\n")


def cli_tty(args, cwd, answer=b"y\n", timeout=60):
    """run the CLI with stdin and stdout on a pseudo-terminal (echo and output post-processing off), stderr on a pipe"""
    import pty
    import select
    import termios
    import time
    e = dict(common.BASE_ENV)
    e["HOME"] = cwd
    e["XDG_CONFIG_HOME"] = os.path.join(cwd, ".xdg-none")
    master, slave = pty.openpty()
    at = termios.tcgetattr(slave)
    at[1] &= ~termios.OPOST
    at[3] &= ~termios.ECHO
    termios.tcsetattr(slave, termios.TCSANOW, at)
    p = subprocess.Popen([common.CLI_BIN] + list(args), cwd=cwd, env=e, stdin=slave, stdout=slave, stderr=subprocess.PIPE, close_fds=True)
    os.close(slave)
    os.write(master, answer)
    out, t0 = b"", time.time()
    while time.time() - t0 < timeout:
        r, _, _ = select.select([master], [], [], 0.2)
        if r:
            try:
                chunk = os.read(master, 65536)
            except OSError:
                break
            if not chunk:
                break
            out += chunk
        elif p.poll() is not None:
            break
    try:
        rc = p.wait(timeout=5)
    except subprocess.TimeoutExpired:
        p.kill()
        rc = -999
    err = p.stderr.read()
    os.close(master)
    return rc, out, err


def hold_lock(root):
    """start `renamify test-lock` in root and wait until it holds the workspace lock -> Popen | None"""
    import time
    e = dict(common.BASE_ENV)
    e["HOME"] = root
    e["XDG_CONFIG_HOME"] = os.path.join(root, ".xdg-none")
    p = subprocess.Popen([common.CLI_BIN, "test-lock", "--delay", "60000"], cwd=root, env=e, stdin=subprocess.DEVNULL,
                         stdout=subprocess.DEVNULL, stderr=subprocess.DEVNULL)
    lock = os.path.join(root, ".renamify", "renamify.lock")
    t0 = time.time()
    while time.time() - t0 < 10:
        if os.path.exists(lock):
            return p
        if p.poll() is not None:
            return None
        time.sleep(0.02)
    p.kill()
    return None


def execute(sc):
    """run one scenario in a fresh scratch tree -> observation dict"""
    with common.scratch("renamify-verif.c19.") as root:
        common.materialize(root, sc.tree if sc.tree is not None else tree(sc.kind))
        if sc.kind == "nonutf8":
            with open(os.path.join(root.encode(), b"docs", b"foo_bar_\xff.txt"), "wb") as fh:
                fh.write(b"plain\n")
        if sc.git == "committed":
            # a real repository with an identity (local config; HOME is isolated) and a clean initial commit; .renamify ignored
            with open(os.path.join(root, ".gitignore"), "w") as fh:
                fh.write(".renamify/\n")
            for g in (["init", "-q"], ["config", "user.name", "verif"], ["config", "user.email", "verif@example.invalid"],
                      ["config", "commit.gpgsign", "false"], ["add", "-A"], ["commit", "-q", "-m", "initial"]):
                gp = subprocess.run(["git"] + g, cwd=root, env=dict(common.BASE_ENV, HOME=root), stdout=subprocess.PIPE, stderr=subprocess.STDOUT)
                if gp.returncode != 0:
                    return {"setup_failed": {"argv": ["git"] + g, "rc": gp.returncode, "stderr": gp.stdout.decode("utf-8", "replace")[:300]}}
        elif sc.git:
            subprocess.run(["git", "init", "-q"], cwd=root, env=common.BASE_ENV, stdout=subprocess.DEVNULL, stderr=subprocess.DEVNULL)
        for pre in sc.pre:
            rc, out, err = common.cli(pre, root)
            if rc != 0:
                return {"setup_failed": {"argv": pre, "rc": rc, "stderr": err.decode("utf-8", "replace")[:300]}}
        if sc.mutate:
            mutate(root, sc.mutate)
        holder = hold_lock(root) if sc.lock else None
        if sc.lock and holder is None:
            return {"setup_failed": {"argv": ["test-lock"], "rc": -1, "stderr": "the lock holder did not acquire the lock"}}
        before = snap(root)
        h0 = history_len(root)
        c0 = git_commits(root) if sc.git == "committed" else 0
        plan_file = os.path.join(root, ".renamify", "plan.json")
        plan_before = os.path.exists(plan_file)
        if sc.tty:
            try:
                rc, out, err = cli_tty(sc.argv, root)
            except OSError as ex:          # no pseudo-terminals in this environment: the cell cannot be run
                return {"skipped": f"pty unavailable: {ex}"}
        else:
            rc, out, err = common.cli(sc.argv, root)
        if holder is not None:
            holder.terminate()
            try:
                holder.wait(timeout=10)
            except subprocess.TimeoutExpired:
                holder.kill()
        after = snap(root)
        h1 = history_len(root)
        text = out.decode("utf-8", "replace")
        vals, junk = decode_all(text)
        obs = {"rc": rc, "stdout_len": len(out), "ndocs": len(vals), "junk": junk, "stderr": err.decode("utf-8", "replace")[:400],
               "stdout_head": text[:160], "history_delta": h1 - h0, "changed": before != after,
               "gitignore": os.path.exists(os.path.join(root, ".gitignore"))}
        obs["doc"] = vals[0] if len(vals) == 1 else None
        # the requested effect, judged from the tree / history / plan file only
        eff = sc.effect
        if sc.mutate in ("stale_same_length", "stale_truncated"):
            base = None            # the user tree was edited after planning: `renamed` can never be reached
        else:
            base = tree(sc.kind)
        if eff == "none":
            achieved = (before == after) and h1 == h0
        elif eff == "plan_written":
            ok = os.path.exists(plan_file) and before == after
            if ok:
                try:
                    pj = json.load(open(plan_file))
                    ok = pj.get("search") == TERM and pj.get("replace") == REPL
                except ValueError:
                    ok = False
            achieved = ok
        elif eff == "renamed":
            achieved = base is not None and same_tree(after, renamed(sc.kind)) and h1 == h0 + 1
        elif eff == "replaced":
            achieved = same_tree(after, replaced(sc.kind)) and h1 == h0 + 1
        elif eff == "custom":
            changed_expected = sc.expect != sc.tree
            achieved = same_tree(after, sc.expect) and h1 == h0 + (1 if changed_expected else 0)
        elif eff == "restored":
            achieved = same_tree(after, tree(sc.kind)) and h1 == h0 + 1
        else:
            achieved = False
        if sc.git == "committed":
            obs["commits_delta"] = git_commits(root) - c0
            if sc.row.get("commit") and eff in ("renamed", "replaced"):
                achieved = achieved and obs["commits_delta"] == 1       # --commit: the operation includes the commit
        obs["achieved"] = achieved
        if eff == "plan_written" and not sc.row.get("dry"):
            obs["plan_file"] = os.path.exists(plan_file)
        if eff == "none" and sc.cmd == "plan":
            obs["plan_file_created"] = os.path.exists(plan_file) and not plan_before
        return obs


ERR_REPORT = re.compile(r"(^|\n)(Error: |error: |Error during|Invalid auto-init|thread '.*' panicked|\S*panicked at)")


def judge(sc, obs, decls, expect):
    """independent evaluation of the property on one observation -> list of (kind, detail)"""
    bad = []
    reported = bool(ERR_REPORT.search(obs["stderr"]))
    rc = obs["rc"]
    if sc.is_json:         # (a command line that does not literally ask for `--output json`, e.g. `--output bogus`, owes no document)
        if obs["ndocs"] != 1 or obs["junk"]:
            if obs["ndocs"] == 0 and not obs["junk"]:
                bad.append(("no_document", f"stdout is empty (status {rc})" if obs["stdout_len"] == 0 else "stdout holds no JSON value"))
            elif obs["ndocs"] > 1 and not obs["junk"]:
                bad.append(("several_documents", f"{obs['ndocs']} JSON values on stdout"))
            else:
                bad.append(("text_on_stdout", f"non-JSON text on stdout: {obs['junk'][:2]}"))
        elif obs["doc"] is not None and rc != 0:
            # a failing command: the wrappers reject on the status and never parse stdout; the document must say it failed
            d = obs["doc"]
            if not (isinstance(d, dict) and d.get("success") is False and isinstance(d.get("error"), str) and d["error"]):
                bad.append(("error_document_shape", f"status {rc} with a document that is not {{\"success\":false,\"error\":<message>}}: "
                            f"{json.dumps(d)[:120]}"))
        elif obs["doc"] is not None:
            errs = []
            for label, t in expect.get(sc.cmd, []):
                e = ts_validate(decls, t, obs["doc"])
                if e:
                    errs.append((label, generalise(e)))
            if errs:
                bad.append(("shape", errs))
    # status discipline
    if rc == 0 and not obs["achieved"]:
        bad.append(("exit0_without_effect", f"status 0 but the requested effect ({sc.effect}) is not observed"))
    if rc != 0 and obs["achieved"] and not reported:
        bad.append(("nonzero_on_success", f"status {rc} although the requested effect ({sc.effect}) is observed and nothing was reported"))
    if rc == 0 and reported:
        bad.append(("exit0_with_error_report", obs["stderr"][:120]))
    if rc != 0 and not obs["stderr"].strip():
        bad.append(("silent_failure", f"status {rc} with empty stderr"))
    return bad


# ---------------------------------------------------------------------------------------------------
# listed findings: a violation is accepted only when it has exactly the recorded form

SEARCH_MODE_ERRS = {"$.plan.matches[].replace: missing required member", "$.plan.paths[].new_path: missing required member"}


def classify(sc, obs, kind, detail):
    """-> slug of the listed finding this violation is an instance of, or None"""
    rc, err = obs["rc"], obs["stderr"]
    if kind == "no_document" and obs["stdout_len"] == 0:
        if sc.site == "err_arm" and rc in (1, 2, 3) and err.startswith("Error: ") or \
           (sc.site == "err_arm" and rc in (1, 2, 3) and "\nError: " in "\n" + err):
            return "error_path_no_document"
        if sc.site == "clap" and rc == 2 and err.startswith("error: "):
            return "clap_error_no_document"
        if sc.site == "pre_dispatch" and rc in (1, 2) and err.strip():
            return "pre_dispatch_exit_no_document"
        if rc == 101 and "panicked at renamify-core/src/apply.rs" in err:
            return "panic_no_document"          # repaired by 29e3f64: no longer listed, so a return is a VIOLATION
        if sc.cmd == "replace" and rc == 0 and sc.is_json and sc.row.get("quiet") and not err.strip():
            return "replace_json_quiet_no_document"
    if kind == "text_on_stdout" and sc.git == "committed" and sc.row.get("commit") and any(re.match(r"\[[\w/.-]+ [0-9a-f]{7,}\]", j) for j in obs["junk"]):
        return "replace_commit_git_stdout"      # repaired by 684ddcb: not listed, so a return is a VIOLATION (named for the replay)
    if kind == "text_on_stdout" and sc.tty and sc.cmd == "rename" and not sc.row.get("yes") and rc == 0 and obs["ndocs"] == 1 \
            and obs["junk"] == ["Apply? [y/N]:"]:
        return "rename_tty_prompt_on_stdout"
    if kind == "exit0_without_effect" and sc.cmd == "replace" and sc.effect == "replaced" and not obs["changed"] and obs["history_delta"] == 0:
        if sc.is_json:
            return "replace_json_not_applied"          # the Json arm returns (with or without --quiet)
        if sc.row.get("quiet"):
            return "replace_quiet_not_applied"         # the `Summary if quiet` arm returns
    if kind == "shape":
        msgs = {m for _, ms in detail for m in ms}
        labels = {l for l, _ in detail}
        if sc.cmd == "search" and labels == {"vscode.search"} and msgs and msgs <= SEARCH_MODE_ERRS:
            return "search_mode_required_fields"
        if sc.kind == "nonutf8" and sc.cmd in ("search", "plan") and labels <= {"vscode.search", "vscode.createPlan"} and msgs and \
                msgs <= {"$.plan: expected object, got null", "$.plan: expected array, got null"}:
            return "non_utf8_plan_null"
        if sc.cmd == "history" and labels == {"vscode.history"} and msgs == {"$: expected array, got object"}:
            return "history_shape_mismatch"
        if sc.cmd == "status" and labels == {"vscode.status"} and msgs and \
                msgs <= {"$.last_operation: expected object, got null", "$.last_operation: expected object, got string"}:
            return "status_shape_mismatch"
    return None


# ---------------------------------------------------------------------------------------------------
# model side

def model_request(sc):
    r = sc.row
    kind = sc.kind
    nomatch = r.get("nomatches", kind in ("renames", "none"))
    noren = r.get("norenames", kind in ("matches", "none"))
    if sc.cmd not in ("plan", "search", "rename", "replace"):
        nomatch = noren = False
    f = lambda b: "1" if b else "0"
    if r.get("serfails"):
        return " ".join(["c19rowx", hexs(sc.cmd), f(sc.is_json), f(r.get("quiet")), f(r.get("dry")), f(r.get("yes")), f(r.get("preview")),
                         f(r.get("noregex")), f(nomatch), f(noren), hexs(sc.fail) if sc.fail else "-", "1"])
    if r.get("commit"):
        return " ".join(["c19rowc", hexs(sc.cmd), f(sc.is_json), f(r.get("quiet")), f(r.get("dry")), f(r.get("yes")), f(r.get("preview")),
                         f(r.get("noregex")), f(nomatch), f(noren), hexs(sc.fail) if sc.fail else "-", "1"])
    return " ".join(["c19row", hexs(sc.cmd), f(sc.is_json), f(r.get("quiet")), f(r.get("dry")), f(r.get("yes")), f(r.get("preview")),
                     f(r.get("noregex")), f(nomatch), f(noren), hexs(sc.fail) if sc.fail else "-"])


def parse_model(line):
    if not line.startswith("c19 ") or "=" not in line:
        return None
    kv = dict(p.split("=", 1) for p in line.split()[1:])
    names = lambda s: [] if s == "-" else [common.unhex(x).decode() for x in s.split(",")]
    kv["keys"], kv["opt"], kv["performed"] = names(kv["keys"]), names(kv["opt"]), names(kv["performed"])
    return kv


def member_presence(doc, arr, member):
    """p / a / mixed / - over the elements of doc.plan.<arr> (or doc.<arr> for a bare plan)"""
    plan = doc.get("plan") if isinstance(doc.get("plan"), dict) else doc
    items = plan.get(arr) if isinstance(plan, dict) else None
    if not isinstance(items, list) or not items:
        return "-"
    has = {member in it for it in items if isinstance(it, dict)}
    return "p" if has == {True} else "a" if has == {False} else "mixed"


def compare(sc, obs, m, valid):
    """disagreements between the model's prediction and the observation"""
    dis = []
    if sc.is_json and (int(m["docs"]) != obs["ndocs"] or int(m["json"]) != obs["ndocs"] or obs["junk"]):
        dis.append(f"stdout emissions: model {m['docs']} ({m['json']} JSON), observed {obs['ndocs']} documents + {len(obs['junk'])} text fragments")
    if not sc.is_json and (int(m["docs"]) == 0) != (obs["stdout_len"] == 0):
        dis.append(f"stdout emissions: model {m['docs']}, observed {obs['stdout_len']} bytes")
    if (m["exit0"] == "1") != (obs["rc"] == 0):
        dis.append(f"status: model {'0' if m['exit0'] == '1' else 'non-zero'}, observed {obs['rc']}")
    if (m["failed"] == "1") != (sc.site is not None):
        dis.append(f"failure: model {m['failed']}, scenario site {sc.site}")
    if sc.effect not in ("impossible",) and m["failed"] == "0":
        if (m["ok"] == "1") != bool(obs["achieved"]):
            dis.append(f"requested effect: model ok={m['ok']}, observed achieved={obs['achieved']}")
    doc = obs["doc"]
    if isinstance(doc, dict) and int(m["docs"]) == 1:
        keys = set(doc)
        if not (set(m["keys"]) <= keys <= set(m["keys"]) | set(m["opt"])):
            dis.append(f"top-level members: model always={sorted(m['keys'])} optional={sorted(m['opt'])}, observed {sorted(keys)}")
        for arr, member, field in (("matches", "replace", "hunk_replace"), ("paths", "new_path", "rename_new_path")):
            o = member_presence(doc, arr, member)
            if o != "-" and m[field] in ("p", "a") and o != m[field]:
                dis.append(f"{arr}[].{member}: model {m[field]}, observed {o}")
        if m["conf"] in ("0", "1") and (m["conf"] == "1") != valid:
            dis.append(f"conformance to the declared type: model {m['conf']}, observed valid={valid}")
    return dis


# ---------------------------------------------------------------------------------------------------

def load_types():
    from translate import bindings
    decls, exps = bindings.load()
    expect = {}
    for cmd, label, t, how in exps:
        expect.setdefault(cmd, []).append((label, t))
    return decls, expect


def run_scenarios(ctx, scs, decls, expect, models):
    for sc, mline in zip(scs, models):
        obs = execute(sc)
        ctx.case(sc.name)
        ctx.count("cmd:" + sc.cmd)
        ctx.count("class:" + sc.cls)
        if "setup_failed" in obs:
            ctx.broke("machinery", "scenario setup", {"scenario": sc.name, **obs["setup_failed"]})
            continue
        if "skipped" in obs:
            ctx.notes.append({"scenario": sc.name, "skipped": obs["skipped"]})
            ctx.count("skipped")
            continue
        ctx.count(f"exit:{obs['rc']}")
        case = {"scenario": sc.name, "argv": sc.argv, "pre": sc.pre, "mutate": sc.mutate, "git": sc.git,
                "tree": sc.kind if sc.tree is None else {p: n[1].decode("utf-8", "replace") for p, n in sorted(sc.tree.items())}}
        verdicts = judge(sc, obs, decls, expect)
        shape_bad = any(k == "shape" for k, _ in verdicts)
        for kind, detail in verdicts:
            slug = classify(sc, obs, kind, detail)
            ctx.count("violation:" + (slug or kind))
            if slug and ctx.known(slug):
                continue
            ctx.violation("argv", case, expected="exactly one JSON document of the declared type on stdout, nothing else; diagnostics on stderr; "
                          "status 0 exactly when the requested effect happened",
                          observed={"kind": kind, "detail": detail, "rc": obs["rc"], "stdout": obs["stdout_head"], "stderr": obs["stderr"][:200],
                                    "ndocs": obs["ndocs"], "achieved": obs["achieved"]},
                          model_prediction=mline, note=f"not an instance of a listed finding (would-be slug: {slug})")
        # correspondence
        m = parse_model(mline)
        ctx.cov["disagreements_checked"] += 1
        if sc.site in ("clap", "pre_dispatch") or sc.tty:
            continue                      # the model has no row for a command line that never reaches a handler / for a terminal
        if m is None:
            ctx.broke("correspondence", "c19row", {"scenario": sc.name, "model": mline})
            continue
        dis = compare(sc, obs, m, not shape_bad)
        if dis:
            ctx.broke("correspondence", "emission table vs CLI", {"scenario": sc.name, "argv": sc.argv, "disagreements": dis, "model": mline,
                                                                   "observed": {k: obs[k] for k in ("rc", "ndocs", "junk", "achieved", "stdout_head")}})
        ctx.sample({"scenario": sc.name, "argv": " ".join(sc.argv), "rc": obs["rc"], "ndocs": obs["ndocs"],
                    "keys": sorted(obs["doc"]) if isinstance(obs["doc"], dict) else None, "model": mline[:160]})


WITNESS_SLUGS = {}      # no theorem of Props/C19*.lean is a witness that a repair would falsify (history/status are stated over generated flags)


def failing_theorems(detail):
    """names of the declarations of Props/C19.lean and its parts C19a … that the build errors point into"""
    text = detail if isinstance(detail, str) else json.dumps(detail)
    names = set()
    for m in re.finditer(r"RModel/Props/(C19[a-z]?)\.lean:(\d+):", text):
        path = os.path.join(common.LEAN, "RModel/Props", m.group(1) + ".lean")
        decl = []
        try:
            for n, line in enumerate(open(path), 1):
                mm = re.match(r"\s*(theorem|example)\s*([\w.']*)", line)
                if mm:
                    decl.append((n, mm.group(2) or "example"))
        except OSError:
            pass
        owner = [nm for n, nm in decl if n <= int(m.group(2))]
        names.add(owner[-1] if owner else "?")
    return names


def set_aside_repaired_witnesses(ctx):
    """A witness theorem states that a known defect exists.  If the only declarations that no longer check are witnesses,
    the failed build is set aside until the grid has shown whether the defect is really gone (DESIGN 2.4: a repaired
    defect is not a violation).  Returns the set of witness names, or None when something else is broken."""
    mine = [b for b in ctx.broken if b["kind"] == "proof"]
    if not mine:
        return set()
    names = set()
    for b in mine:
        names |= failing_theorems(b["detail"])
    if not names or not all(n in WITNESS_SLUGS for n in names):
        return None
    ctx.broken[:] = [b for b in ctx.broken if b["kind"] != "proof"]
    ctx.notes.append({"witness theorems that no longer check (set aside until the grid has run)": sorted(names)})
    return names


def corpus_scenarios():
    names = set()
    d = os.path.join(common.ROOT, "corpus", "C19")
    for fn in sorted(os.listdir(d)) if os.path.isdir(d) else []:
        if fn.endswith(".json"):
            try:
                case = json.load(open(os.path.join(d, fn))).get("case", {})
                if isinstance(case, dict) and case.get("scenario"):
                    names.add(case["scenario"])
            except ValueError:
                pass
    return names


def run(ctx):
    ctx.cov["exhaustive"] = True
    ctx.cov["rule"] = ("CLI grid, every cell run once in a fresh scratch tree: commands {plan, search, rename, replace, apply, undo, redo, history, "
                       "status, version} x scenario class {matches+renames, matches only, renames only, none, nonexistent path, unknown id, missing/"
                       "corrupt plan file, invalid regex, empty literal pattern, a matched path that is not valid UTF-8, the workspace lock held by another process, --commit inside a real git repository and without one, a free-form --auto-init value, a search path that is a term-named directory (with / without --rename-root / --no-rename-root, json and summary), rename conflict, stale plan (same length / truncated), no confirmation, invalid flag "
                       "value (clap), bad -C / --auto-init (exits before dispatch), first run in/outside a git repository with/without -y, "
                       "--no-auto-init, --auto-init repo, rename on a pseudo-terminal with / without -y} x {--quiet, --dry-run where accepted}; "
                       "thorough additionally x every --preview value. "
                       "Exhaustive over that grid (quick: the slice without --preview variation and without option cross products on the "
                       "matches-only / renames-only trees). non-trivial = every run; distinct = scenario name")
    ctx.assumptions += ["stdout is a pipe and stdin is /dev/null in every run (the wrappers' situation); RENAMIFY_DEBUG_* unset",
                        "operation success is judged from the user tree, .renamify/history.json and .renamify/plan.json only",
                        "wrapper expectations: what cliService.ts / renamify-service.ts do with stdout, extracted by translate/bindings.py "
                        "(rename: first alternative of `parsed.plan_id || parsed.plan?.id` taken as required)"]
    # 1 translate
    try:
        from translate import bindings, output_shapes
        bindings.run()
        output_shapes.run()
    except Exception as ex:              # a translator that cannot parse its source: broken tie
        ctx.broke("translator", type(ex).__name__, str(ex))
    # 2 prove
    aside = set() if ctx.prove("RModel.Props.C19") else set_aside_repaired_witnesses(ctx)
    # 3 rebuild
    ok, msg = common.cargo_build()
    if not ok:
        ctx.broke("build", "cargo", msg)
        return
    try:
        decls, expect = load_types()
    except Exception as ex:
        ctx.broke("translator", "bindings.load", str(ex))
        return
    scs = scenarios(ctx.thorough)
    # corpus first: the cells named by corpus/C19/*.json (witnesses of listed findings and regression cases of repaired defects)
    first = corpus_scenarios()
    scs.sort(key=lambda s: (s.name not in first,))
    ctx.cov["corpus_cells_run_first"] = sum(1 for s in scs if s.name in first)
    # 4/5 model prediction for every row, then the grid
    try:
        models = common.run_model([model_request(s) for s in scs])
    except Exception as ex:
        ctx.broke("correspondence", "rmodel", str(ex))
        models = ["-"] * len(scs)
    run_scenarios(ctx, scs, decls, expect, models)
    ctx.cov["grid_size"] = len(scs)
    # 6 witnesses: every witness scenario is a cell of the grid (corpus/C19/*.json name them); a witness theorem that no
    # longer checks is a repaired defect only if its finding no longer reproduces on the binary
    for w in sorted(aside or ()):
        slugs = WITNESS_SLUGS[w]
        if all(s in ctx.known_printed for s in slugs):
            ctx.broke("proof", w, "the witness theorem no longer checks although the defect it records still reproduces on the binary: "
                      + ", ".join(slugs))
        else:
            ctx.notes.append({"witness": w, "status": "no longer holds and the defect no longer reproduces (repaired); "
                              "update Props/C19.lean and KNOWN_FINDINGS.txt", "findings": slugs})


def replay(ctx, path):
    obj = json.load(open(path))
    case = obj.get("case", {})
    name = case.get("scenario") if isinstance(case, dict) else None
    ok, msg = common.cargo_build()
    if not ok:
        ctx.broke("build", "cargo", msg)
        return
    decls, expect = load_types()
    scs = [s for s in scenarios(True) if s.name == name]
    if not scs:
        print(json.dumps(obj, indent=1)[:3000])
        ctx.broke("machinery", "replay", f"no scenario named {name!r}")
        return
    try:
        models = common.run_model([model_request(s) for s in scs])
    except Exception as ex:
        models = ["-"]
    run_scenarios(ctx, scs, decls, expect, models)
    print(json.dumps({"scenario": name, "argv": scs[0].argv, "samples": ctx.cov["samples"][:1]}, indent=1))
