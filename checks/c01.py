"""C01 — Undo restores the exact pre-apply tree.

prove       RModel.Props.C01 (header rewriting touches only the header; parse∘rewrite∘fmt; undo rename sequence
            inverts moveAll at any nesting depth; content restoration under the diff contract; undo∘apply = id under G01)
correspond  (a) patch text: real diffy output for diff-hostile (current, original) pairs vs Patch.parse/fmt/patchApply,
                hostile mutations of it, and the patch files `apply_plan` really stores vs Patch.rewriteHeaders
            (b) `applyundo`: real apply_plan + undo_renaming vs Undo.applyUndo on generated trees / by-construction plans
oracle      (a) the stored patch equals "two header lines replaced, every other byte kept" (independent Python reference),
                `apply(create_patch(a,b),a) == b` on every generated pair
            (b) tree after apply+undo == tree before (in-process)
            (c) CLI: rename / plan+apply / replace, then undo latest / undo <id> (and undo→redo→undo): whole-tree snapshot
                (path, type, mode, bytes, link target) equal, undo exit 0
Every undo that does not restore the tree exactly is a VIOLATION.  The shapes of the three defects repaired on 2026-09-29
(unquoted header names, `exists()` guard on renamed symlinks, in-place write of read-only files) are still recognised so
that the replay file says which repaired behaviour has returned; a shape only excuses a failure while it is a listed finding.
The check sets umask 022 itself (modes such as 0664/0666/0775 must survive apply and undo exactly).
"""
import glob
import hashlib
import json
import os
import shutil
import subprocess

from . import common, gen, oracle
from .common import hexs, unhex
from .c02 import build_plan_for_tree

BAD_HEADER_BYTES = b'"\\\r\n'      # diffy rejects these in an unquoted file name (TAB only truncates the name)
CORPUS = os.path.join(common.ROOT, "corpus", "C01")


# -------------------------------------------------------------------------------------------------
# generators

def hostile_line(rng, swords):
    """one line (without terminator): diff-like prefixes, 0-3 occurrences of the term, non-ASCII, long"""
    occ = lambda: gen.render(rng.choice(gen.NAME_STYLES), swords)
    k = rng.random()
    if k < 0.30:
        prefix = rng.choice(["-- ", "++ ", "--- ", "+++ ", "-", "+", " ", "@@ ", "@@ -1 +1 @@ ", "@", "\\ ", "---", "+++",
                             "--- a/", "+++ b/", "diff --git ", "\t", "\"", "\\"])
        body = " ".join([occ() if rng.random() < 0.6 else rng.choice(gen.FILLER) for _ in range(rng.randint(0, 3))])
        return prefix + body
    if k < 0.36:
        return rng.choice(["\\ No newline at end of file", "--- original", "+++ modified", "@@ -1 +1 @@", "@@ -0,0 +1 @@",
                           "--- " + occ(), "+++ " + occ(), "-- " + occ() + " x", "++ " + occ()])
    if k < 0.44:
        return ""
    if k < 0.50:
        return rng.choice(["é", "日本語", "ß→", "😀", "naïve "]) + occ() + rng.choice(["", " ü", "。"])
    if k < 0.53:
        return ("x" * rng.randint(2000, 6000)) + " " + occ() + " " + ("y" * rng.randint(0, 3000))
    return gen.gen_line(rng, swords)


def hostile_content(rng, swords):
    k = rng.random()
    if k < 0.05:
        return b""
    if k < 0.09:
        return rng.choice([b"\n", b"\n\n\n", b"\r\n", b"\r\n\r\n"])
    n = rng.randint(1, 8)
    mode = rng.choice(["lf", "lf", "crlf", "mixed", "cr"])
    out = []
    for i in range(n):
        out.append(hostile_line(rng, swords))
        last = i == n - 1
        if last and rng.random() < 0.3:
            break
        if mode == "lf":
            out.append("\n")
        elif mode == "crlf":
            out.append("\r\n")
        elif mode == "cr":
            out.append(rng.choice(["\r", "\n", "\r\n"]))
        else:
            out.append(rng.choice(["\n", "\r\n", "\n", "\r\r\n"]))
    return "".join(out).encode()


def special_name(rng, swords, with_term, ext=None, allow_bad=True):
    base = gen.gen_name(rng, swords, with_term, ext=ext)
    r = rng.random()
    if r < 0.55:
        return base
    deco = ["my ", " ", "ü", "日本_", "it's ", "a b ", "(1) ", "$", "#", "tab\t", "é-", "'q' "]
    if allow_bad:
        deco += ["\"", "q\"x\" ", "back\\", "\\"]
    d = rng.choice(deco)
    return d + base if rng.random() < 0.6 else base + d.strip(" ") if d.strip(" ") else base + "_"


def c01_tree(rng, swords, allow_bad=True, depth=3, max_entries=12, symlinks=True):
    """tree with diff-hostile contents, hostile names, nested term directories, symlinks (dangling, term in name), modes"""
    tree = {}

    def free(rel):
        return rel not in tree and not any(k.lower() == rel.lower() for k in tree)

    def add_file(prefix, with_term_name, with_term_content=None):
        name = special_name(rng, swords, with_term_name, allow_bad=allow_bad)
        rel = prefix + name
        if not free(rel):
            return
        c = hostile_content(rng, swords)
        if with_term_content is False:
            c = b"plain\n" if rng.random() < 0.5 else b""
        elif with_term_content is True and gen.render("snake", swords).encode() not in c:
            c = (gen.render("snake", swords) + " here\n").encode() + c
        tree[rel] = ("f", c, rng.choice([0o644, 0o644, 0o600, 0o755, 0o444, 0o664, 0o666, 0o775, 0o640]))

    def fill(prefix, d):
        for _ in range(rng.randint(1, 4)):
            if len(tree) >= max_entries:
                return
            k = rng.random()
            if k < 0.35 and d < depth:
                name = special_name(rng, swords, rng.random() < 0.7, ext="", allow_bad=allow_bad)
                rel = prefix + name
                if not free(rel):
                    continue
                tree[rel] = ("d", rng.choice([0o755, 0o755, 0o750, 0o700, 0o775]))
                fill(rel + "/", d + 1)
            elif k < 0.47 and symlinks:
                name = special_name(rng, swords, rng.random() < 0.3, allow_bad=allow_bad)
                rel = prefix + name
                if not free(rel):
                    continue
                sib = [os.path.basename(p) for p in tree if os.path.dirname(p) == prefix.rstrip("/")]
                tgt = rng.choice(["nowhere", "../x", gen.render("snake", swords), gen.render("snake", swords) + ".txt",
                                  "/nonexistent-renamify-verif/x"] + sib[:3])
                tree[rel] = ("l", tgt)
            else:
                add_file(prefix, rng.random() < 0.5, rng.choice([None, None, True, False]))

    if rng.random() < 0.5:
        # nested skeleton: term directories 2-3 levels deep with edited-only / renamed-only / both files
        levels = rng.randint(2, 3)
        prefix = ""
        for lv in range(levels):
            name = gen.gen_name(rng, swords, True, ext="")
            if rng.random() < 0.25:
                name = rng.choice(["src", "docs"])       # an un-renamed level in between
            if (prefix + name) in tree and tree[prefix + name][0] != "d":
                name = name + "_d"
            if not free(prefix + name) and (prefix + name) not in tree:
                break
            prefix += name
            if prefix not in tree:
                tree[prefix] = ("d", 0o755)
            prefix += "/"
            add_file(prefix, False, True)      # edited only
            if rng.random() < 0.7:
                add_file(prefix, True, False)  # renamed only
            if rng.random() < 0.7:
                add_file(prefix, True, True)   # both
    fill("", 1)
    if not tree:
        tree["a.txt"] = ("f", (gen.render("snake", swords) + "\n").encode(), 0o644)
    # parents of everything must be listed, and must be directories
    for rel in sorted(tree):
        p = os.path.dirname(rel)
        while p:
            if p in tree and tree[p][0] != "d":
                tree.pop(rel, None)
                break
            tree.setdefault(p, ("d", 0o755))
            p = os.path.dirname(p)
    return tree


def tree_json(tree):
    out = {}
    for rel, n in tree.items():
        if n[0] == "f":
            out[rel] = ["f", n[1].hex(), n[2]]
        elif n[0] == "d":
            out[rel] = ["d", n[1]]
        else:
            out[rel] = ["l", n[1]]
    return out


def tree_from_json(obj):
    tree = {}
    for rel, n in obj.items():
        if n[0] == "f":
            tree[rel] = ("f", bytes.fromhex(n[1]), n[2])
        elif n[0] == "d":
            tree[rel] = ("d", n[1])
        else:
            tree[rel] = ("l", n[1])
    return tree


# -------------------------------------------------------------------------------------------------
# shapes of the listed findings

def rej_name(name):
    """Path::with_extension(format!("{}.rej", extension.unwrap_or("")))"""
    i = name.rfind(".")
    if i <= 0:
        return name + "..rej"
    if name[i + 1:] == "":
        return name[:i] + "..rej"
    return name + ".rej"


def rej_path(rel):
    d, b = os.path.split(rel)
    return os.path.join(d, rej_name(b)) if d else rej_name(b)


def has_bad_header_byte(rel):
    # TAB truncates the name at parse time and is harmless; a name that is entirely quoted parses as well
    return any(ch in rel.encode("utf-8", "surrogateescape") for ch in BAD_HEADER_BYTES) and not (
        len(rel) >= 2 and rel.startswith('"') and rel.endswith('"') and not any(c in rel[1:-1] for c in '"\\\r\n\t'))


def classify_failure(before, after, edited, renames, rc_undo, readonly_user=False):
    """Attribute every differing path to a listed finding. `edited`: list of (orig_rel, cur_rel) of files with a stored
    patch; `renames`: list of (kind, src_rel, dst_rel) in original coordinates.
    Returns the set of finding slugs that explain ALL differences (empty set: nothing differs), or None when some
    difference, or the exit status, is not explained."""
    why = {}                       # path -> slug that may explain a difference at that path
    for orig, cur in edited:
        node = before.get(orig)
        if node and node[0] == "l":
            # `replace` planned an edit of a symlink: apply put a regular file there
            why.setdefault(orig, "replace_follows_symlink")
            continue
        if has_bad_header_byte(orig) or has_bad_header_byte(cur):
            why.setdefault(orig, "unquoted_header")
            why.setdefault(rej_path(orig), "unquoted_header")
        elif readonly_user and node and node[0] == "f" and not (node[1] & 0o200):
            why.setdefault(orig, "readonly_inplace_write")
            why.setdefault(rej_path(orig), "readonly_inplace_write")
    for kind, src, dst in renames:
        node = before.get(src)
        if node and node[0] == "l":
            why.setdefault(src, "symlink_exists_guard")
            why.setdefault(dst, "symlink_exists_guard")
    diff = {k for k in set(before) | set(after) if before.get(k) != after.get(k)}
    if not diff:
        return set() if rc_undo == 0 else None
    if not diff <= set(why):
        return None
    used = {why[k] for k in diff}
    # the exit status must fit: only the two patch findings make undo fail
    patchy = used & {"unquoted_header", "readonly_inplace_write"}
    if (rc_undo != 0) != bool(patchy):
        return None
    return used


# -------------------------------------------------------------------------------------------------
# (a) patch text

def split_header(text):
    """(header lines, body) — the body starts at the first line that begins with `@@`"""
    if text.startswith(b"@@"):
        return b"", text
    i = text.find(b"\n@@")
    if i < 0:
        return text, b""
    return text[:i + 1], text[i + 1:]


def stored_ok(raw, stored, names):
    """independent reference for what the stored patch must be: diffy's own parser reads the two paths back from the
    header (`names` = real `pnames` answer for the stored text), the header is exactly a `--- ` and a `+++ ` line, and
    every byte after it is diffy's output unchanged"""
    rh, rbody = split_header(raw)
    sh, sbody = split_header(stored)
    if rh != b"--- original\n+++ modified\n":
        return "raw header " + repr(rh)
    hl = sh.split(b"\n")
    if not (len(hl) == 3 and hl[2] == b"" and hl[0].startswith(b"--- ") and hl[1].startswith(b"+++ ")):
        return "header is not a '--- ' line and a '+++ ' line: " + repr(sh)
    if sbody != rbody:
        return "a body byte changed"
    if names is not None and not names[0]:
        return "diffy does not read the paths back: " + names[1]
    return None


def mutate_patch(rng, raw):
    lines = raw.split(b"\n")
    k = rng.choice(["drop", "dup", "hdr_quote", "hdr_bad", "hdr_tab", "swap_hdr", "no_hdr", "range", "marker", "garbage",
                    "crlf_hdr", "esc", "preamble", "truncate", "noeol", "plus"])
    if k == "drop" and len(lines) > 2:
        del lines[rng.randrange(len(lines))]
    elif k == "dup" and lines:
        i = rng.randrange(len(lines)); lines.insert(i, lines[i])
    elif k == "hdr_quote":
        lines[0] = b'--- "a b\\tc\\"d\\\\e"'
    elif k == "hdr_bad":
        lines[0] = b"--- " + rng.choice([b'a"b', b"a\\b", b'"', b'"abc', b'abc"', b'""', b'"a\\qb"', b'"a\\', b'"a"b"', b"a\rb"])
    elif k == "hdr_tab":
        lines[0] = b"--- name\t2024-01-01 \"x\""
    elif k == "swap_hdr" and len(lines) > 1:
        lines[0], lines[1] = lines[1], lines[0]
    elif k == "no_hdr":
        lines = lines[rng.randint(1, 2):]
    elif k == "range":
        for i, l in enumerate(lines):
            if l.startswith(b"@@ "):
                lines[i] = rng.choice([b"@@ -1 +1 @@", b"@@ -1,2 +1,2 @@ fn x()", b"@@ -+1 ++2 @@", b"@@ -1,x +1 @@", b"@@ -1 +1",
                                       b"@@ -1 1 @@", b"@@ -0,0 +0,0 @@", b"@@ -99999999999999999999 +1 @@", b"@@ - +1 @@",
                                       b"@@ -1,1 +1,1 @@", b"@@  -1 +1 @@", b"@@ -1 +1 @@@@"])
                break
    elif k == "marker":
        i = rng.randrange(len(lines) + 1); lines.insert(i, b"\\ No newline at end of file")
    elif k == "garbage":
        i = rng.randrange(len(lines) + 1); lines.insert(i, rng.choice([b"garbage", b"@", b"@@", b"", b"\\", b"diff --git a b"]))
    elif k == "crlf_hdr":
        lines[0] = lines[0] + b"\r"
    elif k == "esc":
        lines[0] = b'--- "' + rng.choice([b"\\n", b"\\0", b"\\r", b"\\x", b"\t", b"a\\\\", b"\\\""]) + b'"'
    elif k == "preamble":
        lines = [b"diff --git a/x b/x", b"index 123..456 100644"] + lines
    elif k == "truncate":
        lines = lines[:rng.randint(0, len(lines))]
    elif k == "noeol":
        return k, b"\n".join(lines).rstrip(b"\n")
    elif k == "plus":
        for i, l in enumerate(lines):
            if l.startswith(b"@@ -"):
                lines[i] = l.replace(b" +", b" ++", 1)
                break
    return k, b"\n".join(lines)


def valid_utf8(b):
    try:
        b.decode("utf-8")
        return True
    except UnicodeDecodeError:
        return False


def patch_phase(ctx, rng, n_pairs):
    pairs = []
    for i in range(n_pairs):
        sw, rw = gen.pick_terms(rng)
        orig = hostile_content(rng, sw)
        # "current" = original with the term replaced (what apply produces), sometimes an unrelated text
        cur = orig
        for st in gen.NAME_STYLES:
            cur = cur.replace(gen.render(st, sw).encode(), gen.render(st, rw).encode())
        if rng.random() < 0.15:
            cur = hostile_content(rng, sw)
        pairs.append((cur, orig))
    # contract of the diff library, and the raw patch texts
    res = common.run_impl([f"diffrt {hexs(c)} {hexs(o)}" for c, o in pairs])
    raws = common.run_impl([f"mkpatch {hexs(c)} {hexs(o)}" for c, o in pairs])
    for (c, o), r in zip(pairs, res):
        ctx.case(("diffrt", c, o), nontrivial=c != o)
        ctx.count("patch:diffrt=" + r)
        if r != "ok":
            ctx.violation("input", {"op": "diffrt", "request": f"diffrt {hexs(c)} {hexs(o)}", "current": c, "original": o},
                          expected="ok", observed=r,
                          note="apply(create_patch(current, original), current) != original: undo cannot restore this file")
            return False
    reqs, kinds = [], []
    for (c, o), raw in zip(pairs, raws):
        rawb = unhex(raw)
        reqs.append(f"patchrt {raw}"); kinds.append(("rt", rawb))
        reqs.append(f"papply {raw} {hexs(c)}"); kinds.append(("apply", o))
        k, mut = mutate_patch(rng, rawb)
        if valid_utf8(mut):
            reqs.append(f"patchrt {hexs(mut)}"); kinds.append(("mut:" + k, None))
            reqs.append(f"papply {hexs(mut)} {hexs(c)}"); kinds.append(("mutapply:" + k, None))
    out = common.correspond(ctx, "patch text: diffy parse/format/apply vs Patch.parse/fmt/patchApply", reqs)
    for (req, impl, model), (kind, want) in zip(out, kinds):
        ctx.count("patch:" + kind.split(":")[0] + "=" + impl.split()[0])
        if kind == "rt" and impl != "ok " + hexs(want):
            ctx.broke("correspondence", "diffy parse∘format is not the identity on its own output", {"request": req, "impl": impl})
        if kind == "apply" and impl != "ok " + hexs(want):
            ctx.broke("correspondence", "diffy apply on its own patch", {"request": req, "impl": impl})
    ctx.sample({"op": "patchrt", "request": reqs[0][:200], "impl": out[0][1][:120]})
    return True


def stored_patch_phase(ctx, rng, n):
    """the patch files apply_plan stores vs rewriteHeaders of the raw diffy text, the reference, and the file name"""
    reqs, meta = [], []
    for i in range(n):
        sw, rw = gen.pick_terms(rng)
        tree = c01_tree(rng, sw, allow_bad=True, symlinks=False)
        hunks, rens = build_plan_for_tree(rng, tree, sw, rw)
        rens = drop_conflicts(ctx, rens)
        reqs.append(" ".join(["applypatches"] + gen.wire_tree(tree) + gen.wire_hunks(hunks) + gen.wire_rens(rens)))
        meta.append((tree, hunks, rens))
    impl = common.run_impl(reqs)
    rw_reqs, rw_meta, pn_reqs = [], [], []
    for req, line, (tree, hunks, rens) in zip(reqs, impl, meta):
        f = line.split(" ")
        ctx.count("stored:apply=" + f[0])
        if f[0] != "ok":
            continue
        if f[1] != "created=none":
            ctx.count("stored:created_dirs_recorded")
            ctx.broke("correspondence", "created_directories recorded (model: never)", {"request": req[:400], "impl": f[1]})
        edited = {h[0] for h in hunks}
        n_patched = 0
        for item in f[2:]:
            if not item:
                continue
            parts = item.split(":")
            if len(parts) != 5:
                ctx.broke("correspondence", "orphan patch file", {"request": req[:400], "item": item[:200]})
                continue
            name, stored, orig, cur, raw = parts
            n_patched += 1
            orig_b, cur_b, raw_b, stored_b = unhex(orig), unhex(cur), unhex(raw), unhex(stored)
            want_name = hashlib.sha256(orig_b).hexdigest() + ".patch"
            pn = common.run_impl([f"pnames {stored}"])[0]
            want_pn = f"ok s{hexs(cur_b)} s{hexs(orig_b)}"
            prob = stored_ok(raw_b, stored_b, (pn == want_pn, pn))
            ctx.case(("stored", stored_b), nontrivial=True)
            if has_bad_header_byte(cur_b.decode("utf-8", "surrogateescape")) or has_bad_header_byte(orig_b.decode("utf-8", "surrogateescape")):
                ctx.count("stored:quoted_header")
            pn_reqs.append(f"pnames {stored}")
            if name != want_name or prob:
                # oracle: the stored patch is not "headers carry the paths, body kept"
                ctx.violation("input", {"op": "applypatches", "request": req, "file": orig_b},
                              expected={"name": want_name, "names": want_pn, "body": "as in create_patch(cur, orig)"},
                              observed={"name": name, "text": stored_b, "problem": prob},
                              note="stored reverse patch: " + (prob or "wrong file name")
                                   + " (a body line was rewritten, a header was not, or diffy cannot read the header back)")
                return False
            rw_reqs.append(f"rewrite {raw} {cur} {orig}"); rw_meta.append(stored)
            if orig_b.decode("utf-8", "replace") not in edited:
                ctx.broke("correspondence", "patch for a file without hunks", {"request": req[:400], "file": orig_b})
        ctx.count("stored:patches=%d" % min(n_patched, 4))
    if rw_reqs:
        model = common.run_model(rw_reqs)
        ctx.cov["disagreements_checked"] += len(rw_reqs)
        for r, m, stored in zip(rw_reqs, model, rw_meta):
            if m != stored:
                ctx.broke("correspondence", "replace_patch_headers (stored patch) vs Patch.rewriteHeaders",
                          {"request": r[:600], "impl": stored[:300], "model": m[:300]})
                break
        ctx.sample({"op": "rewrite", "request": rw_reqs[0][:200], "stored": rw_meta[0][:160]})
    if pn_reqs:
        common.correspond(ctx, "header names: diffy parse of the stored patch vs Patch.parse", pn_reqs)
    return True


# -------------------------------------------------------------------------------------------------
# (b) applyundo in process

def drop_conflicts(ctx, rens):
    """the planner never emits two renames with one destination (its several-to-one conflict filter): the by-construction
    plans follow it by dropping every rename whose destination is claimed twice"""
    dests = {}
    for k, p, q in rens:
        dests[q] = dests.get(q, 0) + 1
    out = [r for r in rens if dests[r[2]] == 1]
    if len(out) != len(rens):
        ctx.count("tree:conflicting_renames_dropped")
    return out


def inproc_phase(ctx, rng, n):
    reqs, meta = [], []
    for i in range(n):
        sw, rw = gen.pick_terms(rng)
        if rng.random() < 0.2:
            rw = sw + [rng.choice([w for w in gen.VOCAB if w not in sw])]      # replacement contains the term
        tree = c01_tree(rng, sw, allow_bad=(i % 3 == 0), symlinks=(i % 4 != 1))
        hunks, rens = build_plan_for_tree(rng, tree, sw, rw)
        rens = drop_conflicts(ctx, rens)
        reqs.append(" ".join(["applyundo"] + gen.wire_tree(tree) + gen.wire_hunks(hunks) + gen.wire_rens(rens)))
        meta.append((tree, hunks, rens))
    res = common.correspond(ctx, "applyundo: apply_plan + undo_renaming vs Undo.applyUndo", reqs)
    ok = True
    for (req, impl, model), (tree, hunks, rens) in zip(res, meta):
        f = impl.split(" ", 2)
        ctx.case(req, nontrivial=bool(hunks or rens))
        ctx.count("tree:apply=" + f[0])
        nested = any(r1[1] != r2[1] and r2[1].startswith(r1[1] + "/") for r1 in rens for r2 in rens)
        if nested:
            ctx.count("tree:nested_renames")
        if f[0] != "ok":
            continue           # not a successful apply (pre-flight refusal with term-containing replacements etc.)
        ctx.count("tree:undo=" + f[1])
        before = gen.tree_to_snap(tree)
        after = gen.parse_wire_tree(f[2] if len(f) > 2 else "")
        if f[1] == "ok" and after == before:
            continue
        renames = [(k, p, q) for k, p, q in rens]
        edited = []
        for fpath in sorted({h[0] for h in hunks}):
            edited.append((fpath, oracle.final_path(fpath, renames)))
        slugs = classify_failure(before, after, edited, renames, 0 if f[1] == "ok" else 3)
        listed = slugs and all((ctx.pid, s) in ctx.findings for s in slugs) and impl == model
        if listed:
            for s in slugs:
                ctx.count("tree:known=" + s)
            continue
        ctx.violation("input", {"op": "applyundo", "request": req, "tree": tree_json(tree),
                                "hunks": hunks, "renames": rens},
                      expected={"undo": "ok", "tree": "equal to the input tree"},
                      observed={"undo": f[1], "diff": common.snap_diff(before, after)},
                      model_prediction=model[:400],
                      note="successful apply followed by undo does not give back the input tree"
                           + (f" (shape matches {sorted(slugs)} but that is not a listed finding / the model disagrees)" if slugs else ""))
        ok = False
        break
    ctx.sample({"op": "applyundo", "request": reqs[0][:300], "impl": res[0][1][:200]})
    return ok


# -------------------------------------------------------------------------------------------------
# (c) CLI oracle

def have_setpriv():
    return os.geteuid() == 0 and shutil.which("setpriv") is not None


def cli_run(args, cwd, as_user):
    if not as_user:
        return common.cli(args, cwd)
    e = dict(common.BASE_ENV)
    e["HOME"] = cwd
    e["XDG_CONFIG_HOME"] = os.path.join(cwd, ".xdg-none")
    p = subprocess.run(["setpriv", "--reuid=65534", "--regid=65534", "--clear-groups", common.CLI_BIN] + list(args),
                       cwd=cwd, env=e, stdout=subprocess.PIPE, stderr=subprocess.PIPE, stdin=subprocess.DEVNULL, timeout=120)
    return p.returncode, p.stdout, p.stderr


def chown_tree(root, uid, gid):
    for dp, dn, fn in os.walk(root):
        os.lchown(dp, uid, gid)
        for x in dn + fn:
            os.lchown(os.path.join(dp, x), uid, gid)


def latest_entry(root):
    try:
        h = json.load(open(os.path.join(root, ".renamify", "history.json")))
    except (OSError, ValueError):
        return None
    entries = h.get("entries", h) if isinstance(h, dict) else h
    entries = [e for e in entries if not e.get("revert_of")]
    return entries[-1] if entries else None


def plan_info(root, hid):
    """(edited [(orig_rel, cur_rel)], renames [(kind, src, dst)]) from the plan stored by apply"""
    try:
        plan = json.load(open(os.path.join(root, ".renamify", "plans", hid + ".json")))
    except (OSError, ValueError):
        return [], [], None
    edited = {}
    for m in plan.get("matches", []):
        if m.get("patch_hash"):
            o = oracle.rel(root, m.get("original_file") or m["file"])
            c = oracle.rel(root, m.get("renamed_file") or m.get("original_file") or m["file"])
            edited[o] = c
    renames = [("d" if r["kind"] == "dir" else "f", oracle.rel(root, r["path"]), oracle.rel(root, r.get("new_path", "")))
               for r in plan.get("paths", [])]
    return sorted(edited.items()), renames, plan


def run_scenario(sc):
    """sc: {tree, apply: [argv…], undo: 'latest'|'id', redo: bool, as_user: bool}
    returns dict(before, mid, after, rc_apply, rc_undo, err_undo, edited, renames, hid, extra)"""
    tree = tree_from_json(sc["tree"])
    as_user = bool(sc.get("as_user")) and have_setpriv()
    with common.scratch() as d:
        if as_user:
            os.chmod(d, 0o755)
            p = os.path.dirname(d)
        common.materialize(d, tree)
        if as_user:
            chown_tree(d, 65534, 65534)
        before = common.snapshot(d)
        rc_a, err_a = 0, b""
        for argv in sc["apply"]:
            rc_a, out, err_a = cli_run(argv, d, as_user)
            if rc_a != 0:
                break
        mid = common.snapshot(d)
        res = {"before": before, "mid": mid, "rc_apply": rc_a, "err_apply": err_a.decode("utf-8", "replace")[-400:],
               "as_user": as_user}
        if rc_a != 0:
            return res
        ent = latest_entry(d)
        if ent is None:
            res["no_history"] = True
            return res
        hid = ent["id"]
        edited, renames, plan = plan_info(d, hid)
        res.update({"hid": hid, "edited": edited, "renames": renames})
        target = hid if sc.get("undo") == "id" else "latest"
        rc_u, out, err_u = cli_run(["undo", target, "--no-auto-init"], d, as_user)
        res["rc_undo"] = rc_u
        res["err_undo"] = err_u.decode("utf-8", "replace")[-600:]
        res["after"] = common.snapshot(d)
        if sc.get("redo") and rc_u == 0 and res["after"] == before:
            rc_r, out, err_r = cli_run(["redo", target, "--no-auto-init"], d, as_user)
            res["rc_redo"] = rc_r
            res["err_redo"] = err_r.decode("utf-8", "replace")[-400:]
            res["after_redo"] = common.snapshot(d)
            if rc_r == 0:
                ent2 = latest_entry(d)
                rc_u2, out, err_u2 = cli_run(["undo", ent2["id"] if ent2 else "latest", "--no-auto-init"], d, as_user)
                res["rc_undo2"] = rc_u2
                res["err_undo2"] = err_u2.decode("utf-8", "replace")[-400:]
                res["after2"] = common.snapshot(d)
        return res


def judge(ctx, sc, res, label):
    """returns True when fine (or a listed finding), False after reporting a violation"""
    if res["rc_apply"] != 0:
        ctx.count(f"{label}:apply_failed")
        return True
    if res.get("no_history"):
        ctx.count(f"{label}:nothing_to_apply")
        return True
    before, after = res["before"], res["after"]
    nontrivial = res["mid"] != before
    ctx.case((label, json.dumps(sc, sort_keys=True)), nontrivial)
    ctx.count(f"{label}:changed" if nontrivial else f"{label}:unchanged")
    if any(r1[1] != r2[1] and r2[1].startswith(r1[1] + "/") for r1 in res["renames"] for r2 in res["renames"]):
        ctx.count(f"{label}:nested_renames")
    if res["rc_undo"] != 0 and "missing field" in res["err_undo"]:
        # C17's finding (stored plan with an empty string field cannot be reloaded): not C01's to report
        ctx.count(f"{label}:skipped_c17_missing_field")
        return True
    fine = res["rc_undo"] == 0 and after == before
    if fine and "after_redo" in res:
        ctx.count(f"{label}:redo_rc={res['rc_redo']}")
        if res["rc_redo"] == 0:
            if res["after_redo"] != res["mid"]:
                ctx.count(f"{label}:redo_differs_from_apply")
            if res.get("rc_undo2") != 0 and "missing field" in res.get("err_undo2", ""):
                ctx.count(f"{label}:skipped_c17_missing_field")
            elif res.get("rc_undo2") != 0 or res.get("after2") != before:
                ctx.violation("input", {"scenario": sc}, expected="tree restored after apply, undo, redo, undo",
                              observed={"rc": res.get("rc_undo2"), "stderr": res.get("err_undo2"),
                                        "diff": common.snap_diff(before, res.get("after2", {}))},
                              note="undo of the redo does not restore the original tree")
                return False
    if fine:
        ctx.count(f"{label}:restored")
        return True
    slugs = classify_failure(before, after, res["edited"], res["renames"], res["rc_undo"], readonly_user=res["as_user"])
    if slugs and all((ctx.pid, s) in ctx.findings for s in slugs):
        for s in slugs:
            ctx.count(f"{label}:known={s}")
            if sc.get("witness") == s:
                ctx.known(s)
        return True
    ctx.violation("input", {"scenario": sc}, expected={"undo_rc": 0, "tree": "equal to the tree before apply"},
                  observed={"undo_rc": res["rc_undo"], "stderr": res["err_undo"], "diff": common.snap_diff(before, after)},
                  note="successful apply followed by undo does not give back the original tree"
                       + (f"; shape {sorted(slugs)} is not a listed finding" if slugs else ""))
    return False


def cli_scenario(rng, i):
    sw, rw = gen.pick_terms(rng)
    search = gen.render("snake", sw)
    mode = ["rename", "plan_apply", "rename", "replace_lit", "replace_re", "rename"][i % 6]
    rk = rng.random()
    if rk < 0.15:
        repl = search + "_" + rng.choice(rw)            # replacement contains the term
    elif rk < 0.25:
        repl = rng.choice(rw)                           # shorter
    elif rk < 0.32:
        repl = gen.render("pascal", sw) if mode == "rename" else search.upper()   # case-only change
    else:
        repl = gen.render(rng.choice(["snake", "camel", "kebab"]), rw)
    tree = c01_tree(rng, sw, allow_bad=(i % 4 == 3))
    common_flags = ["--no-auto-init"]
    if mode == "rename":
        apply = [["rename", search, repl, "-y", "--quiet"] + common_flags]
    elif mode == "plan_apply":
        apply = [["plan", search, repl, "--quiet"] + common_flags, ["apply", "--quiet"] + common_flags]
    elif mode == "replace_lit":
        if rng.random() < 0.3:
            search, repl = " " + search, ""                       # empty replacement
        apply = [["replace", "--no-regex", search, repl, "-y"] + common_flags]
    else:
        pat = search[0] + "+" + "(" + search[1:3] + ")" + search[3:]
        apply = [["replace", pat, "X$1" + rng.choice(["", repl]), "-y"] + common_flags]
    return {"tree": tree_json(tree), "apply": apply, "undo": "id" if i % 2 else "latest", "redo": i % 5 == 0,
            "mode": mode, "search": search, "replace": repl}


def fixed_scenarios():
    """hand-written shapes: the repaired defects (must stay repaired: `fixed_*`) and further hostile shapes"""
    T = lambda d: {k: (["f", v[0].hex(), v[1]] if isinstance(v, tuple) else v) for k, v in d.items()}
    rn = lambda a, b: [["rename", a, b, "-y", "--quiet", "--no-auto-init"]]
    return [
        {"name": "fixed_dashdash", "tree": T({"notes.txt": (b"-- foo_bar x\n++ foo_bar y\n--- foo_bar\n+++ foo_bar\n@@ foo_bar @@\n", 0o644)}),
         "apply": rn("foo_bar", "baz_qux"), "undo": "latest", "redo": True},
        {"name": "fixed_nested_dirs", "tree": T({"foo_bar": ["d", 0o755], "foo_bar/foo_bar": ["d", 0o755],
                                                "foo_bar/foo_bar/foo_bar": ["d", 0o700],
                                                "foo_bar/foo_bar/foo_bar/foo_bar.txt": (b"x foo_bar\r\n", 0o600),
                                                "foo_bar/foo_bar/other.txt": (b"fooBar", 0o644),
                                                "foo_bar/foo_bar/foo_bar_only.md": (b"", 0o755)}),
         "apply": rn("foo_bar", "baz_qux"), "undo": "id", "redo": True},
        {"name": "fixed_unquoted_header",
         "tree": T({'say "foo_bar".txt': (b"say foo_bar\n", 0o644), "plain.txt": (b"foo_bar\n", 0o644)}),
         "apply": rn("foo_bar", "baz_qux"), "undo": "latest"},
        {"name": "fixed_unquoted_header_backslash_dir",
         "tree": T({"a\\b": ["d", 0o755], "a\\b/notes.txt": (b"foo_bar\n", 0o644)}),
         "apply": rn("foo_bar", "baz_qux"), "undo": "latest"},
        {"name": "fixed_symlink_exists_guard",
         "tree": T({"foo_bar_dangling": ["l", "nowhere"], "keep.txt": (b"foo_bar\n", 0o644)}),
         "apply": rn("foo_bar", "baz_qux"), "undo": "latest"},
        {"name": "fixed_symlink_exists_guard_sibling",
         "tree": T({"foo_bar-link": ["l", "foo_bar.txt"], "foo_bar.txt": (b"tgt\n", 0o644)}),
         "apply": rn("foo_bar", "baz_qux"), "undo": "latest"},
        {"name": "fixed_readonly_inplace_write", "as_user": True,
         "tree": T({"ro.txt": (b"ro foo_bar\n", 0o444), "rw.txt": (b"rw foo_bar\n", 0o644)}),
         "apply": rn("foo_bar", "baz_qux"), "undo": "latest"},
        {"name": "readonly_as_root", "tree": T({"ro.txt": (b"ro foo_bar\n", 0o444), "foo_bar": ["d", 0o555],
                                               "foo_bar/x.txt": (b"foo_bar", 0o400)}),
         "apply": rn("foo_bar", "baz_qux"), "undo": "latest"},
        {"name": "fixed_group_writable_modes",
         "tree": T({"g.txt": (b"g foo_bar\n", 0o664), "w.txt": (b"w foo_bar\r\n", 0o666), "x foo_bar.sh": (b"#!/bin/sh\nfoo_bar\n", 0o775),
                    "foo_bar": ["d", 0o775], "foo_bar/p.txt": (b"foo_bar", 0o640), "foo_bar/t.txt": (b"foo_bar", 0o600)}),
         "apply": rn("foo_bar", "baz_qux"), "undo": "latest", "redo": True},
        {"name": "fixed_newline_in_name", "tree": T({"nl\nfoo_bar\rx.txt": (b"foo_bar\n", 0o644)}),
         "apply": rn("foo_bar", "baz_qux"), "undo": "latest"},
        {"name": "names_space_tab_unicode", "tree": T({"my foo_bar file.txt": (b"foo_bar\n", 0o644),
                                                      "tab\tfoo_bar.txt": (b"fooBar\n", 0o644),
                                                      "ü foo_bar 日本.txt": (b"\xc3\xa9 foo_bar\n", 0o644),
                                                      "it's foo_bar": ["d", 0o755], "it's foo_bar/ x .txt": (b"FOO_BAR", 0o644)}),
         "apply": rn("foo_bar", "baz_qux"), "undo": "id", "redo": True},
        {"name": "case_only_dir", "tree": T({"foo_bar": ["d", 0o755], "foo_bar/inner.txt": (b"foo_bar x\n", 0o644),
                                            "foo_bar/foo_bar.rs": (b"mod foo_bar;\n", 0o600)}),
         "apply": [["replace", "--no-regex", "foo_bar", "Foo_Bar", "-y", "--no-auto-init"]], "undo": "latest"},
        {"name": "term_in_replacement", "tree": T({"foo": ["d", 0o755], "foo/foo.txt": (b"foo foo_x\n", 0o644)}),
         "apply": rn("foo", "foo_bar"), "undo": "latest", "redo": True},
    ]


def cli_phase(ctx, rng, n):
    for sc in fixed_scenarios():
        if sc.get("as_user") and not have_setpriv():
            ctx.count("cli:readonly_scenario_skipped_no_setpriv")
            continue
        res = run_scenario(sc)
        if sc["name"].startswith("fixed_") and (res["rc_apply"] != 0 or res.get("no_history")):
            ctx.broke("oracle", sc["name"], {"apply": res.get("err_apply")})
        if not judge(ctx, sc, res, "fixed:" + sc["name"]):
            return False
    for i in range(n):
        sc = cli_scenario(rng, i)
        res = run_scenario(sc)
        if not judge(ctx, sc, res, "cli:" + sc["mode"]):
            return False
        if i == 0:
            ctx.sample({"op": "cli", "mode": sc["mode"], "search": sc["search"], "replace": sc["replace"],
                        "paths": sorted(sc["tree"])[:8], "rc_undo": res.get("rc_undo")})
    return True


# -------------------------------------------------------------------------------------------------

def corpus_phase(ctx):
    for path in sorted(glob.glob(os.path.join(CORPUS, "*.json"))):
        obj = json.load(open(path))
        if "scenario" in obj:
            sc = obj["scenario"]
            if sc.get("as_user") and not have_setpriv():
                continue
            res = run_scenario(sc)
            if not judge(ctx, sc, res, "corpus:" + os.path.basename(path)[:-5]):
                return False
        elif "request" in obj:
            impl = common.run_impl([obj["request"]])[0]
            model = common.run_model([obj["request"]])[0]
            ctx.case(obj["request"])
            if impl != model:
                ctx.broke("correspondence", "corpus " + os.path.basename(path), {"impl": impl[:300], "model": model[:300]})
    return True


def run(ctx):
    ctx.cov["rule"] = ("patch: diff-hostile (current, original) pairs -> real diffy text, parse/format/apply vs model + hostile "
                       "mutations; stored: patch files written by apply_plan vs rewriteHeaders and vs the reference "
                       "'headers replaced, body kept'; tree: apply_plan+undo_renaming vs model on generated trees (nested term "
                       "directories, hostile names/contents, symlinks, modes), oracle = tree equality; cli: rename / plan+apply / "
                       "replace then undo (latest / id), and undo-redo-undo, oracle = snapshot equality. non-trivial = something "
                       "was changed by apply; distinct = distinct request / scenario")
    ctx.assumptions += ["diffy: apply(create_patch(a,b),a) = b (hypothesis of the theorems; exercised on every generated pair)",
                        "POSIX rename semantics as in RModel.Model.Fs; no symlinked directory inside a planned path",
                        "umask 022 (set by the check) for the mode of a new .rej file",
                        "sha256 injective on the paths of one plan (patch file names)"]
    os.umask(0o022)          # the expected modes do not depend on the caller's umask
    ctx.prove("RModel.Props.C01")
    ctx.prove("RModel.Props.Compose")      # planner -> apply -> undo chained (C08 + C02/C05 + C01)
    ok, msg = common.cargo_build()
    if not ok:
        ctx.broke("build", "cargo", msg)
        return
    rng = ctx.rng
    n_pairs = 1500 if ctx.thorough else 250
    n_stored = 600 if ctx.thorough else 100
    n_tree = 2000 if ctx.thorough else 300
    n_cli = 500 if ctx.thorough else 48
    if not corpus_phase(ctx):
        return
    if not patch_phase(ctx, rng, n_pairs):
        return
    if not stored_patch_phase(ctx, rng, n_stored):
        return
    if not inproc_phase(ctx, rng, n_tree):
        return
    cli_phase(ctx, rng, n_cli)
    if ctx.broken and not ctx.violations:
        # a tie broke without a failing input: widen the search with the CLI oracle before giving up
        cli_phase(ctx, rng, n_cli * 3)


def replay(ctx, path):
    os.umask(0o022)
    obj = json.load(open(path))
    case = obj.get("case", obj)
    ok, msg = common.cargo_build()
    if not ok:
        ctx.broke("build", "cargo", msg)
        return
    if isinstance(case, dict) and "scenario" in case:
        sc = case["scenario"]
        res = run_scenario(sc)
        print("apply rc:", res["rc_apply"], "undo rc:", res.get("rc_undo"), res.get("err_undo", "")[-200:])
        if "after" in res:
            print("diff:", json.dumps(common.snap_diff(res["before"], res["after"]), default=common._jd)[:1500])
        judge(ctx, sc, res, "replay")
    elif isinstance(case, dict) and "request" in case:
        req = case["request"]
        impl = common.run_impl([req])[0]
        print("impl :", impl[:400])
        try:
            print("model:", common.run_model([req])[0][:400])
        except RuntimeError as e:
            print("model: n/a", e)
        op = req.split(" ", 1)[0]
        if op == "diffrt" and impl != "ok":
            ctx.violation("input", case, expected="ok", observed=impl)
        elif op == "applyundo":
            f = impl.split(" ", 2)
            tree = tree_from_json(case["tree"]) if "tree" in case else None
            if tree is not None and f[0] == "ok":
                before = gen.tree_to_snap(tree)
                after = gen.parse_wire_tree(f[2] if len(f) > 2 else "")
                if f[1] != "ok" or after != before:
                    renames = [tuple(r) for r in case.get("renames", [])]
                    edited = [(h, oracle.final_path(h, renames)) for h in sorted({h[0] for h in case.get("hunks", [])})]
                    slugs = classify_failure(before, after, edited, renames, 0 if f[1] == "ok" else 3)
                    if not (slugs and all((ctx.pid, s) in ctx.findings for s in slugs)):
                        ctx.violation("input", case, expected="tree restored", observed={"undo": f[1], "diff": common.snap_diff(before, after)})
        elif op == "applypatches":
            f = impl.split(" ")
            for item in f[2:]:
                parts = item.split(":")
                if len(parts) != 5:
                    continue
                name, stored, orig, cur, raw = parts
                pn = common.run_impl([f"pnames {stored}"])[0]
                prob = stored_ok(unhex(raw), unhex(stored), (pn == f"ok s{cur} s{orig}", pn))
                if prob or name != hashlib.sha256(unhex(orig)).hexdigest() + ".patch":
                    ctx.violation("input", case, expected="headers carry the paths, body kept",
                                  observed={"name": name, "text": unhex(stored), "problem": prob})
                    break
    else:
        print(json.dumps(obj, indent=1, default=common._jd)[:2000])
