"""C16 — No input makes renamify crash.

translate   translate/panic_sites.py: clippy inventory of potentially panicking sites (non-test code) -> Gen/PanicSites.lean,
            corpus/C16/sites.json; exit-status table of main.rs -> Gen/ExitCodes.lean; per formerly panicking site whether the
            repaired shape (`.get(..)`, `saturating_sub`, guards) is in the source -> Gen/PanicGuards.lean (the model follows it)
tie (a)     inventory x committed classification (corpus/C16/classification.json): every site is `theorem:<name>` (the
            theorem must exist in Props/C16.lean), `infallible`, `unreachable-from-input`, `known-finding:<slug>` (none at
            HEAD) or `unclassified` (counted, reported); a site that is NEW or CHANGED (key absent) breaks the tie
prove       RModel.Props.C16: C16_full_holds (totality of every modelled core as the source has it now, for all inputs);
            before-fix witnesses for the `...Old` shapes.  A reverted fix flips its flag and the theorem named after the site.
regress     the recorded inputs of the nine repaired defects (corpus/C16/*.json) run first on the real binary
tie (b)     in-process correspondence, panic / no panic per case: real is_boundary, find_matches, parse_to_tokens (default and
            custom acronyms), apply_plan on stale offsets, LockFile::acquire on hostile lock contents, apply_coercion,
            generate_variant_map (no empty key), can_match_style (under catch_unwind) vs the Lean model's prediction
oracle (c)  CLI fuzz-style stream (checks/c16_cli.py): status in {0,1,2,3,130}, no `panicked at`, not killed by a signal,
            terminates.  Any crash is a VIOLATION with the case as replay, unless KNOWN_FINDINGS.txt lists a finding whose
            panic location (file::fn, classified line) and input class it matches (none is listed at HEAD).
"""
import json
import os
import re
import time
from concurrent.futures import ThreadPoolExecutor

from . import common
from . import c16_cli as cli
from .common import hexs

CORPUS = os.path.join(common.ROOT, "corpus", "C16")
CORE = "renamify-core/src/"

# listed findings: root cause -> panic sites (file, enclosing fn) it may surface at, the input class that triggers it
# (computed mechanically from the case by c16_cli.classes / step_classes), and whether it can show as non-termination
FINDINGS = {
    "lossy_column": {
        "sites": {(CORE + "scanner.rs", "generate_hunks"), (CORE + "ambiguity/resolver.rs", "try_language_heuristics"),
                  (CORE + "preview/diff.rs", "render_diff"), (CORE + "preview/matches.rs", "render_matches"),
                  (CORE + "preview/diff.rs", "highlight_line_with_hunks")},
        "class": "invalid_utf8_line", "hang": False},
    "lowercase_offsets": {
        "sites": {(CORE + "coercion.rs", "replace_case_insensitive"), (CORE + "coercion.rs", "apply_coercion")},
        "class": "len_changing_lower", "hang": False},
    "stale_offsets": {
        "sites": {(CORE + "apply.rs", "apply_content_edits_with_content")},
        "class": "stale_plan", "hang": False},
    "lock_future_timestamp": {
        "sites": {(CORE + "lock.rs", "acquire")},
        "class": "lock_future", "hang": False},
    "empty_variant": {
        "sites": {(CORE + "pattern.rs", "is_boundary"), (CORE + "scanner.rs", "generate_hunks"),
                  (CORE + "ambiguity/resolver.rs", "try_language_heuristics"), (CORE + "preview/diff.rs", "render_diff"),
                  (CORE + "preview/matches.rs", "render_matches"), (CORE + "preview/diff.rs", "highlight_line_with_hunks")},
        "class": "empty_variant", "hang": True},
    "nonascii_uppercase_run": {
        "sites": {(CORE + "case_constraints.rs", "has_consecutive_uppercase")},
        "class": "nonascii_upper", "hang": False},
    "empty_literal_pattern": {
        "sites": set(), "class": "empty_literal_pattern", "hang": True},
    "acronym_byte_as_char": {
        "sites": {(CORE + "acronym.rs", "find_longest_match")},
        "class": "latin1_acronym", "hang": False},
    "argv_nonutf8_parse_error": {
        "sites": {("renamify-cli/src/main.rs", "argv_asks_for_json")},
        "class": "nonutf8_argv", "hang": False},
    "json_nonutf8_path": {
        "sites": {(CORE + "output.rs", "format_json")},
        "class": "nonutf8_name_json", "hang": False},
}


def step_classes(case, step):
    """input classes of one invocation (case-level classes plus what depends on the command line)"""
    cl = set(cli.classes(case))
    argv = step.get("argv") or []
    cmd = next((a for a in argv if not a.startswith("-")), "")
    texts = [case.get("search") or "", case.get("replace") or ""] + list(argv)
    for t in case["tree"]:
        texts.append(cli.U(t[1]).decode("utf-8", "replace"))
        if t[0] == "f":
            texts.append(cli.U(t[2]).decode("utf-8", "replace"))
    if any(ord(ch) > 127 and ch.isupper() for t in texts for ch in set(t)):
        cl.add("nonascii_upper")
    pos = positionals(argv)
    if cmd in ("plan", "rename", "search") and len(pos) >= 2:
        term = pos[1]
        if not any(ch.isascii() and ch.isalnum() for ch in term):
            cl.add("empty_variant")
    if cmd == "replace" and "--no-regex" in argv and len(pos) >= 2 and pos[1] == "":
        cl.add("empty_literal_pattern")
    if any(0xDC80 <= ord(ch) <= 0xDCFF for a in argv for ch in a):
        cl.add("nonutf8_argv")
    for i, a in enumerate(argv):
        if a in ("--include-acronyms", "--only-acronyms") and i + 1 < len(argv) and any(0x80 <= ord(ch) <= 0xFF for ch in argv[i + 1]):
            cl.add("latin1_acronym")
    nonutf8 = False
    for t in case["tree"]:
        try:
            cli.U(t[1]).decode("utf-8")
        except UnicodeDecodeError:
            nonutf8 = True
    if nonutf8 and "json" in argv:
        cl.add("nonutf8_name_json")
    return cl


VALUE_OPTS = {"--only-styles", "--exclude-styles", "--include-styles", "--include-acronyms", "--exclude-acronyms", "--only-acronyms",
              "--include", "--exclude", "--exclude-match", "--exclude-matching-lines", "--preview", "--output", "--plan-out", "-C",
              "--auto-init", "--limit"}


def positionals(argv):
    """[command, positional...] of an argv as clap sees it (good enough for the option shapes the generator emits)"""
    out, i, raw = [], 0, False
    while i < len(argv):
        a = argv[i]
        if raw:
            out.append(a)
        elif a == "--":
            raw = True
        elif a in VALUE_OPTS:
            i += 1
        elif a.startswith("-") and a != "-":
            pass
        else:
            out.append(a)
        i += 1
    return out


def panic_sites_of(stderr_text):
    """all (file, fn, line) the process panicked at (several rayon workers may panic in one run).  When the reported
    location lies outside the repository (a std function without #[track_caller]), the first repository frame of the
    backtrace (RUST_BACKTRACE=1) is used instead."""
    from translate import panic_sites
    out = []
    blocks = re.split(r"(?=thread '[^']*'(?: \(\d+\))? panicked at )", stderr_text)
    for b in blocks:
        m = re.search(r"panicked at ([^\s:]+):(\d+):(\d+)", b)
        if not m:
            continue
        f, line = m.group(1), int(m.group(2))
        if not re.match(r"(?:/repo/|.*/)?renamify-(?:core|cli)/src/", f):
            fr = re.search(r"\bat (?:\S*/)?(renamify-(?:core|cli)/src/[^\s:]+):(\d+)", b)
            if fr:
                f, line = fr.group(1), int(fr.group(2))
        rel = re.sub(r"^.*?(renamify-(?:core|cli)/src/)", r"\1", f)
        fn, is_test = panic_sites.enclosing_fn(common.REPO, rel, line)
        out.append((rel, fn, line))
    return out


def shrink_case(case, limit=2000):
    """same case with every file cut to `limit` bytes: separates quadratic cost on huge lines from non-termination"""
    c = json.loads(json.dumps(case))
    for t in c["tree"]:
        if t[0] == "f":
            t[2] = cli.H(cli.U(t[2])[:limit])
    for s in c["steps"]:
        if s.get("mutate") == "write" and s.get("content"):
            s["content"] = cli.H(cli.U(s["content"])[:limit])
    c["shrunk"] = True
    return c


def is_resource(res):
    """ran out of the time or address-space budget (as opposed to a panic / wrong status)"""
    if res["bad"] == "timeout":
        return True
    return res["bad"] in ("signal 6", "signal 9") and "panicked at" not in res.get("stderr", "") and (
        "memory allocation of" in res.get("stderr", "") or res["bad"] == "signal 9")


# (file, line) -> set of classes of the inventoried sites on that line (filled by inventory_tie); NEW marks unclassified new sites
SITE_CLASS = {}
NEW = "new-or-changed"


def site_covers(slug, f, fn, line):
    """does the panic location fall under finding `slug`?  The function must be one the finding names, and if the inventory
    has sites on that very line, one of them must be classified as a known finding (a new, or differently classified,
    expression in the same function is NOT covered)."""
    classes = SITE_CLASS.get((f, line))
    if classes and not any(c.startswith("known-finding:") for c in classes):
        return False
    return (f, fn) in FINDINGS[slug]["sites"]


def verdict(ctx, case, results):
    """(list of uncovered bad steps, set of finding slugs observed). Pure classification, no printing."""
    uncovered, seen = [], set()
    for res in results:
        if not res["bad"]:
            continue
        step = case["steps"][res["step"]]
        cl = step_classes(case, step)
        sites = panic_sites_of(res.get("stderr", ""))
        res["sites"] = [list(s) for s in sites]
        res["classes"] = sorted(cl)
        ok = True
        slugs = set()
        for (f, fn, line) in sites:
            cover = [s for s, fd in FINDINGS.items() if site_covers(s, f, fn, line) and fd["class"] in cl and (ctx.pid, s) in ctx.findings]
            if cover:
                slugs.update(cover[:1])
            else:
                ok = False
        if is_resource(res):
            cover = [s for s, fd in FINDINGS.items() if fd["hang"] and fd["class"] in cl and (ctx.pid, s) in ctx.findings]
            if cover:
                slugs.update(cover[:1])
            else:
                ok = False
        elif not sites:
            ok = False      # undocumented status / signal / silent failure without a panic message: nothing to match it to
        if ok:
            seen |= slugs
            res["covered_by"] = sorted(slugs)
        else:
            uncovered.append(res)
    return uncovered, seen


def run_cases(cases, timeout=cli.TIMEOUT, workers=16):
    with ThreadPoolExecutor(workers) as ex:
        return list(ex.map(lambda c: cli.execute(c, timeout), cases))


def examine(ctx, case, results, tag):
    """apply the oracle to one executed case; returns True if a violation was reported"""
    uncovered, seen = verdict(ctx, case, results)
    for s in sorted(seen):
        ctx.count("covered-by:" + s)
        ctx.known(s)          # the listed defect was re-observed on the real binary (same site, same input class)
    if uncovered and all(is_resource(r) for r in uncovered) and not case.get("shrunk"):
        # out of time / memory: decide between "big input is expensive" and "does not terminate" on a cut-down copy
        small = shrink_case(case)
        r2 = cli.execute(small, timeout=cli.TIMEOUT)
        u2, seen2 = verdict(ctx, small, r2)
        if not u2 and not any(is_resource(r) for r in r2 if r["bad"]):
            ctx.count("resource:expensive-on-large-input")
            ctx.notes.append({"expensive": [r["argv"][:8] for r in uncovered][:2], "idx": case.get("idx")}) if len(ctx.notes) < 8 else None
            return False
        case, uncovered = small, u2 or [r for r in r2 if r["bad"]]
        uncovered = [r for r in uncovered if "covered_by" not in r]
        if not uncovered:
            return False
    if not uncovered:
        return False
    r = uncovered[0]
    ctx.violation("input", case, expected="exit status in {0,1,2,3,130}, no panic, terminates",
                  observed={"step": r["step"], "argv": r["argv"], "rc": r["rc"], "reason": r["bad"], "panic_sites": r.get("sites"),
                            "stderr": r.get("stderr", "")[-800:], "classes": r.get("classes")},
                  note=f"{tag}: crash / undocumented status not covered by a listed finding (match is by panic location file::fn and input class)")
    return True


# ---------------------------------------------------------------------------------------------------
# corpus witnesses

def load_witnesses():
    out = []
    if os.path.isdir(CORPUS):
        for f in sorted(os.listdir(CORPUS)):
            if f.endswith(".json") and f not in ("sites.json", "classification.json"):
                out.append((f, json.load(open(os.path.join(CORPUS, f)))))
    return out


def overlap_cases():
    """fixed hand-edited-plan cases: `plan`, add a second DIFFERENT hunk that overlaps / touches a planned one (every kind of
    c16_cli.OVERLAPS, three variants each; each hunk alone is valid for the file), `apply`"""
    content = "let old_name = 1; // old_name_extra here\nsecond old_name line\nédition old_name_é old_nameß\n"
    cases = []
    for how in cli.OVERLAPS:
        for arg in range(4):
            cases.append({"idx": len(cases), "family": "overlap:" + how, "search": "old_name", "replace": "new_name",
                          "tree": [["f", cli.H("a.txt"), cli.H(content)]], "state": [],
                          "steps": [{"argv": ["plan", "old_name", "new_name", "--no-auto-init", "--quiet"]},
                                    {"mutate": "plan", "how": how, "arg": arg},
                                    {"argv": ["apply", "--no-auto-init"]}]})
    return cases


def capture_cases():
    """fixed `replace` cases in regex mode: every pattern of c16_cli.GROUP_PATTERNS on a text where some match leaves a group
    unset, with replacements that mention set / unset / non-existent groups, `$0`, `${name}`, `$$`; dry-run, diff preview, -y;
    plus literal mode with `$` in the replacement"""
    text = ("set_alpha(1); get_beta(2);\nget_x()\net_z set_y\nfoo bar\nabcx x bx\n12-ab -cd\nbbab yyz z\na_b a_b_c\nq7 7\n5abc abc\n"
            "éfoo foo\n  indented\n\nb\n").encode()
    cases = []
    reps = ["$1", "$2", "[$1|$2|$3]", "$0 ${1}x $12 $$", "${verb}_${what}${n}${nope}"]
    modes = [["--dry-run"], ["--dry-run", "--preview", "diff"], ["-y"]]
    k = 0
    for pat in cli.GROUP_PATTERNS:
        for rep in reps:
            mode = modes[k % 3]
            k += 1
            cases.append({"idx": len(cases), "family": "capture-groups", "search": pat, "replace": rep,
                          "tree": [["f", cli.H("a.txt"), cli.H(text)]], "state": [],
                          "steps": [{"argv": ["replace", "--no-auto-init"] + mode + ["--", pat, rep]}]})
    for rep in ["$", "$1", "$$", "${", "$0x", "a$b"]:
        cases.append({"idx": len(cases), "family": "capture-groups:literal", "search": "foo", "replace": rep,
                      "tree": [["f", cli.H("a.txt"), cli.H(text)]], "state": [],
                      "steps": [{"argv": ["replace", "--no-auto-init", "--no-regex", "-y", "--", "foo", rep]},
                                {"argv": ["undo", "latest"]}]})
    return cases


def capture_regression(ctx):
    cases = capture_cases()
    for case, res in zip(cases, run_cases(cases, timeout=30)):
        ctx.case(("capture", case["search"], case["replace"], case["idx"]))
        ctx.count("capture-groups:status=" + str(res[0]["rc"]))
        if examine(ctx, case, res, "replace with capture-group references (" + case["family"] + ")"):
            return True
    return False


def overlap_regression(ctx):
    cases = overlap_cases()
    for case, res in zip(cases, run_cases(cases, timeout=30)):
        ctx.case(("overlap", case["family"], case["idx"]))
        ctx.count("overlap-plan:apply-status=" + str(res[-1]["rc"]))
        if examine(ctx, case, res, "hand-edited plan with overlapping hunks (" + case["family"] + ")"):
            return True
    return False


def witnesses(ctx):
    """replay every recorded witness; print KNOWN-FINDING only when the defect is re-observed exactly as recorded"""
    ws = load_witnesses()
    res = run_cases([w["case"] for _, w in ws], timeout=20)
    bad = False
    for (fname, w), results in zip(ws, res):
        case, slug, exp = w["case"], w["slug"], w["expect"]
        ctx.case(("witness", fname))
        hit = False
        for r in results:
            if not r["bad"]:
                continue
            sites = panic_sites_of(r.get("stderr", ""))
            if exp["kind"] == "panic" and any([f, fn] == exp["site"] for f, fn, _ in sites):
                hit = True
            if exp["kind"] == "hang" and is_resource(r):
                hit = True
        ctx.count("witness:" + slug + (":reproduced" if hit else ":not-reproduced"))
        if hit:
            if not ctx.known(slug):
                # re-observed but not listed: an unlisted crash is a violation
                bad = examine(ctx, case, results, "witness " + fname) or bad
        else:
            # fixed (or fails differently): no KNOWN-FINDING line; anything else it does wrong is judged like any case
            bad = examine(ctx, case, results, "witness " + fname) or bad
    return bad


# ---------------------------------------------------------------------------------------------------
# tie (a): inventory x classification

def inventory_tie(ctx):
    from translate import panic_sites
    try:
        res = panic_sites.run()
    except Exception as ex:                      # translator cannot parse its source
        ctx.broke("translator", "translate/panic_sites.py", repr(ex))
        return []
    info = panic_sites.run.last
    sites = info["sites"]
    ctx.cov["repaired_shapes_found"] = info.get("guards", {})
    missing = [k for k, v in info.get("guards", {}).items() if not v]
    if missing:
        ctx.notes.append({"repaired shape no longer in the source (Gen.PanicGuards flag false; the theorem named after the site "
                          "will not compile and the model predicts the old behaviour)": missing})
    ctx.count("inventory:sites", len(sites))
    ctx.cov["inventory_mode"] = info["mode"]
    if not info["mode"].startswith("clippy"):
        ctx.broke("translator", "panic-site inventory", "cargo clippy unavailable, regex fallback used: " + info["mode"])
    try:
        cls = json.load(open(os.path.join(CORPUS, "classification.json")))["sites"]
    except (OSError, ValueError, KeyError) as ex:
        ctx.broke("translator", "corpus/C16/classification.json", repr(ex))
        return sites
    theorems = set()
    try:
        theorems = {n.split(".", 1)[1] if n.startswith("C16.") else n for n in common.theorem_names("RModel.Props.C16")}
    except OSError:
        pass
    new, bad, hist = [], [], {}
    SITE_CLASS.clear()
    for s in sites:
        c = cls.get(s["key"])
        SITE_CLASS.setdefault((s["file"], s["line"]), set()).add(c["class"] if c else NEW)
        if c is None:
            new.append(s)
            continue
        kind = c["class"].split(":", 1)[0]
        hist[kind] = hist.get(kind, 0) + 1
        if kind == "theorem" and c["class"].split(":", 1)[1] not in theorems:
            bad.append((s["key"], "theorem not found in Props/C16.lean: " + c["class"]))
        if kind == "known-finding" and c["class"].split(":", 1)[1] not in FINDINGS:
            bad.append((s["key"], "unknown finding slug: " + c["class"]))
        if kind not in ("theorem", "infallible", "known-finding", "unreachable-from-input", "unclassified"):
            bad.append((s["key"], "unknown class " + c["class"]))
    for k, v in hist.items():
        ctx.count("classified:" + k, v)
    ctx.cov["classification"] = {"sites": len(sites), **hist, "new_or_changed": len(new),
                                 "stale_entries": len(set(cls) - {s["key"] for s in sites})}
    if new:
        ctx.broke("translator", "panic-site inventory x classification",
                  {"new_or_changed_sites": [{k: s[k] for k in ("file", "fn", "lint", "expr", "line")} for s in new[:12]],
                   "count": len(new),
                   "meaning": "potentially panicking code that no theorem / review covers; classify it in corpus/C16/classification.json"})
    if bad:
        ctx.broke("translator", "classification.json", {"problems": bad[:10]})
    return new


# ---------------------------------------------------------------------------------------------------
# tie (b): in-process correspondence, panic / no panic

def gen_inprocess(rng, n):
    reqs = []
    atoms = [b"foo", b"Bar", b"_", b"-", b" ", b"A", b"z", b"9", b"\xff", "é".encode(), "İ".encode(), b".", b"XML", b"Http", b"2", b"ID"]
    for _ in range(n):
        s = b"".join(rng.choice(atoms) for _ in range(rng.randint(0, 6)))
        r = rng.random()
        if r < 0.5:
            a = rng.randint(0, len(s) + 2)
            b = rng.randint(0, len(s) + 2)
            if rng.random() < 0.7 and a > b:
                a, b = b, a
            reqs.append(f"panic_boundary {hexs(s)} {a} {b}")
        else:
            try:
                s.decode("utf-8")
            except UnicodeDecodeError:
                s = s.replace(b"\xff", b"q")
            reqs.append(f"panic_tokens {hexs(s)}")
    now = int(time.time())
    locks = [b"1:99999999999", b"1:0", b"", b":", b"abc", b"1:2:3", b"-1:-1", b"1:18446744073709551616", b"1:18446744073709551615",
             b" 1:5 \n", b"1:+7", b"1:" + str(now + 100000).encode(), b"1:" + str(now - 100000).encode(), b"x:y", b"1: 5", b"4294967296:1",
             b"1:00000000000000000000000000000001", b"1:" + b"9" * 30, "1:١".encode(), b"\xff:\xff", b"1:-0", b"1:+", b"7:" + str(now + 5000).encode()]
    for c in locks:
        reqs.append(f"panic_lock {hexs(c)} {now}")
    for _ in range(n // 6):
        c = rng.choice([b"1:", b"0:", b"77:", b"x:"]) + str(rng.choice([0, 1, now - 5000, now + 5000, 2 ** 63, 2 ** 64 - 1, 2 ** 64])).encode()
        reqs.append(f"panic_lock {hexs(c)} {now}")
    words = ["foo_bar", "FooBar", "fooBar", "foo-bar", "İ", "ẞ", "K", "x", "_", "", "é", "foo", "Foo-Bar", "FOO_BAR", "a.b", "Ⱥ"]
    for _ in range(n // 3):
        old = rng.choice(words[:4] + ["foo", "x", "é"])
        cont = "".join(rng.choice(words) for _ in range(rng.randint(0, 2))) + old + "".join(rng.choice(words) for _ in range(rng.randint(0, 2)))
        new = rng.choice(["baz_qux", "BazQux", "q", ""])
        reqs.append(f"panic_coerce {hexs(cont)} {hexs(old)} {hexs(new)}")
    # regression inputs of the repaired panics first, then random ones around them
    reqs.append(f"panic_coerce {hexs('İfoo_bar')} {hexs('foo_bar')} {hexs('baz_qux')}")
    reqs.append(f"panic_coerce {hexs('Kfoo-bar-impl')} {hexs('foo-bar')} {hexs('baz')}")
    reqs.append(f"panic_tokens_acr {hexs('AÃb')} {hexs('AÃ')}")
    reqs.append(f"panic_upper {hexs('ÀB')}")
    reqs.append(f"panic_upper {hexs('É')}")
    reqs.append(f"panic_vmap {hexs('$')} {hexs('x')}")
    reqs.append(f"panic_vmap - {hexs('x')}")
    reqs.append(f"panic_find {hexs('a')} {hexs('foo')}")
    reqs.append(f"panic_edits {hexs('x')} {hexs('foo_bar')} {hexs('baz')} 2 9")
    reqs.append(f"panic_edits {hexs('xé foo_bar y')} {hexs('foo_bar')} {hexs('baz')} 2 9")
    reqs.append(f"panic_edits {hexs('x foo_bar y')} {hexs('foo_bar')} {hexs('baz')} 9 2")
    reqs.append(f"panic_edits {hexs('x foo_bar')} {hexs('foo_bar')} {hexs('b')} 2 9 {hexs('foo_bar')} {hexs('b')} 2 9")
    upp = ["À", "É", "B", "a", "Σ", "ǅ", "x", "ID", "İ", "9", "_", "Ω"]
    terms = ["$", "__", "日本語", "İ", "foo_bar", "x", "-", " ", "é", "a.b", "FooBar", "2fa", "😀", "Straße"]
    acr = ["AÃ", "Ã", "É", "ID", "K8S", "é", "ÿ", "2FA", "Aÿ"]
    for _ in range(n // 4):
        reqs.append("panic_upper " + hexs("".join(rng.choice(upp) for _ in range(rng.randint(1, 5)))))
        reqs.append(f"panic_vmap {hexs(rng.choice(terms))} {hexs(rng.choice(terms + ['']))}")
        text = "".join(rng.choice(["A", "Ã", "É", "b", "ÿ", "_", "ID", "é", "x", "2"]) for _ in range(rng.randint(1, 6)))
        reqs.append("panic_tokens_acr " + hexs(text) + " " + " ".join(hexs(a) for a in rng.sample(acr, rng.randint(1, 3))))
        content = b"".join(rng.choice(atoms) for _ in range(rng.randint(0, 6)))
        vs = [rng.choice(["foo", "Bar", "_", "A", "é", "foo_bar", "z9"]) for _ in range(rng.randint(1, 3))]
        reqs.append("panic_find " + hexs(content) + " " + " ".join(hexs(v) for v in vs))
        from .c02 import gen_edit_case
        r, kind, info = gen_edit_case(rng, malformed=True)
        reqs.append("panic_" + r)
        # identifiers of the only shapes IdentifierExtractor hands to find_compound_variants
        if rng.random() < 0.5:
            ident = rng.choice(["foo", "my", "Foo", "_x", "a9"]) + "".join(
                rng.choice(["_", "-", ".", "foo", "bar", "Foo", "BAR", "s", "2", "Baz", "x"]) for _ in range(rng.randint(1, 6)))
        else:
            tw = ["Ab", "Cd", "Foo", "Bar", "Foos", "Baz", "Fo", "Foobar"]
            ident = rng.choice(tw) + "".join(rng.choice([" ", "\u00a0", "\u2003", "\u2028", "\u3000", "  "]) + rng.choice(tw)
                                             for _ in range(rng.randint(1, 5)))
        reqs.append(f"panic_compound {hexs(ident)} {hexs(rng.choice(['foo_bar', 'Foo Bar', 'foo', 'fooBar', 'Bar']))} "
                    f"{hexs(rng.choice(['baz_qux', 'Qux', 'Baz Qux', 'q']))}")
    for _ in range(n // 3):
        pat, rep, content, mode = cli.gen_group_replace(rng)
        reqs.append(f"panic_replace {hexs(content)} {hexs(pat)} {hexs(rep)} {'literal' if '--no-regex' in mode else 'regex'}")
    return reqs


def gen_overlap_edits(rng):
    """`panic_edits` request: a consistent edit plus a second, DIFFERENT hunk of the same file that overlaps or touches it
    (nested, straddling, same start / end, enclosing, adjacent, reversed order, same range with another replacement).
    Each hunk alone is valid: in range, on character boundaries, recorded text present."""
    words = ["old_name", "_extra", " ", "é", "日本", "x", "let ", "= 1;", "\n", "foo_bar", "Baz", "ß", "-"]
    pieces = [rng.choice(words) for _ in range(rng.randint(3, 9))]
    data = "".join(pieces).encode()
    offs = [0]
    for p in pieces:
        offs.append(offs[-1] + len(p.encode()))
    i = rng.randrange(len(pieces))
    j = min(len(pieces), i + rng.randint(1, 3))
    base = {"start": offs[i], "end": offs[j], "content": "".join(pieces[i:j]), "replace": rng.choice(["new_name", "", "Q", "日"])}
    how = rng.choice(cli.OVERLAPS)
    x = cli.overlap_hunk(base, data, how, rng.randint(0, 5)) or cli.overlap_hunk(base, data, "dup_other_replacement", rng.randint(0, 5))
    hunks = [base, x] if rng.random() < 0.5 else [x, base]
    if how == "overlap_reversed" and j < len(pieces):
        hunks = [{"start": offs[j], "end": offs[-1], "content": "".join(pieces[j:]), "replace": "T"}] + hunks
    f = ["panic_edits", hexs(data)]
    for h in hunks:
        f += [hexs(h["content"]), hexs(h["replace"]), str(h["start"]), str(h["end"])]
    return " ".join(f), how


def cli_case_for(req):
    """the same input as an in-process request, as a CLI case (tree + plan.json / arguments): a disagreement found in-process
    is replayed on the real binary at once, so that a concrete failing command line is reported, not only a broken tie"""
    f = req.split()
    op = f[0]
    H = cli.H
    txt = lambda h: common.unhex(h).decode("utf-8", "replace")
    case = {"idx": 0, "family": "inprocess-replay", "search": "", "replace": "", "tree": [], "state": [], "steps": [], "from_request": req}
    base = ["--no-auto-init"]
    if op == "panic_edits":
        hunks = []
        for g in range(2, len(f), 4):
            hunks.append([H("a.txt"), txt(f[g]), txt(f[g + 1]), int(f[g + 2]), int(f[g + 3])])
        case["tree"] = [["f", H("a.txt"), H(common.unhex(f[1]))]]
        case["steps"] = [{"mutate": "write_plan", "hunks": hunks}, {"argv": ["apply"] + base}]
    elif op == "panic_lock":
        case["tree"] = [["f", H("a.txt"), H("x foo_bar y\n")]]
        case["state"] = [["renamify.lock", H(common.unhex(f[1]))]]
        case["steps"] = [{"argv": ["plan", "foo_bar", "baz_qux", "--quiet"] + base}, {"argv": ["apply"] + base}]
    elif op in ("panic_coerce", "panic_compound"):
        cont, old, new = txt(f[1]), txt(f[2]), txt(f[3])
        case["search"], case["replace"] = old, new
        case["tree"] = [["f", H("a.txt"), H("x " + cont + " y\n" + cont + "\n")], ["f", H((cont.replace("/", "_") or "n")[:200] + ".txt"), H(cont)]]
        case["steps"] = [{"argv": ["plan"] + base + ["--dry-run", "--", old, new]}, {"argv": ["rename"] + base + ["--dry-run", "--preview", "diff", "--", old, new]}]
    elif op in ("panic_tokens", "panic_tokens_acr", "panic_upper", "panic_vmap"):
        text = txt(f[1])
        repl = txt(f[2]) if op == "panic_vmap" else "baz_qux"
        acr = ["--include-acronyms", ",".join(txt(a) for a in f[2:])] if op == "panic_tokens_acr" and len(f) > 2 else []
        case["search"], case["replace"] = text, repl
        case["tree"] = [["f", H("a.txt"), H("x " + text + " y\n" + text + "\nfoo_bar " + text + "\n")]]
        case["steps"] = [{"argv": ["plan"] + base + ["--dry-run"] + acr + ["--", text, repl]},
                         {"argv": ["plan"] + base + ["--dry-run"] + acr + ["--", "foo_bar", text]},
                         {"argv": ["search"] + base + acr + ["--", text]}]
    elif op == "panic_replace":
        pat, rep = txt(f[2]), txt(f[3])
        case["search"], case["replace"] = pat, rep
        case["tree"] = [["f", H("a.txt"), H(common.unhex(f[1]))]]
        extra = ["--no-regex"] if f[4] == "literal" else []
        case["steps"] = [{"argv": ["replace"] + base + extra + ["--dry-run", "--", pat, rep]}]
    elif op in ("panic_boundary", "panic_find"):
        data = common.unhex(f[1])
        vs = [txt(v) for v in f[2:]] if op == "panic_find" else ["foo", "A", "z9"]
        case["tree"] = [["f", H("a.txt"), H(data)]]
        case["steps"] = [{"argv": ["plan"] + base + ["--dry-run", "--", v or "x", "q"]} for v in vs[:3]]
        case["search"] = vs[0] if vs else ""
    else:
        return None
    for st in case["steps"]:
        if "argv" in st:
            st["argv"] = [a.replace("\x00", "") for a in st["argv"]]
    return case


def inprocess(ctx, n):
    reqs = gen_inprocess(ctx.rng, n)
    for _ in range(n // 2):
        r, how = gen_overlap_edits(ctx.rng)
        reqs.append(r)
        ctx.count("inproc:overlap:" + how)
    try:
        impl = common.run_impl(reqs)
        model = common.run_model(reqs)
    except RuntimeError as ex:
        ctx.broke("correspondence", "panic_* ops", str(ex))
        return False
    ctx.cov["disagreements_checked"] += len(reqs)
    first = None
    for r, i, m in zip(reqs, impl, model):
        op = r.split()[0]
        ctx.case(r)
        ctx.count(f"inproc:{op}:impl={i.split()[0]}")
        if i == "bad-op" or m == "bad-op" or i == "bad-req" or m == "bad-req":
            first = first or (r, i, m, "operation not wired")
            continue
        # the model answers `nopanic` (proved safe), `panic` (exact characterisation says the code panics today) or `any`
        if op == "panic_compound" and i == "panic":
            first = first or (r, i, m, "find_compound_variants panics on an identifier of a shape the identifier extractor produces")
        elif op == "panic_replace" and i == "panic":
            first = first or (r, i, m, "create_simple_plan (the planner of `replace`) panics on this content / pattern / replacement")
        elif i == "panic" and m in ("nopanic", "no-empty-key"):
            first = first or (r, i, m, "the implementation panics where the model proves it cannot")
        elif i == "empty-key" and m == "no-empty-key":
            first = first or (r, i, m, "the variant map has the empty string as a key although the model proves it cannot")
        elif i == "nopanic" and m == "panic":
            first = first or (r, i, m, "the model (which follows the source through Gen.PanicGuards) predicts a panic the implementation does not have")
    if first:
        r, i, m, why = first
        ctx.broke("correspondence", "panic / no panic: implementation vs Lean model", {"request": r, "impl": i, "model": m, "why": why})
        # replay the disagreeing inputs through the CLI at once: a concrete failing command line beats a broken tie
        tried = 0
        for r2, i2, m2 in zip(reqs, impl, model):
            if i2 == "panic" and m2 != "panic" and tried < 12:      # includes the `any` ops panic_replace / panic_compound
                case = cli_case_for(r2)
                if case is None:
                    continue
                tried += 1
                ctx.count("inproc:replayed-through-cli")
                res = cli.execute(case)
                ctx.case(("inproc-replay", r2))
                if examine(ctx, case, res, "in-process disagreement replayed through the CLI (" + r2.split()[0] + ")"):
                    return True
    ctx.sample({"inprocess": reqs[0], "impl": impl[0], "model": model[0]})
    return False


# ---------------------------------------------------------------------------------------------------

def focus_families(new_sites):
    """families of CLI cases to run more of when an unclassified site appeared in these files"""
    fams = set()
    for s in new_sites:
        f = s["file"]
        if "preview/" in f or "output.rs" in f:
            fams |= {"plan", "search", "rename", "paths"}
        elif "undo.rs" in f:
            fams |= {"state", "plan_apply", "rename", "stale_redo"}
        elif "lock.rs" in f or "history.rs" in f or "id_resolver" in f:
            fams |= {"state", "plan_apply", "rename"}
        elif "apply.rs" in f:
            fams |= {"stale_tree", "stale_plan", "plan_apply"}
        elif "renamify-cli" in f:
            fams |= {"misc", "state", "paths"}
        else:
            fams |= {"plan", "rename", "search", "replace", "paths"}
    return fams


def cli_stream(ctx, n, tag, families=None):
    cases = []
    i = 0
    while len(cases) < n:
        c = cli.gen_case(ctx.rng, i)
        i += 1
        if families and c["family"] not in families:
            continue
        cases.append(c)
    t0 = time.time()
    results = run_cases(cases)
    ctx.cov.setdefault("cli_wall_s", 0)
    ctx.cov["cli_wall_s"] = round(ctx.cov["cli_wall_s"] + time.time() - t0, 1)
    for case, res in zip(cases, results):
        ctx.case(("cli", tag, case["idx"], case["search"], case["replace"], case["family"]))
        ctx.count("family:" + case["family"])
        for r in res:
            ctx.count("status:" + str(r["rc"]))
            if r["bad"]:
                ctx.count("bad:" + r["bad"].split(" (")[0])
    ctx.sample({"cli_case": {k: cases[0][k] for k in ("family", "search", "replace", "steps")}, "results": results[0]})
    for case, res in zip(cases, results):
        if examine(ctx, case, res, tag):
            return True
    return False


def run(ctx):
    ctx.cov["rule"] = ("cli: generated (tree, terms, options, command sequence) cases biased to the modelled sites: invalid UTF-8 / "
                       "length-changing case mappings / NUL / lone CR before, next to and after a match, 10^5-byte lines, empty files; "
                       "names with spaces, quotes, newlines, non-UTF-8 bytes, 255 bytes; terms: regex metacharacters, separators only, "
                       "single characters, non-ASCII, empty; all commands and option groups incl. every --preview format and --output json; "
                       "stale plans (file rewritten / offsets past EOF, inside a character, start>end, wrong JSON types); hostile "
                       ".renamify state (lock, history.json, plan.json, config.toml). quick 300 cases, thorough 5000. in-process: "
                       "is_boundary on arbitrary (bytes,start,end), parse_to_tokens, LockFile::acquire on hostile contents, "
                       "apply_coercion on hostile strings. non-trivial = every case; distinct = distinct (terms, family, index)")
    ctx.assumptions += ["clap parse errors exit with status 2 and --help/--version with 0 (library behaviour, observed by the oracle, not modelled)",
                        "allocation failure, stack exhaustion and panics inside dependencies are outside the theorems; the oracle still sees them",
                        "an invocation that exhausts 40 s or 4 GiB is re-run on the same case with files cut to 2000 bytes: only if that also "
                        "fails to terminate is it reported (quadratic cost on 10^5-byte lines is not a crash)",
                        "`--commit`, `test-lock`, `init --global` are not generated (git subprocesses / sleeps / user-global files)"]
    new_sites = inventory_tie(ctx)
    ctx.prove("RModel.Props.C16")
    ok, msg = common.cargo_build()
    if not ok:
        ctx.broke("build", "cargo", msg)
        return
    # the recorded inputs of the nine repaired defects run first, as regression cases: a return of any of them is
    # reported with that concrete input
    if witnesses(ctx):
        return
    if overlap_regression(ctx):
        return
    if capture_regression(ctx):
        return
    if inprocess(ctx, 3000 if ctx.thorough else 600):
        return
    n = 5000 if ctx.thorough else 300
    if cli_stream(ctx, n, "stream"):
        return
    if ctx.broken:
        # a tie or proof broke: widened search for a concrete failing input before reporting no-failing-input-found
        fams = focus_families(new_sites) if new_sites else None
        ctx.count("widened-search", 1)
        if cli_stream(ctx, 3 * n if not ctx.thorough else n, "widened", fams):
            return
        inprocess(ctx, 6000)


def replay(ctx, path):
    obj = json.load(open(path))
    case = obj.get("case")
    if isinstance(case, dict) and "steps" in case:
        ok, msg = common.cargo_build()
        inventory_tie(ctx)          # fills SITE_CLASS (line-level matching of panic locations); the tie itself is not the
        ctx.broken.clear()          # subject of a replay
        results = cli.execute(case)
        for r in results:
            print("step", r["step"], r["argv"][:10], "rc", r["rc"], "->", r["bad"] or "ok", flush=True)
        ctx.case(("replay", path))
        if not examine(ctx, case, results, "replay"):
            slug = obj.get("slug")
            uncovered, seen = verdict(ctx, case, results)
            for s in sorted(seen):
                ctx.known(s)
    else:
        print(json.dumps(obj, indent=1)[:3000])
