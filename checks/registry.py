"""What MANIFEST.json claims, per property (bin/mkmanifest renders it)."""
FIX_COMMITS = []
NOT_YET = {}
# checks that exist but are withdrawn for the moment (reason shown in MANIFEST.not_applicable)
PENDING = {}
TB = ("Trusted: Lean kernel + axioms propext/Classical.choice/Quot.sound (audited per theorem, no native_decide); the "
      "statements in lean/RModel/Props; the hand-written model is tied to /repo by the differential correspondence "
      "(generator quality bounds what it sees) and the translators; ")
CHECKS = {
 "C02": {
  "text": "Theorems over all byte strings / edit lists / rename sets: the back-to-front edit loop equals the left-to-right "
          "specification for every consistent edit list (any number of matches, any lengths, multi-byte text), edits leave "
          "other paths alone, and the re-based rename sequence composes to the per-node final path. The Lean model of "
          "apply_plan (content phase, rename ordering, re-basing, rollback, backup step) is executed against the real "
          "apply_plan on the same generated trees/plans on every run, and CLI plan->apply runs are compared with an "
          "independent reference interpreter of the plan JSON. The whole command is ONE equation on the tree model "
          "(C02ren.apply_exact): success implies tree = moveAll rens (editAll hunks files t) — each planned file's bytes replaced by "
          "applyEdits of its original bytes (= the left-to-right splice for consistent hunks, apply_exact_content), every key "
          "rewritten by finalPath, nothing added, dropped, merged or reordered — with no hypothesis about destinations (the "
          "pre-flight loop is exactly DestFree: destFree_iff_preflight_loop) nor about the plan's files (sortedFiles_nodup).",
  "design_ref": "DESIGN.md section 4, C02",
  "technique": "Lean 4 proof (induction over edit lists / rename lists) + differential correspondence model vs apply_plan + whole-tree oracle",
  "note": TB + "POSIX rename/chmod semantics as written in RModel.Model.Fs (no symlinked directories inside planned paths, "
          "no hard links/ownership); temp-name collisions excluded; durability (fsync) not modelled.",
 },
}
CHECKS["C18"] = {
  "text": "Theorems over all word lists (unbounded length and word size) about the Lean transliteration of the tokenizer, "
          "renderer and detector: parse(render) round-trip, detection of the rendered style, idempotence, injectivity of "
          "renderings and the variant-table law, under an explicit decidable neutrality guard; boundary facts by kernel "
          "evaluation. The transliteration is compared with the real parse_to_tokens/to_style/detect_style on every run "
          "(bounded-exhaustive vocabulary sequences x 14 styles + hostile strings), and the laws are evaluated on the "
          "implementation with an independent reference renderer.",
  "design_ref": "DESIGN.md section 4, C18",
  "technique": "Lean 4 proof (induction over words/bytes with tokenizer loop invariants) + differential correspondence + reference-renderer oracle",
  "note": TB + "acronym table regenerated from acronym.rs each run; pluralizer crate is a parameter of the variant-table theorem; "
          "Unicode case mapping outside ASCII not modelled (tokens are ASCII alphanumerics by construction of the tokenizer).",
}
FIX_COMMITS.append("d4f5d1b fix: replace does not follow symlinks")
FIX_COMMITS.append("90f679f fix: honour .rgignore at the levels where it is documented")
FIX_COMMITS.append("a628576 fix: never scan or rename renamify's own .renamify directory")
FIX_COMMITS.append("9b4e272 fix: replace --quiet suppresses output, not the operation")
FIX_COMMITS.append("07a4584 fix: an undone operation can be redone only once")
FIX_COMMITS.append("c3d511b fix: refuse a plan whose id is already in the history before changing anything")
FIX_COMMITS.append("7e5290d fix: plans with an empty replacement can be loaded again")
FIX_COMMITS.append("d23f7ff fix: undo renames directories back shallowest first")
FIX_COMMITS.append("36a47de fix: rewrite only the header lines of reverse patches")
FIX_COMMITS.append("be80595 fix: locate edited files under nested renamed directories when writing undo patches")
FIX_COMMITS.append("6d172b3 fix: refuse to apply when a rename destination already exists")
CHECKS["C05"] = {
  "text": "Theorems for all trees and plans: any planned destination that already exists makes the whole apply refuse before "
          "anything changes (occupied_refused); a rename onto a free destination keeps every node and so does the whole "
          "rename phase along any execution with free destinations; a successful rename onto an occupied path always loses a "
          "node (why the pre-flight is needed). The model (pre-flight, rename(2) errno cases, rollback) is run against the "
          "real apply_plan on occupied/chain trees and the CLI is checked with a content-multiset oracle.",
  "design_ref": "DESIGN.md section 4, C05",
  "technique": "Lean 4 proof (case analysis on rename(2) + induction over the rename list) + differential correspondence + CLI multiset oracle",
  "note": TB + "POSIX rename semantics per RModel.Model.Fs; case-insensitive filesystems (destination differing only by case) "
          "are not modelled: the same-file exception of the pre-flight is only exercised on a case-sensitive filesystem.",
}
CHECKS["C17"] = {
  "text": "Theorems over all schemas and all values of a schema-driven model of serde derive (skip_serializing_if, default, "
          "default = fn, implicit None of Option, rename/rename_all, unit enums, maps, tuples, nested structs, "
          "deny_unknown_fields): load(save(v)) = v iff wherever a field of v is skipped on writing its missing-key rule returns "
          "exactly that value; a decidable schema check (SchemaOk) is sufficient for every value and exact for the generated "
          "Plan schema (C17_full_iff). The schema is regenerated from the #[serde] attributes of Plan, MatchHunk, Rename, "
          "Stats, RenameKind, Style, HistoryEntry on every run and its verdict is re-decided by the kernel; with the repo fix "
          "7e5290d the verdict is true and plan_roundtrip holds for every plan. Model compared with real serde_json on "
          "generated Plan/HistoryEntry values built field by field; CLI: plan -> apply <saved file> vs rename -y, undo/redo "
          "of the stored copy. Loaders: the translator lists every site that parses a Plan/History from disk and every rejection depending on the parsed value (Gen.loaderSites / loaderConditions); plan_load_roundtrip_all holds because there is none (loadersPlain_is_true) and stops compiling when one appears; the CLI load matrix reads what plan / rename / replace wrote back through status, apply <file>, default apply, history, undo, redo.",
  "design_ref": "DESIGN.md section 4, C17",
  "technique": "Lean 4 proof (mutual structural induction over a nested schema type) + generated schema + differential correspondence with serde_json + CLI save/load oracle",
  "note": TB + "serde_json string escaping/number formatting (documents compared after decoding); serde derive semantics for the "
          "attribute kinds that occur (any other attribute makes the translator fail loudly); non-UTF-8 paths are refused by the "
          "serialiser (guard clause, probed on the CLI); HashMap key order ignored; 'reloaded plan => same apply effect' is "
          "congruence plus the CLI tree comparison. Loader analysis is syntactic (`if … return Err / bail! / ensure!` mentioning the loaded variable or a `let` derived from it, in the parsing function and in the callers of a loader helper); a condition hidden behind further indirection is left to the CLI matrix; `apply <id>` of a stored copy is not exercised on the CLI (refused by design once the id is in history).",
}
CHECKS["C09"] = {
  "text": "Theorems over the walker configuration, file tests, binary flag, glob rule and sniff tables REGENERATED from "
          "lib.rs/scanner.rs/content_inspector on every run, for every level (0-3, higher, legacy flag), every path of any depth, "
          "every ignore oracle and glob set: a `.git` or `.renamify` component, an honoured ignore file matching the entry or an "
          "ancestor, an exclude glob (with build_globset's directory rule), a missing include match, a NUL byte in the first 1024 "
          "bytes below level 3, a symlink or an ancestor symlink put the entry out of scope of all planners; the 16 ignore-file x "
          "level cells equal the table regenerated from filtering.mdx/README.md; excluded matches and lines produce no hunk; "
          "apply changes no path that the plan does not name (frame theorem over the apply model, any outcome). The model is "
          "compared with the real configure_walker / scan_repository / create_simple_plan / build_globset / binary sniff on "
          "generated trees on every run, and CLI plan+apply runs are judged by an independent re-implementation of the "
          "documented table.",
  "design_ref": "DESIGN.md section 4, C09",
  "technique": "Lean 4 proof (decide over generated tables lifted by induction over paths; frame induction over apply) + translator + differential correspondence + documented-table oracle on CLI plan/apply",
  "note": TB + "gitignore pattern matching (ignore crate) and glob matching (globset) are parameters of the theorems; the driver "
          "instantiates them with a small gitignore matcher (no `!` patterns, no global gitignore) and a Lean transliteration of "
          "globset for literals, ?, *, **; apply's frame theorem is about Model/Apply.lean, tied to apply.rs by C02's correspondence.",
}
CHECKS["C20"] = {
  "text": "Lean model of clap's parser (Cli.accepts) over the grammar regenerated from args.rs/types.rs and of every argv builder "
          "of renamify-mcp and renamify-vscode (regenerated from the TypeScript). Kernel-proved (decide +kernel): outside the "
          "finite guard knownBad every command line is accepted with the intended meaning, and inside it none is, on the whole "
          "enumerated space of the 14 small builders and on the core part (each field alone with every representative, hostile "
          "values, knownBad combinations, maximal good combinations) of the 6 large ones; one witness theorem per finding. The "
          "full enumeration (all subsets of optional fields x value profiles, ~4e4 argvs) is executed exhaustively on every run: "
          "real Cli::try_parse_from vs the model, the real TypeScript under node vs the extracted builders, and an independent "
          "acceptance+meaning oracle on the real parser's answer.",
  "design_ref": "DESIGN.md section 4, C20",
  "technique": "Lean 4 kernel-evaluated decision table + translators (clap derive, TS builders) + exhaustive differential vs real clap and node + random/mutated argv stream",
  "note": TB + "clap semantics as written in RModel.Model.Cli (feature subset listed there; env vars unset); C20_guarded over the "
          "whole space is executed, not proved (open statement: segment independence of Cli.run); representative values stand for "
          "their class.",
}
CHECKS["C08"] = {
  "text": "Theorems for all entry lists / trees, variant maps and flag sets about the Lean transliteration of the rename planner "
          "(first contained key in BTreeMap order, str::replace, file-name coercion, with_file_name, flag and root filters, both "
          "conflict kinds, refusal): exactly one rename per eligible name and none otherwise, only the last component changes, "
          "distinct sources, an accepted plan has pairwise distinct destinations (a shared or Windows-reserved destination refuses "
          "the plan), same-style new name for a single occurrence, and the accepted plan satisfies every guard of the C02ren "
          "rename-phase theorem, so after apply each node sits at finalPath and nothing else moved. The model is run against the "
          "real plan_renames_with_search / plan_renames_with_conflicts / scan_repository_multi on generated trees on every run; an "
          "independent by-construction oracle judges the plans and the on-disk result of `rename -y`.",
  "design_ref": "DESIGN.md section 4, C08",
  "technique": "Lean 4 proof (list induction; composition with C02ren.renamePhase_ok) + generated tables + differential correspondence + by-construction oracle + CLI end-to-end",
  "note": TB + "walker scope is a parameter (C09); variant map is a parameter taken from the real generate_variant_map per case (C18); "
          "coercion enters the general theorems through the contract CoerceSafe (result is a usable file name), checked differentially "
          "and by kernel-evaluated instances; ASCII names where the term occurs; case-sensitive filesystem only; the composition "
          "theorem holds for any list of search roots (nested and repeated included; no root with a `.git` component; without `--rename-root`).",
}
CHECKS["C12"] = {
  "text": "Theorems over ALL schedules (induction over the schedule via an inductive invariant, any number N of processes): in the "
          "Lean transition system of lock.rs (one transition = one system call of one process: exists, open, read, the "
          "clock/kill(pid,0) decision, unlink, mkdir, hard_link publish (or create_new + write), work, Drop's content check + "
          "unlink, Ctrl-C at the confirmation prompt, exit; inode identity, seconds clock, pid liveness; the variant of "
          "acquire/drop is a set of state flags regenerated from the source) at most one process owns the lock, an owner's file "
          "is never unlinked by another process, a failed acquire never enters and the file is gone when nobody owns it - from "
          "'no lock file' and from 'held by a live scheduled process', while nobody is older than 300 s and either terminated "
          "processes linger or N <= 2 (mutex_absent_source, mutex_live_holder_source: for the unguarded acquire the source "
          "has; for the guarded shape of lock.rs - flock on .renamify around acquire's and release's inspect-then-change "
          "sequences, modelled as a kernel mutex, plus 'a live holder is never stale' - mutex_guarded_* / "
          "mutex_source_guarded hold from EVERY initial lock-file state with no hypothesis on clock, N or exits; "
          "side condition 'unparsable files are removed only if the lock file is published complete' proved for the "
          "source). Each hypothesis is shown necessary by a kernel-evaluated witness schedule (orphan/stale/unparsable "
          "check-then-unlink race, 3-process exit race, holder older than 300 s evicted; the repaired defects - empty-window "
          "race of 9509d2d, Drop removing a foreign lock, malformed file blocking, future timestamp - are kept as theorems "
          "about the old variants); the full statement C12_full is refuted. A generated table (call graph of "
          "LockFile::acquire per CLI command, fingerprints of acquire/drop/release_held_locks, timeout, decision chain, "
          "publish/abandon/drop-check/saturating/guard/liveness-first/lossy-read flags) ties the model to the source: every mutating command locks "
          "(all_mutators_lock), dry runs do not. On every run: real LockFile::acquire in-process on an exhaustive grid of "
          "injected lock files vs the model; every mutating CLI command under a held lock, dry runs under a held lock, "
          "release after normal/error/SIGINT/SIGTERM exit and after Ctrl-C at the prompt (pty); model-enumerated "
          "interleavings of the system calls of 2-3 real renamify processes driven by the LD_PRELOAD scheduler (quick: all "
          "from absent + witnesses + samples; thorough: all interleavings from each initial state), outcome / lock content / "
          "simultaneous holders compared with the model.",
  "design_ref": "DESIGN.md section 4, C12",
  "technique": "Lean 4 proof (inductive invariant of a transition system, all schedules, any N) + kernel-evaluated witness schedules "
               "+ generated lock-user table and source-variant flags + differential correspondence (in-process and scheduled "
               "real processes) + CLI oracle",
  "note": TB + "POSIX semantics of stat/open/read/unlink/link/open(O_CREAT|O_EXCL)/write on a local file system, each call atomic; "
          "kill(pid,0)==0 iff alive (no pid reuse, same user); one short write is atomic; wall clock monotone inside the "
          "300 s window of the mutex theorems; Drop's open+read of the content check is one model step; write failures and "
          "HELD_LOCKS.try_lock contention are not modelled; Unicode white space other than ASCII in the lock file is not "
          "modelled; NFS, file systems without hard links, Windows (OpenProcess) and signal delivery inside acquire are "
          "outside the model; the call-graph translator is name-based (over-approximates 'reaches acquire').",
}
CHECKS["C19"] = {
  "text": "Finite decision table proved by kernel evaluation: for every command x {--output json, summary} x --quiet x --dry-run x -y x "
          "--preview x scenario x failing site, the stdout emissions, the JSON shape of the emitted document, its membership in the "
          "TypeScript type the wrappers declare, and the exit status; the table (per-handler emission sites with their guards, "
          "format_json documents, serde shapes, exit-code mapping, bindings, wrapper expectations) is regenerated from the Rust and "
          "TypeScript sources on every run. One theorem per clause under an explicit guard plus a witness theorem per known defect. "
          "Every cell of a CLI grid (commands x scenario classes x error kinds x options x first-run) is run on the real binary and "
          "judged independently (exactly one JSON value, validation against the parsed .d.ts, effect-based success), and compared "
          "with the model's prediction for that row.",
  "design_ref": "DESIGN.md section 4, C19",
  "technique": "Lean 4 proof (finite table, decide +kernel) over generated tables + exhaustive CLI grid oracle + model/CLI correspondence",
  "note": TB + "the ts-rs declarations are regenerated from the current Rust source on every run (TS_RS_EXPORT_DIR into .cache, "
          "`cargo test -p renamify-core --lib export_bindings_`; renamify-core/bindings/ is never read); "
          "extraction is syntactic (mini Rust/TS parsers in translate/_rs.py, bindings.py, output_shapes.py): guard texts are mapped "
          "to model atoms by a fixed dictionary and an unknown construct makes the translator fail; an operation returning Ok is "
          "assumed to have had its effect (checked per grid cell from the tree/history); stdout is a pipe and stdin /dev/null in every "
          "row (the prompt sites inside rename_operation are pinned by a theorem, not exercised); serde_json string escaping trusted.",
}
CHECKS["C01"] = {
  "text": "Theorems for all trees / plans / patch texts / path strings: replace_patch_headers changes only the two header "
          "lines (any body bytes kept) and writes names diffy's parse_filename reads back unchanged for EVERY path (quotes, "
          "backslashes, TAB, CR, LF); parsing the rewritten text gives the same patch with the two paths as names whenever "
          "diffy parses its own output; the undo rename sequence (directories shallowest first, files, lstat guards, "
          "adjustment loop) inverts the rename phase at any nesting depth, renamed symlinks included; content restoration "
          "under the diff contract; undo(apply(plan, t)) = t literally (paths, bytes, modes, link targets) for every tree and "
          "every plan the planner can emit, parametric in diffy's create_patch/apply. Kernel-evaluated witnesses about the "
          "explicitly old-style functions for the four repaired defects. The Lean models of generate_reverse_patches, "
          "undo_renaming, diffy's formatter/parser/apply and the header rewriting run against the real code on every run "
          "(patch text, stored patch files and their header names, apply+undo on generated trees), and the CLI (rename / "
          "plan+apply / replace, undo latest / id, undo-redo-undo, a non-root run) is checked with a whole-tree snapshot oracle "
          "under umask 022.",
  "design_ref": "DESIGN.md section 4, C01",
  "technique": "Lean 4 proof (path algebra over the rename map, induction over the undo loops, tree extensionality, parser "
               "lemmas for the quoted header) + differential correspondence (patch text, stored patches, apply+undo) + CLI "
               "snapshot oracle",
  "note": TB + "diffy: apply(create_patch(a,b),a)=b, apply ignores header names, create_patch uses the generic header and "
          "from_str(to_string(p))=p are hypotheses (Contract), exercised on every generated pair and compared with the Lean "
          "parser/formatter model; Myers diff itself is not modelled. The clause filesDistinct of G01 (keys of a BTreeMap are "
          "distinct) is assumed, not proved. POSIX rename semantics per RModel.Model.Fs; no symlinked directories inside "
          "planned paths; permissions of the invoking user (read-only directories) and temp-name collisions "
          "(<stem>.<pid>.renamify.tmp) are outside the tree model; history/plan storage is C10/C17's subject.",
}
CHECKS["C07"] = {
  "text": "Theorems over all word lists about the Lean transliteration of find_compound_variants (with the re-join guard "
          "untouched_text_survives_rejoin of commit 70a22d6) / is_boundary / find_enhanced_matches: an identifier = (nothing|_|__) + "
          "rendering of any word list in snake/kebab/SCREAMING_SNAKE/Train-Case/PascalCase that contains the search words is "
          "rewritten to the same rendering with exactly the occurrences of the search words replaced (prefix words + TERM + suffix "
          "words -> prefix words + REPLACEMENT + suffix words when the term occurs once); C07_full_holds: for snake identifiers with "
          "ANY number of underscores between prefix words, term and suffix words every compound answer reproduces the text outside "
          "the term byte for byte, because irregular multiplicities get no compound answer (snake_irregular_none) and are left to "
          "the exact pass, whose hits are byte for byte a rendering of the term at the reported span (exact_hit_is_a_variant); every "
          "compound answer passed the guard's token walk; every match of the line matcher is a boundary-checked variant hit or a "
          "compound answer on an identifier whose tokens contain the search tokens as a contiguous window; identifiers whose word "
          "list lacks that window get no compound match and exact hits glued to a letter/digit are rejected. The three defects "
          "found on the pinned tree are kept as kernel-evaluated before-fix witnesses on the guard-less function and as positive "
          "in-place theorems on the current one. The model is run against the real functions on the exhaustive by-construction "
          "identifier family, dotted paths of 2..4 segments whose segments start / end with '-' or '_' and mix separator kinds, the "
          "near-miss family (letters and digits glued to the term), the corpus of repaired inputs, random and hostile inputs; an independent "
          "by-construction oracle judges find_compound_variants, find_enhanced_matches, scan_repository+apply_plan and the CLI, and "
          "names the repaired class if an old behaviour returns.",
  "design_ref": "DESIGN.md section 4, C07",
  "technique": "generated flag for the extractor's dot splitting (translate/extractor_shape.py; both shapes modelled, witness on the "
               "untrimmed one, in-place theorem on the trimmed one) + Lean 4 proof (induction over token lists and over the guard's token walk, on top of the C18 tokenizer lemmas) + kernel-evaluated witnesses + differential correspondence + by-construction locality oracle (in-process and CLI)",
  "note": TB + "camelCase locality, kebab/train/dot multiplicities, the hump+underscore shapes and the Title/dot paths are covered by "
          "kernel-evaluated examples and the differential check only; identifier regex modelled for ASCII content; the enhanced op "
          "uses the style rows of the variant table (plural / as-typed rows only end-to-end); the rendering chosen for the "
          "replacement inside the term's span is C06's concern (recorded as local_other_rendering).",
}
CHECKS["C10"] = {
  "text": "Theorems for every command list and every clock schedule over a Lean model of history.rs/undo.rs/id_resolver.rs and the "
          "head and tail of apply_plan (any tree side): entries are only ever appended (prefix property), exactly one entry with "
          "an id not yet present per successful command, a rejected command changes nothing, a rename/redo whose id is already "
          "present changes nothing, a redo succeeds at most once per id, an undo or redo that does not succeed changes nothing "
          "(after any command sequence), the implementation's eligibility scans imply the abstract applied/undone status; "
          "refinement to an abstract history under the explicit guard G10 (no partial apply of a rename, undo/redo in place); "
          "the six repaired defects as theorems about the code before each repair next to what the same sequence does now. "
          "The model is compared step by step (exit class, history shape, whole tree) with the real CLI on exhaustively "
          "enumerated command sequences, same-second undo/redo bursts by `latest` and by id, and random sequences, on flat workspaces and on a workspace whose operation renames a directory holding an edited file, all run under "
          "an LD_PRELOAD fake clock, and an independent runner-side abstract history judges every step.",
  "design_ref": "DESIGN.md section 4, C10",
  "technique": "Lean 4 proof (induction over command lists, invariant-based refinement) + CLI sequence correspondence under a fake clock + abstract-history oracle",
  "note": TB + "tree side of the refinement theorem is a parameter with the undo round-trip law as hypothesis (proved for the flat-file "
          "instance used by the driver); plan-id hash modelled as injective on (concatenated terms, second); path renames, --commit, "
          "unparsable history.json (C11) and the lock (C12) not modelled; the shape of the code (early id check, redo-once, undo/redo "
          "pre-validation, plan stored before the history entry, what the revert id is built on) is read from apply.rs/undo.rs by "
          "translate/history_flags.py into Gen/HistoryFlags.lean, the executable model follows it and `current_shape` pins it; "
          "workspaces git-ignore .renamify (C09's finding kept out); the driver has two tree sides (flat files; top-level directory renames - round-trip law of the second not proved, compared with the CLI only).",
}
CHECKS["C04"] = {
  "text": "Operation-level Lean model of rename/apply/redo/replace/undo (RModel/Model/Exec.lean): every mutating libc call goes through "
          "doOp, which counts, logs and consults the injection spec; the code idioms that decide failure behaviour (in-place vs temp+rename "
          "History::save, empty-lock handling, temp-file cleanup, undo via temp) are read from the source on every run by "
          "translate/execflags.py and select the model variant. Theorems for all plans/trees and EVERY fault index k and errno (the state "
          "incl. injection spec is universally quantified; proofs are structural inductions over the programs): fault-free content and "
          "rename phases compute exactly Apply.applyPlan's phases (success_complete, guard G04), the history bytes parse back to the earlier "
          "entries plus one, an error injected at any call of the two tree phases is never swallowed (failure_reports_failure_partial), a stale "
          "first file / occupied destination changes nothing. C04_full is false: kernel-evaluated witnesses for the 8 listed findings plus the "
          "stale-plan panic. Tie: the real binary runs under shim/fsshim.c; its abstracted syscall trace must equal the model's op list, then "
          "EVERY mutating call of the real trace fails once (EIO; thorough +ENOSPC, EACCES: ~4000 runs) and exit class, user tree, history, "
          "lock, stored plan and the whole error-path trace are compared with the model's prediction for the same k; six stale-plan "
          "perturbations likewise. Oracle independent of the model: exit!=0 => tree and history unchanged; exit 0 => reference "
          "interpretation of the plan + exactly one new entry + stored plan; every failure must match a listed finding by shape AND window.",
  "design_ref": "DESIGN.md section 4, C04",
  "technique": "Lean 4 proof (program logic over a step-machine model, all k) + source-derived flags + trace correspondence + exhaustive single-fault injection via LD_PRELOAD + snapshot oracle",
  "note": TB + "POSIX semantics of the mutating calls as written in RModel.Model.Exec.execOp; single failures only; history.json < 8 KiB "
          "(one write(2)); case-only renames, --commit and durability not modelled; success_complete is proved for the two tree phases "
          "under G04 (unique keys, temp names unused, destinations free along the execution) and shown for the whole command by kernel "
          "evaluation and by the differential check; rollback_restores_paths is shown by kernel-evaluated instances (non-nested restores, "
          "nested fails) and differentially, not as a general theorem; failure_reports_failure is proved for the content and rename phases, "
          "the remaining call sites (directories, patches, history, stored plan) are covered by the per-k comparison with the real binary.",
}
CHECKS["C11"] = {
  "text": "Same operation-level model with crashBefore/crashAfter/crashMid k. Theorems for all plans/trees and EVERY crash prefix (and every "
          "injected error): during the content phase every file is whole and the history untouched (content_edit_atomic, "
          "crash_prefix_partial_content), during the rename phase incl. rollback no node is altered (rename_phase_crash_ok), the in-place "
          "History::save leaves the file in exactly four states of which only the two between open(O_TRUNC) and the end of the write do not "
          "parse (history_window_exact), outside that window the history parses and keeps earlier entries, and the temp+rename variant has no "
          "window at all (history_atomic_no_window). C11_full is false: witnesses history_trunc, lock_empty (undo_inplace: fixed by 851189b). "
          "Tie: SIGKILL before and after every mutating call of the real trace of rename/apply/undo/redo/replace and in the middle of every "
          "write (thorough: 17 scenarios, ~3800 kills); state after the kill vs model prediction for the same k. Oracle: Usable evaluated in "
          "Python (files whole at old/new path components, none lost, history parses and retains the setup's earlier entry) plus follow-up "
          "plan --dry-run, plan, rename -y on the leftover state.",
  "design_ref": "DESIGN.md section 4, C11",
  "technique": "Lean 4 proof (crash-prefix invariants by induction over the program, all k and modes) + source-derived flags + exhaustive kill injection via LD_PRELOAD + usability oracle with follow-up commands",
  "note": TB + "a crash is a process kill (no power loss, fsync not modelled); a killed write(2) leaves a prefix; the diffy round trip is a "
          "hypothesis of the undo program; path placement during the rename phase (old/new component mix) is checked by the oracle and by "
          "C02ren's composition theorems, the crash theorem itself speaks about node contents and modes; lock usability is covered by "
          "witness and differential check, not by a general theorem.",
}

CHECKS["C16"] = {
  "text": "Theorems for all inputs about the index/slice/arithmetic model of the data-dependent panic sites, stated about the code "
          "AS THE SOURCE HAS IT NOW: a translator extracts, per formerly panicking site, whether the repaired shape (`.get(..)`, "
          "`saturating_sub`, the empty-variant skip, the empty-pattern rejection, the ASCII guard, ...) is present "
          "(Gen.PanicGuards) and the model selects the checked or the old function accordingly. Proved (C16_full_holds): the "
          "variant map has no empty key, so every regex match is non-empty and is_boundary (exact panic condition proved) is safe; "
          "line_after, the resolver prefix, the diff/colour renderers slice safely for every line and column; "
          "replace_case_insensitive terminates without panic for every lower-casing, text and pattern; apply never panics for any "
          "content and edit list (stale, overlapping, out of range); lock age, the upper-case run check, the literal search loop, "
          "the JSON plan value, the `$N` capture-group expansion of `replace` and the acronym trie walk are total; the tokenizer's index arithmetic stays in range; the exit-status "
          "table of main.rs stays within {0,1,2,3,130}. The shapes before the nine fix commits are kept as `...Old` with "
          "kernel-evaluated before-fix witnesses. Every potentially panicking site of the non-test code (clippy inventory, "
          "regenerated each run) must be classified; panic/no-panic of the real functions is compared with the model in-process; "
          "the recorded inputs of the repaired defects and a fixed set of hand-edited plans with overlapping-but-different hunks (nested, straddling, same start/end, enclosing, adjacent, reversed, same range with another replacement) and fixed `replace` cases with optional / alternation / named / never-matching capture groups and `$N ${name} $$` replacements run first as regression cases; the inventory also lists `base[index]` expressions clippy does not report (Index impls on non-slice types such as regex::Captures, and code compiled out by cfg); an in-process disagreement is replayed through the CLI at once (tree + plan.json / arguments) so that a concrete failing command line is reported; a CLI stream of hostile trees, names, "
          "terms, option sets, stale plans and workspace state checks status, stderr and termination - any panic, signal, "
          "undocumented status or non-termination is a violation with the case as replay.",
  "design_ref": "DESIGN.md section 4, C16",
  "technique": "Lean 4 proof (totality with explicit Panic outcomes, model follows the source through generated guard flags) + clippy site inventory x committed classification + differential panic/no-panic correspondence + CLI oracle",
  "note": TB + "38 inventoried sites are reviewed-as-unclassified (counted in the evidence; one of them, compound_matcher.rs untouched_text_survives_rejoin, is a latent slice that panics in-process on identifiers the extractor does not produce and is watched by the panic_compound op); allocation failure, stack depth, panics inside "
          "dependencies and quadratic cost on very long lines are outside the theorems (the oracle still observes them; an invocation "
          "that exhausts 40 s / 4 GiB is retried on a cut-down copy to separate cost from non-termination); Unicode lower-casing is an "
          "arbitrary function in the model; the regex contract (a match is an occurrence of one alternative) and two facts about "
          "Rust `str` (a String found in a str ends on a character boundary; a continuation byte never follows an ASCII byte) are "
          "explicit hypotheses; clap's own exits (2 on usage errors) are observed, not modelled.",
}
CHECKS["C06"] = {
  "text": "Theorems over all word lists, all neutral delimiter strings and all style-option sets about a Lean model of the one-line "
          "pipeline (build_styles_list, the scanner's VariantMap and its get, leftmost-first alternation over the keys ordered as "
          "build_pattern orders them, is_boundary, the replacement decision of generate_hunks: map entry | ambiguity branch | coercion | "
          "first-letter fix-up, edit application): an occurrence d1 + render(st, search words) + d2 of a term of two or more words in ANY of "
          "the twelve boundary-visible styles, when st is enabled, is rewritten to d1 + render(st, replacement words) + d2 "
          "(same_style_partial, composed from: no key starts inside a delimiter, the alternation picks exactly the occurrence, the boundary "
          "test holds, the key is unambiguous by the generated Style::constraints table for every style of V12 (unambiguous_styles_all), "
          "the immediate identifier context is the match so coercion returns None, the fix-up is a no-op for same-style pairs), under a "
          "decidable guard (non-empty style list, exact pass not skipped, plural variants off); Sentence-case occurrences are rewritten in "
          "Sentence case (sentence_rewritten_in_sentence_case; the pre-70c1048 shared Title/Sentence row is kept as a before-fix theorem on "
          "the explicitly old row); a line in which no key occurs is left untouched (disabled styles); for ambiguous occurrences the "
          "resolver's choice is a member of filter_compatible_styles(match) whatever the context heuristics answer, and EVERY compatible "
          "style preserves the first-letter case and all-caps-ness of the match (finite style x constraint-class check against the "
          "generated table, lifted to all texts). The full-strength statement is refuted by one kernel-evaluated witness per listed finding. "
          "The model is run against the real plan_operation (real build_styles_list) + apply_plan on every generated one-line file; an "
          "independent reference renderer judges 12 styles x 11 delimiter contexts x 30 option sets x term/input-style combinations "
          "exhaustively, the CLI rename path on a sample. Since the composed model (WP-LINE): the coercion decision and the compound pass are no longer parameters — same_style_real / same_style_composed / same_style_validated are stated for the environment built from the models of coercion.rs and compound_scanner.rs / compound_matcher.rs (envReal_coerceOk, envReal_compound_nil), on the validated delimiter alphabet NeutralText (ASCII neutral bytes + listed non-ASCII punctuation; the byte-level model and the code part for a non-ASCII LETTER next to the occurrence: model_is_byte_level_outside_the_validated_domain), and the busy-lines family (several occurrences, embedded identifiers, coercion contexts) is compared line by line. Since WP-RESOLVER the resolver's context heuristics are in the model too (12 language modules parsed from the source into decision trees, file-context level; cross-file level proved unreachable): heurReal_ok, ambiguous_keeps_case_real — clause 3 without any contract hypothesis; the one-line pipeline has no parameter left.",
  "design_ref": "DESIGN.md section 4, C06",
  "technique": "Lean 4 proof (table-driven profile argument over the regenerated Style::constraints table + matcher / map / boundary lemmas "
               "composed into the one-line theorem) + kernel-evaluated witnesses + differential correspondence (rewriteline, filtercompat, "
               "resolve, stylelist) + independent reference-renderer oracle (in-process and CLI)",
  "note": TB + "apply_coercion beyond its first exit (context = match), the resolver's language/file/cross-file heuristics and the compound "
          "pass are parameters of the model with explicit contracts (any generated line on which they act shows up as a "
          "model/implementation difference); the pluralizer crate's answers are fed to the model as data and the composed theorem is "
          "stated for --no-plural-variants; 'no enabled rendering occurs inside an occurrence in a disabled style' is a decidable "
          "hypothesis of disabled_untouched exercised by the oracle; ASCII only; a single-line .txt file (no language heuristic, fewer "
          "than 50 identifiers); two behavioural switches of the model (all-excluded selection -> empty list, single-word skip uses the "
          "tokenizer) are regenerated from the source so that the proposed repairs seeded/_fixes/c06_*.diff are followed automatically.",
}

CHECKS["C13"] = {
  "text": "Theorems over the process-level model of main(): for ANY set of signal delivery points (any positions, any repetition, "
          "SIGINT or SIGTERM) a command without guarded confirmation prompt performs exactly the effects of its signal-free run, no "
          "handler exits, and the exit status is 130 iff a handler ran and the command succeeded (a command that fails by itself "
          "reports its own status); an exit during rename's confirmation prompt has performed only the pre-prompt steps and then "
          "released the held locks; the full property (C13_full_holds) is proved for every command of the existing shapes. What the "
          "handlers do, where the flag is tested, the exit code and the lock release are regenerated from main.rs/interrupt.rs/lock.rs "
          "on every run and pinned by named theorems. The real binary is run with SIGINT/SIGTERM (once and three times) raised "
          "immediately before each mutating call of rename, apply, undo, redo and replace on a scenario family, with an independent "
          "oracle (tree in {before, complete}, history entry iff complete, lock released, status), rename's and replace's prompts "
          "through a pty (signal at the prompt, and — prompt answered y — raised before every mutating call of the apply phase "
          "that follows it), every mutating command (and the lock holder test-lock) with stderr / stdout connected to a full pipe "
          "and the signal delivered while the process is blocked in the write, and a self-failing command plus signal. The "
          "closure registered in real signal context (signal_hook::low_level::register) is extracted and must consist of atomic "
          "stores only (signal_context_handlers_async_signal_safe). The three behaviours repaired by d01db83 / 279b830 are violations "
          "if they return.",
  "design_ref": "DESIGN.md section 4, C13",
  "technique": "Lean 4 proof (induction over runs = programs with interleaved signal events) + generated handler facts + "
               "signal injection before every mutating call (shim) + pty + trace/model correspondence",
  "note": TB + "signals are raised inside the shim by kill(getpid()) on the calling thread: delivery to other threads, EINTR inside "
          "std and the async-signal-unsafe eprintln! in the SIGTERM handler are not explored; the SIGINT handler body runs on "
          "ctrlc's helper thread, so a run that ends before that thread is scheduled exits 0 with the complete result (accepted as "
          "'already finished'); SIGTERM at rename's prompt and either signal at replace's unguarded prompt are honoured only once "
          "the prompt is answered (stated as theorems, exercised through the pty); the world of the model is the sequence of traced "
          "calls, the content of the tree is C02's subject; what a command that fails by itself leaves behind is C04's.",
}
CHECKS["C14"] = {
  "text": "Theorems: for EVERY permutation of the scanned file list the sorted match list of the plan is the same list (insertion "
          "sort on a total preorder + uniqueness of the key (file, line, byte_offset)), and the stats / matches_by_variant are "
          "permutation invariant; the effect programs of plan / search / --dry-run, generated from the dry_run gates extracted "
          "from the source, leave every user path unchanged, write only permitted paths (plan file, transient lock and probe "
          "directory, one-time ignore-file line) and every dry run of every command (plan, search, rename, replace) leaves the whole "
          "tree identical (readonly_full, C14_full_holds). On the real binary every run is traced by the shim: written paths are "
          "checked against the permitted set, the whole tree is snapshotted before/after, and plan JSON and the "
          "table/diff/matches/summary previews are compared across RAYON_NUM_THREADS 1..16 and repeats on generated trees of 1..40 "
          "entries, and on a family of confusable files (groups of 2..6 files >= 4 KiB with equal length, equal first/last 2 KiB, "
          "equal mtime, same names in different directories, identical copies and one-byte variants, whose dominant identifier "
          "styles differ) where every multi-thread plan is compared with the 1-thread plan and, per file, with the plan of that "
          "file alone; `plan` with 2..5 explicit, permuted, nested, repeated and overlapping search roots is compared as a full "
          "document including the ORDER of `paths` across >= 6 separate processes per thread count. For the rename list the "
          "theorems state what can hold: its comparator ties on equal-depth directories (rename_order_ties), ties keep walk order "
          "(stable sort), files are sorted by path, the cross-root de-duplication never reorders, and the generated facts pin that "
          "the list never passes through a hash container. The lock / .renamify write of rename --dry-run repaired by 055e350 is a violation if it returns.",
  "design_ref": "DESIGN.md section 4, C14",
  "technique": "Lean 4 proof (permutation invariance of sorting; frame reasoning over effect lists) + generated gate/shape tables + "
               "written-path log and snapshots under the shim + cross-thread-count differential",
  "note": TB + "rayon's order-preserving collect and the stability of readdir order are library/OS contracts (the sort key and the "
          "ordered collect are pinned syntactically by Gen/ScanShape); PathBuf ordering being a total order and the key being "
          "unique per hunk are hypotheses of order_independent (the latter is C03's sort_key_unique); git subprocesses of auto-init "
          "are not traced; only the cwd-rooted invocation is explored (no multiple roots); the per-file-in-isolation oracle is applied "
          "only to the confusable family, whose ambiguous hits stand at line starts so that ambiguity/cross_file_context.rs (which "
          "legitimately depends on the other files) cannot contribute.",
}

CHECKS["C03"] = {
  "text": "Theorems for all byte strings and all non-empty variant lists about the Lean transliteration of pattern.rs "
          "(alternation ordered by escaped length, leftmost-first scan, is_boundary byte for byte, line/column, identify_variant): "
          "every match is non-empty, in range, its span holds exactly a variant (= recorded text and variant), matches are "
          "ascending and pairwise disjoint, line = 1 + newlines before, column = distance from the last newline, spans lie on "
          "character boundaries (valid UTF-8 content, ASCII variants), the matches satisfy the guard of the apply loop "
          "(Edits.Consistent, hence apply = left-to-right splice: link to C02), leftmost-first over escaped-length order IS "
          "leftmost-longest (unconditionally), (line, column) identifies a match, the line-th element of lines_with_terminator is "
          "the line containing the match, counters add up. Literal planner (process_file_content): every hunk's text stands at "
          "its recorded offsets in the (lossily decoded) file — selected by a flag regenerated from scanner.rs (true since d278bf5; "
          "the line-1-only theorem and the kernel-evaluated before-fix witness remain). Several search roots: with the "
          "de-duplication by real location (4d2e5a7) every reached file is planned once and (file, line, column) identifies a hunk "
          "of the whole plan. Every run compares the model with the real build_pattern/find_matches/is_boundary/create_simple_plan "
          "and recomputes line_before/line_after/char_offset/byte_offset of every hunk of real plans in the model; an independent "
          "oracle checks every field of every hunk of plan / rename --dry-run / search / replace (literal, regex) plans against the "
          "bytes on disk (text at offsets, order, disjointness, boundaries, line, column, char_offset, line context, counts) over "
          "style/acronym/plural/atomic/exclude options and default/one/file/several/nested/repeated roots.",
  "design_ref": "DESIGN.md section 4, C03",
  "technique": "Lean 4 proof (induction over the leftmost-first scan, line lists and edit lists; UTF-8 step analysis) + translator "
               "(replace offsets flag) + differential correspondence (matcher, literal planner, hunk geometry of real plans) + "
               "plan-vs-file-bytes oracle on all planner entry points",
  "note": TB + "regex / aho-corasick leftmost-first semantics as written in RModel.Model.Matcher (compared on every run; empty "
          "variants excluded, the variant table has none); user regexes of `replace` and the compound matcher are not modelled "
          "(their plans are judged by the oracle and the geometry recomputation only); the boundary theorem is proved for ASCII "
          "variants; the multi-root theorem takes the walker's entry list and canonical locations as given (C09); the line-context "
          "theorems (line_geometry, C15) need the line to be valid UTF-8 up to the match — on other lines the raw column is "
          "applied to the lossily decoded line (finding invalid_utf8_line_context, reproduced by the model; before ac203f2 a "
          "panic, kept as hunkGeomAtOld); checked-vs-unchecked slicing is tied to the code by the hostile-plan correspondence, "
          "not by a generated flag.",
}
CHECKS["C15"] = {
  "text": "Theorems for valid-UTF-8 lines and hunks consistent with the line (which C03 proves of case-aware plans): line_before is "
          "the file's line; line_after is the column splice of that one match and the find() fallback is unreachable; for any "
          "number of consistent non-empty hunks on a line the `+` text of render_diff (line_after for one hunk, the stable "
          "right-to-left merge by byte_offset for several) equals the left-to-right splice of the line, with length-changing "
          "replacements, multi-byte text before the matches and CR-LF; at file level the applied file is (lines before, edited) ++ "
          "that text ++ (lines after, edited), and for newline-free texts/replacements the block `@@ line n @@` shows exactly line n "
          "of the file after apply while line n of the original is the `-` side. Kernel-evaluated theorems show what each hypothesis "
          "is for (duplicate/overlapping hunks, newline in a replacement, column inside a character, line-relative offsets read as "
          "file offsets), the first and last being the real defects repaired by 4d2e5a7 and d278bf5. Every run compares the model's "
          "merge with the parsed output of the real render_plan(Diff) on real plans and on hostile hand-made plans, checks every "
          "preview block and single-hunk line_after against the reference splice of the plan, and on CLI plan -> apply runs "
          "against the files the real apply wrote.",
  "design_ref": "DESIGN.md section 4, C15",
  "technique": "Lean 4 proof (induction over hunk lists reusing the C02 splice theorem; line/offset algebra) + differential "
               "correspondence with render_plan(Diff) + preview-vs-apply oracle (reference splice and real apply)",
  "note": TB + "lines must be valid UTF-8 (otherwise generate_hunks panics: C16); similar's line differ is not modelled — it also "
          "breaks at a lone CR and only '\\n' is trimmed, so blocks are compared after re-joining their lines (CR-LF vs lone CR is "
          "not distinguished); only the uncoloured diff and the plan JSON are in scope (table/matches/summary previews and ANSI "
          "colouring are not); the literal planner quotes lines without terminator, accepted by the oracle; 'apply' in the "
          "theorems is Edits.applyEdits/spec, tied to apply.rs by C02's correspondence and by the CLI runs here.",
}

_W = "check built and passing before the latest repo fix commits; temporarily withdrawn while its Lean model is updated to the repaired code"
PENDING.update({})
