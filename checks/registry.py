"""What MANIFEST.json claims, per property (bin/mkmanifest renders it)."""
FIX_COMMITS = []
NOT_YET = {}
TB = ("Trusted: Lean kernel + axioms propext/Classical.choice/Quot.sound (audited per theorem, no native_decide); the "
      "statements in lean/RModel/Props; the hand-written model is tied to /repo by the differential correspondence "
      "(generator quality bounds what it sees) and the translators; ")
CHECKS = {
 "C02": {
  "text": "Theorems over all byte strings / edit lists / rename sets: the back-to-front edit loop equals the left-to-right "
          "specification for every consistent edit list (any number of matches, any lengths, multi-byte text), edits leave "
          "other paths alone, and the re-based rename sequence composes to the per-node final path. The Lean model of "
          "apply_plan (content phase, rename ordering, re-basing, rollback, backup step) is executed against the real "
          "apply_plan on the same generated trees/plans on every run, and CLI plan->apply runs are compared with an "
          "independent reference interpreter of the plan JSON.",
  "design_ref": "DESIGN.md section 4, C02",
  "technique": "Lean 4 proof (induction over edit lists / rename lists) + differential correspondence model vs apply_plan + whole-tree oracle",
  "note": TB + "POSIX rename/chmod semantics as written in RModel.Model.Fs (no symlinked directories inside planned paths, "
          "no hard links/ownership); temp-name collisions excluded; durability (fsync) not modelled.",
 },
}
