"""C08 — Path renames are complete, conflict-free and composable.

translate   Gen/RenameTables.lean (WINDOWS_RESERVED, extension table of coercion::detect_style)
prove       RModel.Props.C08 (one rename per name, only the last component, distinct sources, distinct destinations or
            refusal, same-style name, composition with C02ren.renamePhase_ok)
correspond  `planrenames` search / conf / scan: real plan_renames_with_search, plan_renames_with_conflicts,
            scan_repository_multi on a materialised tree vs RenamePlan.planWithSearch / planRoot / planMulti
            (variant map obtained from the real generate_variant_map and passed to both sides)
oracle      by construction (independent Python): expected renames = every in-scope node whose own name contains a
            rendering of the term in an enabled style -> the same name with each such rendering replaced by the
            replacement rendered in the same style; exactly one per node; only the last component; destinations
            distinct or the plan is refused.  End to end: CLI `rename -y`, then the on-disk path set must equal
            oracle.final_path of the expected renames ("nothing else moved"), or nothing changed on a refusal.
"""
import json
import os
import re

from . import common, gen, oracle
from .common import hexs, unhex

NAME_STYLES = ["snake", "kebab", "camel", "pascal", "screaming_snake", "train"]
RARE_STYLES = ["screaming_train", "title", "lower_sentence"]
SEP = {"snake": "_", "kebab": "-", "screaming_snake": "_", "train": "-", "screaming_train": "-", "title": " ",
       "lower_sentence": " ", "camel": "", "pascal": ""}
PLAIN = ["main", "lib", "util", "README", "notes", "src", "docs", "data", ".config", "Makefile", "index", "my notes",
         "résumé", "x"]
EXTS = ["", "", ".txt", ".rs", ".md", ".js", ".rb", ".tar.gz", ".min.js", ".d"]
AFFIX = ["my", "the", "test", "impl", "old", "get", "params"]
FLAGSETS = [[], [], ["--no-rename-files"], ["--no-rename-dirs"], ["--no-rename-paths"]]
STYLE_SETS = [None, None, None, ["snake", "camel"], ["snake", "kebab", "pascal", "screaming_snake"], ["kebab", "train", "camel"]]
KNOWN_EXTS = None  # filled from the generated table (only used to describe cases)


# ------------------------------------------------------------------------------------------------
# independent oracle

def pairs_for(swords, rwords, styles):
    """(key, value, style) for every enabled style; first style wins on equal keys"""
    out, seen = [], set()
    for st in styles:
        k = gen.render(st, swords)
        if k in seen:
            continue
        seen.add(k)
        out.append((k, gen.render(st, rwords), st))
    return out


def rewrite(name, pairs):
    """leftmost-longest, non-overlapping: every rendering of the term -> same-style rendering of the replacement.
    Returns (new name, [(pos, style)])"""
    i, res, occ = 0, [], []
    while i < len(name):
        best = None
        for k, v, st in pairs:
            if name.startswith(k, i) and (best is None or len(k) > len(best[0])):
                best = (k, v, st)
        if best:
            res.append(best[1]); occ.append((i, best[2])); i += len(best[0])
        else:
            res.append(name[i]); i += 1
    return "".join(res), occ


def split_words(stem):
    """independent word splitter: separators and lower->upper humps"""
    out = []
    for part in re.split(r"[_\-. ]+", stem):
        if part:
            out += re.findall(r"[A-Z]+(?![a-z])|[A-Z]?[a-z0-9]+|[A-Z]+|[^A-Za-z0-9]+", part)
    return out


def stem_of(name):
    s = name.lstrip("._")
    m = re.match(r"^(.*?)((?:\.[A-Za-z0-9]+)*)$", s)
    return m.group(1) if m and m.group(1) else s


def uniform_style(name, st):
    """the whole stem of the name is written in style `st`"""
    stem = stem_of(name)
    ws = split_words(stem)
    return bool(ws) and gen.render(st, ws) == stem


def under(p, root):
    return p == root or root == "" or p.startswith(root + "/")


# scope of one root's walk, by construction: the documented table (filtering.mdx / README "Ignore Files", written down in
# checks/c09.py independently of the translator), the generator's own ignore rules (plain `name` / `name/` patterns), and
# include / exclude patterns matched relative to the root
IGN_KINDS = ["gitignore", "ignore", "rgignore", "rnignore"]
IGN_FILE = {"gitignore": ".gitignore", "ignore": ".ignore", "rgignore": ".rgignore", "rnignore": ".rnignore"}
PARENTS_CONSULTED = [True, True, False, False]     # ignore files in ancestors of the root: default and -u


def rule_hits(rule, q, tree):
    kind, d, pat = rule
    name = pat.rstrip("/")
    if not (d == "" or q.startswith(d + "/")):
        return False
    if os.path.basename(q) != name:
        return False
    return not pat.endswith("/") or tree[q][0] == "d"


def reached(case, root, p):
    """does the walk that starts at `root` yield `p` and do the glob sets (relative to `root`) let it through"""
    from .c09 import DOC_HONOURED, glob_out
    level, tree = case["level"], case["tree"]
    rel = p[len(root):].lstrip("/") if root else p
    if rel:
        comps = rel.split("/")
        for i in range(len(comps)):
            q = (root + "/" if root else "") + "/".join(comps[: i + 1])
            if comps[i] in (".git", ".renamify"):
                return False
            for rule in case["rules"]:
                kind, d, _ = rule
                if not DOC_HONOURED[kind][level]:
                    continue
                below = d == root or (root == "" or d.startswith(root + "/"))
                above = not below and (d == "" or root.startswith(d + "/"))
                if (below or (above and PARENTS_CONSULTED[level])) and rule_hits(rule, q, tree):
                    return False
    return not glob_out(case["inc"], case["exc"], rel)


def ignore_facts(case):
    """(kind index, directory of the ignore file, matched path) for the model's IgnoreOracle"""
    out = []
    for rule in case["rules"]:
        for q in sorted(case["tree"]):
            if rule_hits(rule, q, case["tree"]):
                out.append((IGN_KINDS.index(rule[0]), rule[1], q))
    return out


def expected_renames(case, root_filter):
    """dict path -> (kind, new path) — at most one per node by construction"""
    tree, pairs = case["tree"], case["pairs"]
    flags = case["flags"]
    exp = {}
    if "--no-rename-paths" in flags:
        return exp
    for p, node in tree.items():
        if p == case["cwd"]:
            continue
        roots_over = [r for r in case["roots"] if under(p, r)]
        roots_over = [r for r in roots_over if ".git" not in p[len(r):].split("/")]
        if case.get("scoped"):
            # in scope = reached by the walk of ANY root (each root has its own walker and its own glob base)
            roots_over = [r for r in roots_over if reached(case, r, p)]
        if not roots_over:
            continue
        if root_filter and p in case["roots"] and not case.get("rename_root"):
            continue
        if node[0] == "d" and "--no-rename-dirs" in flags:
            continue
        if node[0] != "d" and "--no-rename-files" in flags:
            continue
        name = os.path.basename(p)
        new, occ = rewrite(name, pairs)
        if occ and new != name:
            exp[p] = ("d" if node[0] == "d" else "f", os.path.join(os.path.dirname(p), new))
    return exp


WIN_RESERVED = {"CON", "PRN", "AUX", "NUL"} | {f"COM{i}" for i in range(1, 10)} | {f"LPT{i}" for i in range(1, 10)}


def reserved_dest(exp):
    """guard: a destination whose base name is a Windows device name makes renamify refuse the plan"""
    for p, (_, q) in exp.items():
        if os.path.basename(q).split(".")[0].upper() in WIN_RESERVED:
            return (p, q)
    return None


def dest_collision(exp):
    seen = {}
    for p, (_, q) in exp.items():
        if q in seen:
            return (seen[q], p, q)
        seen[q] = p
    return None


def coerced_paths(case):
    """the nodes whose name file-name coercion takes over (clause of finding coercion_restyles_term); decided by the
    model's transliteration of coercion::apply_coercion, asked once per case and only when a name has to be classified"""
    if "_coerced" not in case:
        line = common.run_model([plan_request(case, "coerced", case["vline"])])[0].split()
        case["_coerced"] = {unhex(x).decode("utf-8", "surrogateescape") for x in line[1:]} if line and line[0] == "ok" else set()
    return case["_coerced"]


def clauses(case, exp, got_list, root_filter=False):
    """which listed guard clauses the case touches (decided from the input alone, plus which paths differ)"""
    got = {}
    for k, p, q in got_list:
        got.setdefault(p, []).append((k, q))
    out = set()
    diff = [p for p in set(exp) | set(got) if ([exp[p]] if p in exp else []) != got.get(p, [])]
    for p in diff:
        name = os.path.basename(p)
        _, occ = rewrite(name, case["pairs"])
        node = case["tree"].get(p)
        if len(got.get(p, [])) > 1:
            out.add("UNLISTED:scheduled_twice:" + p)      # repaired by 4d2e5a7 (dedup_renames); must not come back
        elif node and node[0] == "l" and "--no-rename-files" in case["flags"] and p not in exp and got.get(p):
            out.add("UNLISTED:symlink_renamed_under_no_rename_files:" + p)    # repaired by 4ad17ef; must not come back
        elif root_filter and node and node[0] == "l" and p in exp and not got.get(p) and \
                os.path.normpath(os.path.join(os.path.dirname(p), node[1])) in case["roots"]:
            out.add("UNLISTED:symlink_to_root_dropped:" + p)                  # repaired by ed3f0d7; must not come back
        elif len({st for _, st in occ}) > 1:
            # the old term is still in the new name: only one of the styles was rewritten (finding two_styles_in_one_name);
            # everything rewritten but not in the styles of the occurrences: coercion took the name over (by design)
            news = [os.path.basename(q) for _, q in got.get(p, [])]
            if len(news) == 1 and rewrite(news[0], case["pairs"])[1] and p not in coerced_paths(case):
                out.add("two_styles_in_one_name")
            else:
                out.add("coercion_restyles_term")
        elif occ and not uniform_style(name, occ[0][1]):
            out.add("coercion_restyles_term")
        else:
            out.add("UNLISTED:" + p)
    return out, diff


# ------------------------------------------------------------------------------------------------
# generators

def gen_component(rng, case_words, with_term, is_dir, tags):
    swords = case_words
    if not with_term:
        base = rng.choice(PLAIN)
        return base + ("" if is_dir else rng.choice(EXTS))
    st = rng.choice(NAME_STYLES) if rng.random() < 0.88 else rng.choice(RARE_STYLES)
    core = gen.render(st, swords)
    sep = SEP[st]
    r = rng.random()
    shape = "plain"
    if r < 0.30:
        shape = "affix_same"
        pre = [rng.choice(AFFIX)] if rng.random() < 0.6 else []
        suf = [rng.choice(AFFIX)] if (rng.random() < 0.6 or not pre) else []
        core = gen.render(st, pre + swords + suf)
    elif r < 0.42:
        shape = "affix_other"          # surrounding word attached with a foreign separator / hump
        osep = rng.choice([s for s in ["_", "-", ""] if s != sep] + ["."])
        w = rng.choice(AFFIX)
        if osep == "":
            core = (w + core[:1].upper() + core[1:]) if rng.random() < 0.5 else (core + w.capitalize())
        elif rng.random() < 0.5:
            core = w + osep + core
        else:
            core = core + osep + rng.choice([w, w.upper(), w.capitalize()])
    elif r < 0.50:
        shape = "plural"
        core = core + ("S" if st.startswith("screaming") else "s")
    elif r < 0.58:
        shape = "two_styles"
        st2 = rng.choice([s for s in NAME_STYLES if s != st])
        core = core + rng.choice(["_", "-", "."]) + gen.render(st2, swords)
    elif r < 0.63:
        shape = "twice"
        core = core + (sep or "_") + core
    elif r < 0.68:
        shape = "hidden"
        core = "." + core
    elif r < 0.71:
        shape = "underscore_prefix"
        core = rng.choice(["_", "__"]) + core
    tags.add(shape)
    tags.add("style:" + st)
    return core + ("" if is_dir and rng.random() < 0.8 else rng.choice(EXTS))


def gen_case(rng, idx):
    swords, rwords = gen.pick_terms(rng, 2, 3)
    if rng.random() < 0.2:
        rwords = rwords[:1]
    styles = STYLE_SETS[idx % len(STYLE_SETS)]
    enabled = styles or gen.DEFAULT_STYLES
    tags = set()
    cwd = "proj" if rng.random() < 0.8 else gen.render(rng.choice(["snake", "kebab"]), swords) + "_proj"
    tree = {cwd: ("d", 0o755)}
    p_term = rng.choice([0.35, 0.6, 0.85])
    pairs_now = pairs_for(swords, rwords, enabled)

    def fill(prefix, depth):
        for _ in range(rng.randint(1, 4)):
            if len(tree) >= 16:
                return
            k = rng.random()
            is_dir = k < 0.38 and depth < 4
            name = gen_component(rng, swords, rng.random() < p_term, is_dir, tags)
            rel = prefix + "/" + name
            if any(x.lower() == rel.lower() for x in tree):
                continue
            if is_dir:
                tree[rel] = ("d", 0o755)
                fill(rel, depth + 1)
            elif k < 0.48:
                # dangling targets, the directory itself, and relative targets that exist — a sibling created so far
                # (often named with the term, i.e. renamed by the same plan) or the parent through `..`
                sibs = [os.path.basename(x) for x in tree if os.path.dirname(x) == prefix]
                targets = ["nowhere", "../x", ".", os.path.basename(prefix), "../" + os.path.basename(prefix)]
                if sibs:
                    targets += [rng.choice(sibs), rng.choice(sibs)]
                tgt = rng.choice(targets)
                tree[rel] = ("l", tgt)
                tags.add("symlink")
                resolved = os.path.normpath(os.path.join(prefix, tgt))
                tags.add("symlink:dangling" if resolved not in tree else "symlink:resolves")
                if resolved in tree and any(rewrite(c, pairs_now)[1] for c in resolved.split("/")):
                    tags.add("symlink:target_renamed_in_same_plan")
            else:
                tree[rel] = ("f", (rng.choice(gen.FILLER) + "\n").encode(), 0o644)
    fill(cwd, 1)
    dirs = [p for p, n in tree.items() if n[0] == "d" and p != cwd]
    if rng.random() < 0.12:
        # two siblings that differ only in the style of the term + a one-word replacement: same destination
        rwords = rwords[:1]
        d = rng.choice([cwd] + dirs)
        st1, st2 = rng.sample(["snake", "kebab", "camel"], 2)
        ext = rng.choice([".txt", ".rs", ""])
        for st in (st1, st2):
            rel = d + "/" + gen.render(st, swords) + ext
            if not any(x.lower() == rel.lower() for x in tree):
                tree[rel] = ("f", b"c\n", 0o644)
        tags.add("collide")
    elif rng.random() < 0.05:
        rwords = [rng.choice(["con", "aux", "nul", "com1", "lpt9"])]
        tags.add("reserved_replacement")
    r = rng.random()
    if r < 0.45 or not dirs:
        roots = [cwd]
    elif r < 0.60:
        roots = [rng.choice(dirs)]
    elif r < 0.72 and len(dirs) >= 2:
        a = rng.choice(dirs)
        others = [d for d in dirs if not under(d, a) and not under(a, d)]
        roots = [a, rng.choice(others)] if others else [a]
    elif r < 0.84:
        a = rng.choice(dirs)
        roots = rng.choice([[cwd, a], [a, cwd]])
        tags.add("roots:nested")
    elif r < 0.92:
        a = rng.choice([cwd] + dirs)
        roots = [a, a]
        tags.add("roots:repeated")
    else:
        files = [p for p, n in tree.items() if n[0] == "f"]
        roots = [rng.choice(files)] if files else [cwd]
        tags.add("roots:file")
    if rng.random() < 0.09:
        # search paths that are siblings named with the term in two styles — FILES or directories — and a one-word
        # replacement: each root is conflict-free on its own, their renames share a destination (0109402)
        rwords = rwords[:1]
        st_pool = [st for st in ["snake", "kebab", "camel", "screaming_snake"] if st in enabled] or list(enabled)
        if len(st_pool) >= 2:
            st1, st2 = rng.sample(st_pool, 2)
            d = rng.choice([cwd] + dirs)
            as_files = rng.random() < 0.6
            ext = rng.choice([".txt", ".rs"]) if as_files else ""
            made = []
            for st in (st1, st2):
                rel = d + "/" + gen.render(st, swords) + ext
                if not any(x.lower() == rel.lower() for x in tree):
                    tree[rel] = ("f", b"c\n", 0o644) if as_files else ("d", 0o755)
                    if not as_files:
                        tree[rel + "/inner.txt"] = ("f", b"i\n", 0o644)
                    made.append(rel)
            if len(made) == 2:
                roots = made + ([rng.choice(dirs)] if dirs and rng.random() < 0.3 else [])
                tags.add("roots:colliding_files" if as_files else "roots:colliding_dirs")
    elif rng.random() < 0.05:
        files = [p for p, n in tree.items() if n[0] == "f"]      # a symlink as a search root is outside the model
        if len(files) >= 2:
            roots = rng.sample(files, 2)
            tags.add("roots:two_files")
    if any(rewrite(os.path.basename(x), pairs_for(swords, rwords, enabled))[1] for x in roots if x != cwd):
        tags.add("roots:named_with_term")
    search_style = rng.choice(["snake", "snake", "camel", "kebab", "pascal"])
    case = {"swords": swords, "rwords": rwords, "search": gen.render(search_style, swords),
            "replace": gen.render(rng.choice(["snake", "snake", "camel", "kebab"]), rwords),
            "styles": styles, "plural": idx % 5 != 4, "tree": tree, "cwd": cwd, "roots": roots,
            "flags": list(FLAGSETS[(idx // 2) % len(FLAGSETS)]), "tags": sorted(tags)}
    case["pairs"] = pairs_for(swords, rwords, enabled)
    return case


def gen_scoped_case(rng, idx):
    """(affix words are attached with `.` so that file-name coercion — finding coercion_restyles_term — stays out of these cases)
    nested search roots with something between them that hides the inner root from the outer root's walk: an ignore
    file (four kinds, at the base directory above cwd, cwd, the outer root or any directory down to the parent of the
    hidden directory), the inner root itself ignored, or include / exclude patterns that select differently relative
    to each root; unrestricted level 0..3.  Every root is walked on its own, so what a root names is in scope."""
    swords, rwords = gen.pick_terms(rng, 2, 2)
    enabled = gen.DEFAULT_STYLES
    pairs = pairs_for(swords, rwords, enabled)
    tags = {"scoped"}
    term = lambda st=None: gen.render(st or rng.choice(NAME_STYLES[:5]), swords)
    cwd = "proj"
    tree = {cwd: ("d", 0o755)}

    def mk(path, kind="d", data=b"x\n"):
        parts = path.split("/")
        for i in range(1, len(parts)):
            tree.setdefault("/".join(parts[:i]), ("d", 0o755))
        tree[path] = ("d", 0o755) if kind == "d" else (("l", data) if kind == "l" else ("f", data, 0o644))
        return path

    outer = cwd if rng.random() < 0.6 else mk(cwd + "/ws")
    chain = outer
    for _ in range(rng.randint(0, 2)):
        chain = mk(chain + "/" + rng.choice(["pkg", "crates", term("snake") + ".mod", "a"]))
    hidden = mk(chain + "/" + rng.choice(["build", "out", "target", term("kebab") + ".out"]))
    r = rng.random()
    if r < 0.25:
        inner = hidden
    elif r < 0.7:
        inner = mk(hidden + "/" + term() + ".gen")
    else:
        inner = mk(hidden + "/sub/" + term())
    # content of the inner root, the visible part of the outer root, and a second ignored directory nobody names
    mk(inner + "/" + term() + ".rs", "f")
    mk(inner + "/gen/" + term() + ".impl.txt", "f")
    mk(inner + "/gen/plain.md", "f")
    if rng.random() < 0.5:
        mk(inner + "/" + term() + ".link", "l", rng.choice(["nowhere", "gen"]))
    mk(hidden + "/" + term() + ".beside.txt", "f")
    mk(outer + "/" + term() + ".visible.md", "f")
    mk(outer + "/src/" + term() + ".rs", "f")
    mk(outer + "/gen/" + term() + ".top.txt", "f")
    other = mk(outer + "/" + rng.choice(["cache", "tmpdir"]))
    mk(other + "/" + term() + ".never.txt", "f")

    level = rng.choice([0, 0, 1, 2, 3])
    rules, inc, exc = [], [], []
    mech = rng.choice(IGN_KINDS + IGN_KINDS + ["exclude", "include"])
    parent_chain = []          # directories from the base down to the parent of `hidden`
    d = os.path.dirname(hidden)
    while True:
        parent_chain.append(d)
        if d == "":
            break
        d = os.path.dirname(d)
    if mech in IGN_KINDS:
        where = rng.choice(parent_chain)
        target = hidden if rng.random() < 0.75 or inner == hidden else inner
        if target == inner and where not in (os.path.dirname(inner),) and not (where == "" or inner.startswith(where + "/")):
            where = os.path.dirname(inner)
        if target == inner:
            where = rng.choice([x for x in parent_chain + [os.path.dirname(inner)] if x == "" or inner.startswith(x + "/")])
        pat = os.path.basename(target) + ("/" if rng.random() < 0.5 else "")
        rules.append((mech, where, pat))
        rules.append((rng.choice(IGN_KINDS), os.path.dirname(other), os.path.basename(other) + "/"))
        tags.add("hide:" + mech)
        tags.add("ignore_file_at:" + ("base" if where == "" else "cwd" if where == cwd else "outer_root" if where == outer
                                      else "between"))
        tags.add("hidden:inner_root_itself" if target == inner else "hidden:ancestor_of_inner_root")
    elif mech == "exclude":
        rel = hidden[len(outer) + 1:]
        # trailing slash: always read as a directory pattern (`x/` + `x/**`), whatever characters the name has
        exc = [rel.split("/")[0] + "/"]
        tags.add("hide:exclude_glob")
    else:
        inc = ["gen/**"]
        tags.add("hide:include_glob")
    for kind, dd, pat in rules:
        path = (dd + "/" if dd else "") + IGN_FILE[kind]
        prev = tree[path][1] if path in tree else b""
        tree[path] = ("f", prev + pat.encode() + b"\n", 0o644)
    roots = [outer, inner]
    rng.shuffle(roots)
    if rng.random() < 0.2:
        roots.append(rng.choice([outer, inner, mk(outer + "/src")]))
    tags.add("level:%d" % level)
    case = {"swords": swords, "rwords": rwords, "search": gen.render("snake", swords), "replace": gen.render("snake", rwords),
            "styles": None, "plural": idx % 3 != 0, "tree": tree, "cwd": cwd, "roots": roots,
            "flags": list(FLAGSETS[idx % 3]), "tags": sorted(tags), "scoped": True, "level": level, "inc": inc, "exc": exc,
            "rules": rules, "pairs": pairs}
    return case


# ------------------------------------------------------------------------------------------------
# requests

def vmap_request(case):
    st = ",".join(case["styles"]) if case["styles"] else ",".join(gen.DEFAULT_STYLES)
    return f"c08vmap {hexs(case['search'])} {hexs(case['replace'])} {st} {1 if case['plural'] else 0}"


def plan_request(case, mode, vline, coerce=True, flags=None):
    fl = case["flags"] if flags is None else flags
    letters = ""
    if "--no-rename-files" not in fl and "--no-rename-paths" not in fl:
        letters += "f"
    if "--no-rename-dirs" not in fl and "--no-rename-paths" not in fl:
        letters += "d"
    if coerce:
        letters += "c"
    st = ",".join(case["styles"]) if case["styles"] else ",".join(gen.DEFAULT_STYLES)
    ventries = vline.split()[1:]
    f = ["planrenames", mode, letters or "-", hexs(case["cwd"]), hexs(case["search"]), hexs(case["replace"]), st,
         "1" if case["plural"] else "0", "ROOTS", str(len(case["roots"]))] + [hexs(r) for r in case["roots"]]
    f += ["V", str(len(ventries))]
    for e in ventries:
        k, v, a = e.split("=")
        f += [k, v, a]
    f += gen.wire_tree(case["tree"])
    if case.get("scoped"):
        f += ["S", str(case["level"]), "I", str(len(case["inc"]))] + [hexs(x) for x in case["inc"]]
        f += ["X", str(len(case["exc"]))] + [hexs(x) for x in case["exc"]]
        facts = ignore_facts(case)
        f += ["G", str(len(facts))]
        for k, d, q in facts:
            f += [str(k), hexs(d), hexs(q)]
    return " ".join(f)


def parse_plan_line(line):
    """'ok f:a>b ... | m:t<s,s' -> (status, [(kind, path, new)], [conflict strings])"""
    f = line.split()
    if not f or f[0] != "ok":
        return (f[0] if f else "empty"), [], []
    rens, confs, in_conf = [], [], False
    for item in f[1:]:
        if item == "|":
            in_conf = True
        elif in_conf:
            confs.append(item)
        else:
            k, rest = item.split(":", 1)
            a, b = rest.split(">")
            rens.append((k, unhex(a).decode("utf-8", "surrogateescape"), unhex(b).decode("utf-8", "surrogateescape")))
    return "ok", rens, confs


def describe(case):
    return {"swords": case["swords"], "rwords": case["rwords"], "search": case["search"], "replace": case["replace"], "styles": case["styles"] or "default",
            "plural": case["plural"], "cwd": case["cwd"], "roots": case["roots"], "flags": case["flags"],
            "tree": {p: (n[0] if n[0] != "l" else "l->" + n[1]) for p, n in sorted(case["tree"].items())},
            "tags": case.get("tags", []),
            **({"scoped": True, "level": case["level"], "inc": case["inc"], "exc": case["exc"],
                "rules": [list(r) for r in case["rules"]]} if case.get("scoped") else {})}


# ------------------------------------------------------------------------------------------------
# oracle evaluation on one planner answer

def judge(ctx, case, impl_line, model_line, root_filter, what):
    """Returns None if fine, a slug if a listed finding was re-observed, or 'VIOLATION' after reporting."""
    exp = expected_renames(case, root_filter)
    status, got, _ = parse_plan_line(impl_line)
    coll = dest_collision(exp) or reserved_dest(exp)
    if status == "refused":
        if coll:
            ctx.count(what + ":refused_on_collision_or_reserved")
            return None
        # refused although the expectation is conflict-free: is the conflict produced by a listed clause?
        if impl_line == model_line:
            ex = common.run_model([plan_request(case, "explain", case["vline"])])[0]
            _, collected, _ = parse_plan_line(ex)
            collected = list(dict.fromkeys(collected))      # the diagnostic walks every root: one copy per node
            cexp = {p: (k, q) for k, p, q in collected}
            cl, _ = clauses(case, exp, collected, root_filter)
            if cl and (dest_collision(cexp) or reserved_dest(cexp)) and \
                    all((ctx.pid, c) in ctx.findings for c in cl):
                for c in cl:
                    ctx.known(c)
                    ctx.count("finding:" + c)
                ctx.count(what + ":refused_by_listed_clause")
                return sorted(cl)[0]
        ctx.violation("input", {"op": what, **describe(case)}, expected={"renames": exp}, observed=impl_line,
                      model_prediction=model_line, note="plan refused although the expected renames have distinct destinations")
        return "VIOLATION"
    if status != "ok":
        ctx.violation("input", {"op": what, **describe(case)}, expected={"renames": exp}, observed=impl_line,
                      model_prediction=model_line, note="planner failed")
        return "VIOLATION"
    # structural clauses, independent of the expectation
    for k, p, q in got:
        if os.path.dirname(p) != os.path.dirname(q) or not os.path.basename(q) or p not in case["tree"]:
            ctx.violation("input", {"op": what, **describe(case)}, expected="only the last component changes",
                          observed=[k, p, q], model_prediction=model_line)
            return "VIOLATION"
    srcs = [p for _, p, _ in got]
    if len(set(srcs)) != len(srcs):
        dup = sorted(p for p in set(srcs) if srcs.count(p) > 1)
        ctx.violation("input", {"op": what, **describe(case)}, expected="every node scheduled at most once",
                      observed={"scheduled_twice": dup}, model_prediction=model_line,
                      note="a node is scheduled for more than one rename (overlapping search roots? repaired by 4d2e5a7)")
        return "VIOLATION"
    dests = {}
    for k, p, q in got:
        if q in dests and dests[q] != p:
            ctx.violation("input", {"op": what, **describe(case)}, expected="pairwise distinct destinations",
                          observed=[dests[q], p, q], model_prediction=model_line,
                          note="two planned renames share a destination and the plan was not refused")
            return "VIOLATION"
        dests[q] = p
    want = sorted((k, p, q) for p, (k, q) in exp.items())
    if sorted(got) == want:
        if coll:
            ctx.violation("input", {"op": what, **describe(case)}, expected="refusal", observed=impl_line)
            return "VIOLATION"
        return None
    cl, diff = clauses(case, exp, got)
    unlisted = [c for c in cl if c.startswith("UNLISTED")]
    if not unlisted and impl_line == model_line and all((ctx.pid, c) in ctx.findings for c in cl):
        for c in cl:
            ctx.known(c)
            ctx.count("finding:" + c)
        return sorted(cl)[0]
    ctx.violation("input", {"op": what, **describe(case)},
                  expected={"renames": want}, observed={"renames": sorted(got), "differs_at": sorted(diff), "clauses": sorted(cl)},
                  model_prediction=model_line,
                  note="planned renames differ from the by-construction expectation outside the listed guard clauses"
                       + ("" if impl_line == model_line else " (and the model does not predict this behaviour)"))
    return "VIOLATION"


# ------------------------------------------------------------------------------------------------
# CLI end to end

def cli_args(case):
    a = ["rename", case["search"], case["replace"]]
    for r in case["roots"]:
        a.append(os.path.relpath(r, case["cwd"]))
    a += ["-y", "--no-auto-init", "--quiet"] + case["flags"]
    if case["styles"]:
        a += ["--only-styles", ",".join(gen.CLI_NAME[s] for s in case["styles"])]
    if not case["plural"]:
        a.append("--no-plural-variants")
    if case.get("rename_root"):
        a.append("--rename-root")
    if case.get("scoped"):
        if case["level"]:
            a.append("-" + "u" * case["level"])
        for x in case["inc"]:
            a += ["--include", x]
        for x in case["exc"]:
            a += ["--exclude", x]
    return a


def path_set(snap):
    """path -> (type, content / link target); the content of an ignore file is left out: a pattern naming a directory
    that carries the term is legitimately rewritten by the content phase, which is not this property's subject"""
    return {p: (v[0], v[2] if v[0] != "d" and os.path.basename(p) not in IGN_FILE.values() else "") for p, v in snap.items()}


def run_cli(case):
    with common.scratch() as base:
        common.materialize(base, case["tree"])
        cwd = os.path.join(base, case["cwd"])
        before = common.snapshot(cwd)
        rc, out, err = common.cli(cli_args(case), cwd)
        after = common.snapshot(cwd)
    return rc, err.decode("utf-8", "replace"), before, after


def plan_cli_refuses(ctx, case):
    """`renamify plan` keeps the roots themselves (no root filter): with two planned renames on one destination it has to
    refuse — apply would otherwise lose a file (repaired by 0109402).  Returns False after reporting a violation."""
    exp_u = expected_renames(case, root_filter=False)
    if not dest_collision(exp_u):
        return True
    with common.scratch() as base:
        common.materialize(base, case["tree"])
        cwd = os.path.join(base, case["cwd"])
        args = ["plan"] + [a for a in cli_args(case)[1:] if a != "-y"]
        rc, out, err = common.cli(args, cwd)
        plan_path = os.path.join(cwd, ".renamify", "plan.json")
        planned = json.load(open(plan_path))["paths"] if rc == 0 and os.path.exists(plan_path) else []
    ctx.count(f"cli:plan_on_shared_destination:rc={rc}")
    dests = [r.get("new_path") for r in planned]
    if rc == 0 and len(set(dests)) != len(dests):
        ctx.violation("input", {"op": "cli-plan", "args": args, **describe(case)},
                      expected="refusal: two planned renames share a destination",
                      observed={"rc": rc, "paths": [[os.path.basename(r["path"]), os.path.basename(r["new_path"])] for r in planned]},
                      note="`plan` accepted a plan in which two renames (found under different search roots) share a destination")
        return False
    return True


def judge_cli(ctx, case, model_line, model_plan_line):
    if not plan_cli_refuses(ctx, case):
        return "VIOLATION"
    rc, err, before, after = run_cli(case)
    exp = expected_renames(case, root_filter=True)
    coll = dest_collision(exp) or reserved_dest(exp)
    rel = lambda p: os.path.relpath(p, case["cwd"])
    rens = [(k, rel(p), rel(q)) for p, (k, q) in exp.items()]
    want = {}
    for p, v in path_set(before).items():
        want[oracle.final_path(p, rens)] = v
    got = path_set(after)
    info = {"op": "cli", "args": cli_args(case), **describe(case), "rc": rc, "stderr": err[-400:]}
    ctx.count(f"cli:rc={rc}")
    if coll:
        if rc != 0 and got == path_set(before):
            ctx.count("cli:refused_on_collision_or_reserved")
            return None
        ctx.violation("input", info, expected="refusal with the tree unchanged (two sources share a destination)",
                      observed={"rc": rc, "diff": common.snap_diff(before, after)}, model_prediction=model_line)
        return "VIOLATION"
    if rc == 0 and got == want:
        return None
    exp_u = expected_renames(case, root_filter=False)
    if (dest_collision(exp_u) or reserved_dest(exp_u)) and rc != 0 and got == path_set(before):
        # conflicts are detected per root before the roots themselves are filtered out: a refusal is within the guard
        ctx.count("cli:refused_on_root_collision_or_reserved")
        return None
    # which clause?  (decided on the model's plan, which must also predict the observed tree)
    mstatus = model_line.split(" ", 1)
    mwire = mstatus[1] if len(mstatus) > 1 and mstatus[0] != "refused" else ""
    mtree = path_set({os.path.relpath(p, case["cwd"]): v for p, v in
                      gen.parse_wire_tree(mwire).items() if p.startswith(case["cwd"] + "/")})
    model_agrees = ((mstatus[0] == "ok") == (rc == 0)) and mtree == got
    moved = sorted(set(want) ^ set(got))
    if model_plan_line.startswith("refused"):
        model_agrees = rc != 0 and got == path_set(before)
        _, mrens, _ = parse_plan_line(common.run_model([plan_request(case, "explain", case["vline"])])[0])
        mrens = list(dict.fromkeys(mrens))
        if not case.get("rename_root"):
            mrens = [r for r in mrens if r[1] not in case["roots"]]
    else:
        _, mrens, _ = parse_plan_line(model_plan_line)
    cl, _ = clauses(case, exp, mrens, root_filter=True)
    cl = {("UNLISTED" if c.startswith("UNLISTED") else c) for c in cl}
    if not cl:
        cl.add("UNLISTED")
    if "UNLISTED" not in cl and model_agrees and all((ctx.pid, c) in ctx.findings for c in cl):
        for c in cl:
            ctx.known(c)
            ctx.count("finding:" + c)
        return sorted(cl)[0]
    ctx.violation("input", info, expected={"paths": sorted(want)},
                  observed={"rc": rc, "paths": sorted(got), "differs_at": moved, "clauses": sorted(cl)},
                  model_prediction=model_line[:600],
                  note="after `rename -y` the on-disk paths differ from oracle.final_path of the expected renames"
                       + ("" if model_agrees else " (and the model does not predict this outcome)"))
    return "VIOLATION"


# ------------------------------------------------------------------------------------------------
# corpus witnesses (hand-written, replayed first)

def corpus_cases():
    d = os.path.join(common.ROOT, "corpus", "C08")
    out = []
    if os.path.isdir(d):
        for f in sorted(os.listdir(d)):
            if f.endswith(".json"):
                obj = json.load(open(os.path.join(d, f)))
                out.append((f, case_from_json(obj["case"]), obj))
    return out


def case_from_json(c):
    tree = {}
    for p, n in c["tree"].items():
        if n == "d":
            tree[p] = ("d", 0o755)
        elif n.startswith("l->"):
            tree[p] = ("l", n[3:])
        else:
            tree[p] = ("f", b"x\n", 0o644)
    styles = None if c.get("styles", "default") == "default" else c["styles"]
    case = {"swords": c["swords"], "rwords": c["rwords"], "search": c["search"], "replace": c["replace"],
            "styles": styles, "plural": c.get("plural", True), "tree": tree, "cwd": c["cwd"], "roots": c["roots"],
            "flags": c.get("flags", []), "tags": c.get("tags", []), "rename_root": c.get("rename_root", False)}
    case["pairs"] = pairs_for(case["swords"], case["rwords"], styles or gen.DEFAULT_STYLES)
    if c.get("scoped"):
        case.update({"scoped": True, "level": c["level"], "inc": c.get("inc", []), "exc": c.get("exc", []),
                     "rules": [tuple(r) for r in c.get("rules", [])]})
        for kind, dd, pat in case["rules"]:
            path = (dd + "/" if dd else "") + IGN_FILE[kind]
            prev = tree[path][1] if path in tree and tree[path][0] == "f" and tree[path][1] != b"x\n" else b""
            tree[path] = ("f", prev + pat.encode() + b"\n", 0o644)
    return case


def run_batch(ctx, cases, n_cli, label):
    """correspondence + oracle for a list of cases; the first n_cli also go through the CLI"""
    vreqs = sorted({vmap_request(c) for c in cases})
    vres = dict(zip(vreqs, common.run_impl(vreqs)))
    reqs, meta = [], []
    for i, c in enumerate(cases):
        v = vres[vmap_request(c)]
        if not v.startswith("v"):
            ctx.broke("machinery", "c08vmap", v)
            return False
        c["vline"] = v
        reqs.append(plan_request(c, "scan", v)); meta.append((i, "scan"))
        reqs.append(plan_request(c, "search", v, coerce=(i % 4 != 3))); meta.append((i, "search"))
        if i % 2 == 0:
            reqs.append(plan_request(c, "conf", v, coerce=(i % 4 != 2))); meta.append((i, "conf"))
    res = common.correspond(ctx, f"{label}: planrenames scan/search/conf vs RenamePlan", reqs,
                            describe=lambda r: r[:300])
    for (r, impl, model), (i, mode) in zip(res, meta):
        c = cases[i]
        status, got, confs = parse_plan_line(impl)
        ctx.case((label, i, mode, c["search"], c["replace"], sorted(c["tree"]), c["roots"], c["flags"]),
                 nontrivial=bool(got) or status == "refused")
        ctx.count(f"{mode}:{status}")
        ctx.count(f"{mode}:renames={min(len(got), 5)}")
        if confs:
            ctx.count(f"{mode}:conflicts")
        if mode == "scan":
            for t in c["tags"]:
                ctx.count("shape:" + t)
            ctx.count("flags:" + (" ".join(c["flags"]) or "none"))
            ctx.count("roots=%d" % len(c["roots"]))
            if any(p2 != p1 and p2.startswith(p1 + "/") for _, p1, _ in got for _, p2, _ in got):
                ctx.count("scan:nested_renames")
            if judge(ctx, c, impl, model, root_filter=False, what="scan") == "VIOLATION":
                return False
    # CLI end to end
    cli_cases = cases[:n_cli]
    mreqs = [plan_request(c, "applyroot" if c.get("rename_root") else "apply", c["vline"]) for c in cli_cases]
    preqs = [plan_request(c, "renameroot" if c.get("rename_root") else "rename", c["vline"]) for c in cli_cases]
    mres = common.run_model(mreqs + preqs) if mreqs else []
    ctx.cov["disagreements_checked"] += len(mreqs)
    for c, m, mp in zip(cli_cases, mres[:len(mreqs)], mres[len(mreqs):]):
        ctx.case((label, "cli", c["search"], c["replace"], sorted(c["tree"]), c["roots"], c["flags"]))
        if judge_cli(ctx, c, m, mp) == "VIOLATION":
            return False
    return True


def run(ctx):
    ctx.cov["rule"] = ("trees of depth <= 4 below a working directory (itself sometimes named with the term), <= 16 nodes; each "
                       "component with probability 0.35/0.6/0.85 carries the term (2-3 neutral words) in snake/kebab/camel/pascal/"
                       "screaming-snake/train (rarely screaming-train/title/lower-sentence), plain / same-style affix words / "
                       "foreign-separator affix / plural s / two styles / twice / hidden / underscore prefix, with 10 extensions; "
                       "files, directories, symlinks (dangling too); flags none/--no-rename-files/--no-rename-dirs/--no-rename-paths; "
                       "roots: cwd, one subdirectory, two disjoint, nested, repeated, a file; style sets default + 3 subsets; "
                       "1-3 word replacements (1 word gives destination collisions); every 8th case: nested roots with the inner "
                       "root hidden from the outer root's walk (ignore file of the four kinds at base/cwd/outer root/in between, "
                       "the inner root itself ignored, --exclude / --include relative to each root; level 0-3). Each case: scan/search/conf requests to "
                       "harness and model, oracle on the scan answer; a fixed number also through the CLI (`rename -y`). "
                       "non-trivial = at least one rename or a refusal; distinct = (mode, terms, tree, roots, flags)")
    ctx.assumptions += ["case-sensitive filesystem (the CaseInsensitive conflict kind is not modelled)",
                        "ASCII names wherever the term occurs (Unicode case classes are not modelled)",
                        "walker scope = everything below the root except .git (ignore files are C09's subject)",
                        "variant map is a parameter of the model: taken from the real generate_variant_map per case"]
    try:
        from translate import rename_tables
        rename_tables.run()
        gen_text = open(os.path.join(common.LEAN, "RModel", "Gen", "RenameTables.lean")).read()
        if "def everyRootPlanned : Bool := true" not in gen_text:
            # the model's planMulti is the code's loop only if every search root is planned with its own walker
            ctx.broke("translator", "Gen.everyRootPlanned",
                      "scan_repository_multi no longer plans the renames of every search root (`for root in roots`): "
                      "C08.every_root_contributes no longer speaks about the code")
    except Exception as ex:  # a translator that cannot parse its source is a broken tie
        ctx.broke("translator", "translate/rename_tables.py", repr(ex))
    ctx.prove("RModel.Props.C08")
    ctx.prove("RModel.Props.Compose")      # planner -> apply -> undo chained (C08 + C02/C05 + C01)
    ok, msg = common.cargo_build()
    if not ok:
        ctx.broke("build", "cargo", msg)
        return
    rng = ctx.rng

    # corpus first
    cc = corpus_cases()
    if cc:
        if not run_batch(ctx, [c for _, c, _ in cc], n_cli=len(cc), label="corpus"):
            return
    n = 5000 if ctx.thorough else 1000
    n_cli = 1200 if ctx.thorough else 220
    cases = [gen_scoped_case(rng, i) if i % 8 == 5 else gen_case(rng, i) for i in range(n)]
    if not run_batch(ctx, cases, n_cli=n_cli, label="gen"):
        return
    ctx.sample({"case": describe(cases[0]), "expected": {p: q for p, (k, q) in expected_renames(cases[0], False).items()}})
    ctx.sample({"case": describe(cases[1])})

    # a broken tie must be followed by a search for a failing input: widen around the disagreement
    if ctx.broken and not ctx.violations:
        extra = [gen_scoped_case(rng, i) if i % 3 == 0 else gen_case(rng, i)
                 for i in range(n, n + (800 if ctx.thorough else 400))]
        run_batch(ctx, extra, n_cli=60, label="widened")


def replay(ctx, path):
    obj = json.load(open(path))
    ok, msg = common.cargo_build()
    if not ok:
        ctx.broke("build", "cargo", msg)
        return
    common.lean_build(["RModel.Props.C08"])
    c = obj.get("case", {})
    if not isinstance(c, dict) or "tree" not in c:
        print(json.dumps(obj, indent=1)[:3000])
        return
    c = dict(c)
    c.setdefault("swords", re.split(r"[_\-]|(?<=[a-z])(?=[A-Z])", c["search"]))
    c.setdefault("rwords", re.split(r"[_\-]|(?<=[a-z])(?=[A-Z])", c["replace"]))
    c["swords"] = [w.lower() for w in c["swords"]]
    c["rwords"] = [w.lower() for w in c["rwords"]]
    case = case_from_json(c)
    run_batch(ctx, [case], n_cli=1, label="replay")
    print("replayed", os.path.basename(path), "violations:", len(ctx.violations), "known:", sorted(ctx.known_printed))
