"""C17 — Plans survive being saved and reloaded.

translate   translate/serde_schema.py: #[serde(...)] attributes + field types of Plan/MatchHunk/Rename/Stats/RenameKind/
            Style/HistoryEntry -> Gen/SerdeSchema.lean, and the verdict it computed -> Gen/SerdeVerdict.lean
prove       RModel.Props.C17 (round-trip <-> guard for every schema/value; SchemaOk => round-trip; partial theorem for
            the listed fields; conditional witnesses; full theorem under `planVerdict = true`)
correspond  `serde plan|history <typed value>`: the real structs are built field by field in the harness, written
            with serde_json::to_string_pretty, decoded document + result of from_str compared with Serde.ser / Serde.de
oracle      (in-process) every generated value, written by write_plan / History::save, must parse to an equal value,
            re-serialise to the same document, and come back through the code's own side-effect-free loaders
            (status_operation for plan.json, History::load for history.json);
            (CLI load matrix) plans of every planner that can be applied (plan, rename, replace literal + regex; `search`
            stores nothing), written by the code (plan.json, --plan-out, a copied file, the stored copy under
            .renamify/plans/<id>.json, history.json), read back through every loader: apply <file>, default apply, status,
            history, undo <id>|latest, redo <id>|latest — each must accept what the code wrote and lead to the tree of
            the direct command.  (`apply <id>` of a stored copy is refused by design once the id is in the history:
            "History entry … already exists"; its loader is the same code path as redo's and is covered structurally.)
structure   translator fact about loaders: every site that parses a Plan / Vec<HistoryEntry> from disk, and every
            rejection depending on the parsed value after it (Gen.loaderSites / loaderConditions / loadersPlain)
witnesses   the three recorded defects re-observed on the CLI; every field the schema check reports beyond the
            recorded ones is replayed on the real serde with the value built from it (-> VIOLATION)
"""
import json
import os
import shutil

from . import common, gen
from .common import hexs

KNOWN_FIELDS = {}   # MatchHunk.replace / Rename.new_path were repaired by repo commit 7e5290d
LOAD_ERRORS = ("missing field", "invalid type", "unknown variant", "unknown field", "invalid length", "duplicate field",
               "Failed to parse plan", "EOF while parsing", "expected value", "expected `", "trailing characters",
               "invalid value", "invalid escape", "control character", "Plan file not found", "Plan with ID")

STRS = ["", "x", "foo_bar", " leading space", "trailing ", "é", "日本語", "Ünï cödé", "quote\"q", "apos'trophe",
        "back\\slash", "ctl\n\t\r", "\x01\x1f\x7f", "😀 emoji", "a/b", "nul\x00byte", "\u2028\u2029", "{\"json\":1}",
        "\ufeffbom", "--- a/x", "</script>", "\U0001F600", "a\U0001F600b é", "\U0001D4B3 math",
        "\U00010348\U0010FFFF", "\uffff\U00010000", "foo_\U0001F680_bar"]
PATHS = ["", "a.txt", "src/foo_bar.rs", "/abs/path/foo bar.txt", "./rel/../x", "dir with space/ünï.txt",
         "q\"uote's.txt", "back\\slash", "/", "..", "日本/語.md", "tab\there", "new\nline", "C:\\win\\path", "~/home",
         "/tmp/very/" + "long/" * 20 + "f", "docs_\U0001F600/old_name.txt", "/abs/\U0001D4B3/\U0001F680.rs", "\U00010348"]
NUM_MAX = {"u8": 2 ** 8 - 1, "u16": 2 ** 16 - 1, "u32": 2 ** 32 - 1, "u64": 2 ** 64 - 1, "usize": 2 ** 64 - 1}


# the request grammar of harness/src/ops_serde.rs, used to generate values when the translator cannot read the source
# (then only the real serde is exercised); same shape as translate.serde_schema.extract()
def _st(name, fields):
    return {"kind": "struct", "name": name, "fields": [{"rust": r, "name": r, "ty": t} for r, t in fields]}


_S, _P, _OS, _OP = ("str",), ("path",), ("opt", ("str",)), ("opt", ("path",))
FALLBACK_GRAMMAR = {
    "Style": {"kind": "enum", "name": "Style", "variants": [str(i) for i in range(14)]},
    "RenameKind": {"kind": "enum", "name": "RenameKind", "variants": ["file", "dir"]},
    "Stats": _st("Stats", [("files_scanned", ("num", "usize")), ("total_matches", ("num", "usize")),
                           ("matches_by_variant", ("map", ("num", "usize"))), ("files_with_matches", ("num", "usize"))]),
    "MatchHunk": _st("MatchHunk", [("file", _P), ("line", ("num", "u64")), ("byte_offset", ("num", "u32")),
                                   ("char_offset", ("num", "u32")), ("variant", _S), ("content", _S), ("replace", _S),
                                   ("start", ("num", "usize")), ("end", ("num", "usize")), ("line_before", _OS),
                                   ("line_after", _OS), ("coercion_applied", _OS), ("original_file", _OP),
                                   ("renamed_file", _OP), ("patch_hash", _OS)]),
    "Rename": _st("Rename", [("path", _P), ("new_path", _P), ("kind", ("ref", "RenameKind")), ("coercion_applied", _OS)]),
    "Plan": _st("Plan", [("id", _S), ("created_at", _S), ("search", _S), ("replace", _S), ("styles", ("vec", ("ref", "Style"))),
                         ("includes", ("vec", _S)), ("excludes", ("vec", _S)), ("matches", ("vec", ("ref", "MatchHunk"))),
                         ("paths", ("vec", ("ref", "Rename"))), ("stats", ("ref", "Stats")), ("version", _S),
                         ("created_directories", ("opt", ("vec", _P)))]),
    "HistoryEntry": _st("HistoryEntry", [("id", _S), ("created_at", _S), ("search", _S), ("replace", _S), ("styles", ("vec", _S)),
                                         ("includes", ("vec", _S)), ("excludes", ("vec", _S)), ("affected_files", ("map", _S)),
                                         ("renames", ("vec", ("pair", _P, _P))), ("backups_path", _P), ("revert_of", _OS),
                                         ("redo_of", _OS)]),
}


def grammar_shape(schema):
    """(struct, rust field, type) triples: what the harness needs to agree with"""
    return {n: ([(f["rust"], f["ty"]) for f in s["fields"]] if s["kind"] == "struct" else len(s["variants"]))
            for n, s in schema.items()}


# ------------------------------------------------------------------------------------------------
# typed values: generation from the extracted schema, token encoding (grammar of harness/src/ops_serde.rs)

def gen_value(rng, schema, ty, hint=None):
    k = ty[0]
    if k == "str":
        if hint in ("replace",) and rng.random() < 0.1:
            return ""
        return rng.choice(STRS)
    if k == "path":
        if hint in ("new_path",) and rng.random() < 0.1:
            return ""
        return rng.choice(PATHS)
    if k == "num":
        mx = NUM_MAX[ty[1]]
        return rng.choice([0, 1, 7, 255, 65536, 2 ** 31, 2 ** 32 - 1, 2 ** 53 + 1, mx, rng.randrange(mx + 1)]) % (mx + 1)
    if k == "bool":
        return rng.random() < 0.5
    if k == "opt":
        return None if rng.random() < 0.4 else ("some", gen_value(rng, schema, ty[1], hint))
    if k == "vec":
        return [gen_value(rng, schema, ty[1], hint) for _ in range(rng.choice([0, 0, 1, 2, 3]))]
    if k == "map":
        keys = rng.sample(STRS if hint != "affected_files" else PATHS, rng.choice([0, 1, 2, 3]))
        return [(key, gen_value(rng, schema, ty[1], hint)) for key in keys]
    if k == "pair":
        return (gen_value(rng, schema, ty[1], hint), gen_value(rng, schema, ty[2], hint))
    s = schema[ty[1]]
    if s["kind"] == "enum":
        return rng.randrange(len(s["variants"]))
    return {f["rust"]: gen_value(rng, schema, f["ty"], f["name"]) for f in s["fields"]}


def encode(schema, ty, v):
    k = ty[0]
    if k in ("str", "path"):
        return [hexs(v)]
    if k == "num":
        return [str(v)]
    if k == "bool":
        return ["t" if v else "f"]
    if k == "opt":
        return ["N"] if v is None else ["S"] + encode(schema, ty[1], v[1])
    if k == "vec":
        out = ["L", str(len(v))]
        for x in v:
            out += encode(schema, ty[1], x)
        return out
    if k == "map":
        out = ["M", str(len(v))]
        for key, x in v:
            out += [hexs(key)] + encode(schema, ty[1], x)
        return out
    if k == "pair":
        return encode(schema, ty[1], v[0]) + encode(schema, ty[2], v[1])
    s = schema[ty[1]]
    if s["kind"] == "enum":
        return [str(v)]
    out = []
    for f in s["fields"]:
        out += encode(schema, f["ty"], v[f["rust"]])
    return out


def expected_outcomes(plan):
    """what the property allows for a generated plan value, decided from the value alone:
    'de=ok same=1' always; if a listed field is empty the recorded failure is also acceptable (-> known)"""
    if any(h["replace"] == "" for h in plan["matches"]):
        return "de=missing:" + hexs("replace"), ("MatchHunk", "replace")
    if any(r["new_path"] == "" for r in plan["paths"]):
        return "de=missing:" + hexs("new_path"), ("Rename", "new_path")
    return None, None


def tail(line):
    """'ok <doc> de=...' -> 'de=...'"""
    i = line.find(" de=")
    return line[i + 1:] if i >= 0 else line


# ------------------------------------------------------------------------------------------------
# CLI scenarios

def is_load_error(err):
    t = err.decode("utf-8", "replace")
    return any(x in t for x in LOAD_ERRORS)


def run_steps(root, steps):
    """steps: list of argv lists; returns list of (rc, stderr tail)"""
    out = []
    for argv in steps:
        rc, so, se = common.cli(argv, root)
        out.append((rc, se.decode("utf-8", "replace")[-300:]))
    return out


EXTRA_NAMES = ["my file {t}.txt", "q'uo\"te {t}.txt", "ünï_{t}.txt", "日本 {t}.md", "back\\slash_{t}.rs", "tab\t{t}.txt",
               "dir with space/{t}_inner.txt", "$HOME_{t}.sh", "{t} (copy).txt", "emoji_\U0001F600_{t}.txt",
               "docs_\U0001F680/{t}.md", "\U0001D4B3{t}.rs"]


def tree_src(tree):
    """JSON-able copy of a generated tree (for replay files)"""
    out = {}
    for k, n in tree.items():
        out[k] = ["f", n[1].hex(), n[2]] if n[0] == "f" else (["d", n[1]] if n[0] == "d" else ["l", n[1]])
    return out


def tree_of_src(src):
    return {k: (("f", bytes.fromhex(n[1]), n[2]) if n[0] == "f" else (("d", n[1]) if n[0] == "d" else ("l", n[1])))
            for k, n in src.items()}


N_CLASSES = 9
ASTRAL = ["\U0001F600", "\U0001F680", "\U0001D4B3", "\U00010348"]


def gen_cli_case(rng, idx):
    swords, rwords = gen.pick_terms(rng)
    sstyle = rng.choice(["snake", "camel", "kebab", "pascal"])
    search = gen.render(sstyle, swords)
    cls = ["ordinary", "unusual_names", "non_ascii_replacement", "empty_replacement_content", "empty_replacement_names",
           "no_match", "relative_arg", "absolute_arg", "astral"][idx % N_CLASSES]
    repl = gen.render(rng.choice(["snake", "camel", "kebab"]), rwords)
    tree = gen.gen_tree(rng, swords, depth=3, max_entries=8, symlinks=False)
    path_arg = None
    if cls == "unusual_names":
        for n in rng.sample(EXTRA_NAMES, 4):
            name = n.format(t=gen.render(rng.choice(["snake", "kebab", "camel"]), swords))
            if "/" in name:
                tree[name.split("/")[0]] = ("d", 0o755)
            tree[name] = ("f", gen.gen_content(rng, swords, lines=(1, 3)), 0o644)
    elif cls == "non_ascii_replacement":
        repl = rng.choice(["bäz_qüx", "日本_語", "naïve_café", "baz_😀"])
        tree["notes é.txt"] = ("f", ("é " + search + " 日本\n").encode(), 0o644)
    elif cls == "empty_replacement_content":
        repl = ""
        tree = {"a.txt": ("f", ("a " + search + " b\n").encode(), 0o644),
                "sub": ("d", 0o755), "sub/b.md": ("f", ("x\n" + search + "\n").encode(), 0o644)}
    elif cls == "empty_replacement_names":
        repl = ""
        tree = {"a.txt": ("f", b"nothing here\n", 0o644), search + ".txt": ("f", b"x\n", 0o644)}
    elif cls == "no_match":
        tree = {"a.txt": ("f", b"nothing here\n", 0o644), "sub": ("d", 0o755), "sub/b.txt": ("f", b"still nothing\n", 0o644)}
    elif cls == "astral":
        # characters outside the Basic Multilingual Plane in a directory name, a file name, the text around matches
        # and (every other case) in the replacement
        e, e2 = rng.sample(ASTRAL, 2)
        if rng.random() < 0.5:
            repl = repl + "_" + e2
        tree = {"docs_" + e: ("d", 0o755),
                "docs_" + e + "/" + search + ".txt": ("f", ("let " + search + " = 1; // " + e + "\n" + e2 + search + e + "\n").encode(), 0o644),
                e2 + "_" + search + ".md": ("f", (search + " " + e + "\n").encode(), 0o644),
                "src": ("d", 0o755), "src/lib.rs": ("f", ("use crate::" + search + ";\n").encode(), 0o644)}
    elif cls in ("relative_arg", "absolute_arg"):
        tree = {("sub/" + k): v for k, v in tree.items()}
        tree["sub"] = ("d", 0o755)
        tree["outside.txt"] = ("f", (search + "\n").encode(), 0o644)
        path_arg = "sub"
    return {"class": cls, "search": search, "replace": repl, "tree": tree, "path_arg": path_arg}


def known_for_cli(plan_doc, err):
    """the recorded defect this failure falls under, decided mechanically: the plan document on disk lies outside
    the guard through the clause of the finding (a hunk without `replace` / a rename without `new_path`, i.e. the
    planner produced an empty string there) and the failure is the recorded one"""
    t = err if isinstance(err, str) else err.decode("utf-8", "replace")
    if plan_doc is None:
        return None
    if "missing field `replace`" in t and any("replace" not in m for m in plan_doc.get("matches", [])):
        return "replace"
    if "missing field `new_path`" in t and any("new_path" not in r for r in plan_doc.get("paths", [])):
        return "new_path"
    return None


def stored_plan_doc(root):
    """the newest plan copy under .renamify/plans, as a raw JSON document (None if unreadable)"""
    d = os.path.join(root, ".renamify", "plans")
    try:
        files = sorted((os.path.join(d, f) for f in os.listdir(d)), key=os.path.getmtime)
        return json.load(open(files[-1])) if files else None
    except (OSError, ValueError):
        return None


def stored_copy_problem(doc, root, before, after):
    """The plan copy stored for undo/redo, decoded by an independent JSON reader, must describe the tree it was made
    for: every planned path existed, every hunk's recorded text is what the file had at that position, and every
    replacement text / new name is present in the tree after the direct apply.  Returns a description or None."""
    if doc is None:
        return "no readable plan copy under .renamify/plans"
    def rel(p):
        return os.path.relpath(p, root) if os.path.isabs(p) else os.path.normpath(p)
    after_names = {os.path.basename(k) for k in after}
    after_text = b"\n".join(v[2] for v in after.values() if v[0] == "f")
    for r in doc.get("paths", []):
        if rel(r["path"]) not in before:
            return f"rename source {r['path']!r} is not a path of the tree"
        if r.get("new_path") and os.path.basename(r["new_path"]) not in after_names:
            return f"rename target name {os.path.basename(r['new_path'])!r} does not exist after the apply"
    for m in doc.get("matches", []):
        node = before.get(rel(m["file"]))
        if node is None or node[0] != "f":
            return f"hunk file {m['file']!r} is not a file of the tree"
        if node[2][m["start"]:m["end"]] != m["content"].encode():
            return f"hunk text {m['content']!r} is not what {m['file']!r} has at {m['start']}..{m['end']}"
        if m.get("replace") and m["replace"].encode() not in after_text:
            return f"replacement text {m['replace']!r} is nowhere in the tree after the apply"
    return None


class Runner:
    """runs CLI commands in one directory and keeps the concrete command sequence for the replay file"""
    def __init__(self, root, log, label, scratch):
        self.root, self.log, self.label, self.scratch = root, log, label, scratch

    def __call__(self, argv):
        rc, so, se = common.cli(argv, self.root)
        self.log.append({"in": self.label, "argv": [a.replace(self.scratch, "<scratch>") for a in argv], "rc": rc,
                         "stderr": se.decode("utf-8", "replace")[-300:].replace(self.scratch, "<scratch>")})
        return rc, so, se


def stored_id(root):
    """id of the newest plan copy under .renamify/plans"""
    d = os.path.join(root, ".renamify", "plans")
    try:
        files = sorted((f for f in os.listdir(d) if f.endswith(".json")), key=lambda f: os.path.getmtime(os.path.join(d, f)))
        return files[-1][:-5] if files else None
    except OSError:
        return None


def exercise_stored(ctx, run, root, before, after, info, use_latest, tag):
    """After a direct command succeeded in `root`: the plan copy and the history it wrote are read back through every
    loader the CLI offers — history, status, undo <id>, redo <id> — each of which must accept what the code wrote;
    undo must give `before` back (checked by C01, counted here) and redo (= apply of the stored copy) must give `after`.
    All preconditions of undo/redo hold in this sequence, so a refusal that leaves the tree untouched can only come
    from loading the stored plan / history.  Returns a verdict or None."""
    pid = stored_id(root)
    info["stored_id"] = pid
    doc = stored_plan_doc(root)
    prob = stored_copy_problem(doc, root, before, after)
    if prob is not None:
        info["stored_copy_problem"] = prob
    rc, so, se = run(["history"])
    if rc != 0 or (pid and pid.encode() not in so):
        return ("history-load", None)
    rc, so, se = run(["status"])
    if rc != 0:
        return ("status-load", None)
    target = "latest" if use_latest or not pid else pid
    rcu, sou, seu = run(["undo", target])
    undone = common.snapshot(root)
    if rcu != 0 and is_load_error(seu):
        return ("undo-load", known_for_cli(doc, seu))
    if prob is not None:
        return ("stored-copy", None)
    if rcu != 0 and undone == after:
        return ("undo-refused", None)
    if rcu != 0:
        ctx.count(f"cli:{tag}:undo_failed_midway")     # the tree was touched: restoring is C01's subject
        return None
    ctx.count(f"cli:{tag}:undo_ok")
    if undone != before:
        ctx.count(f"cli:{tag}:undo_tree_differs")      # C01's subject, recorded only
        return None
    rcr, sor, ser_ = run(["redo", target if target == "latest" else pid])
    redone = common.snapshot(root)
    if rcr != 0 and is_load_error(ser_):
        return ("redo-load", known_for_cli(doc, ser_))
    if rcr != 0 and redone == undone:
        return ("redo-refused", None)
    if rcr != 0:
        ctx.count(f"cli:{tag}:redo_failed_midway")
        return None
    ctx.count(f"cli:{tag}:redo_ok")
    if redone != after:
        # redo applies the stored plan copy: it must have the effect the direct command had
        info["tree_diff"] = common.snap_diff(after, redone)
        return ("redo-tree", None)
    # the history now holds three entries (apply, revert, redo): it must still load
    rc, so, se = run(["history"])
    if rc != 0:
        return ("history-load", None)
    return None


LOAD_MODES = ["file", "default", "plan_out"]


def cli_saved_vs_direct(ctx, case, mode="file", use_latest=True):
    """(a) plan -> plan file written by the code -> apply (from a copied file / the default plan.json / a --plan-out
    file)   vs   rename -y   on identical trees;   (b) the stored copy and history of the direct run"""
    with common.scratch() as d:
        t1, t2 = os.path.join(d, "t1"), os.path.join(d, "t2")
        os.makedirs(t1); os.makedirs(t2)
        common.materialize(t1, case["tree"]); common.materialize(t2, case["tree"])
        before = common.snapshot(t1)
        seq = []
        run1, run2 = Runner(t1, seq, "t1", d), Runner(t2, seq, "t2", d)
        extra = []
        if case["path_arg"]:
            extra = [case["path_arg"] if case["class"] == "relative_arg" else os.path.join(t1, case["path_arg"])]
        plan_path = os.path.join(t1, ".renamify", "plan.json")
        saved = os.path.join(d, "saved plan é.json")
        if mode == "plan_out":
            plan_path = saved
        if case.get("overwrite"):
            # an earlier plan for a LONGER replacement was written to the same path and never applied: the plan that counts
            # must replace it completely
            run1(["plan", case["search"], case["replace"] + "_and_a_long_tail_from_an_earlier_plan"] + extra
                 + (["--plan-out", saved] if mode == "plan_out" else []) + ["--no-auto-init", "--quiet"])
        if mode == "plan_out":
            rc, so, se = run1(["plan", case["search"], case["replace"]] + extra + ["--plan-out", saved, "--no-auto-init", "--quiet"])
        else:
            rc, so, se = run1(["plan", case["search"], case["replace"]] + extra + ["--no-auto-init", "--quiet"])
        if rc != 0 or not os.path.exists(plan_path):
            ctx.count("cli:plan_failed")
            ctx.notes.append(f"plan failed ({case['class']}, {case['search']!r} -> {case['replace']!r}): exit {rc}: "
                             + se.decode("utf-8", "replace").strip()[-200:].replace(d, "<scratch>"))
            return None
        plan = json.load(open(plan_path))
        size = len(plan["matches"]) + len(plan["paths"])
        info = {"class": case["class"], "load_mode": mode, "overwrite": bool(case.get("overwrite")), "search": case["search"], "replace": case["replace"],
                "path_arg": case["path_arg"], "tree": common.snap_digest(before), "tree_src": tree_src(case["tree"]),
                "plan_size": size, "sequence": seq}
        ctx.case(("cli-a", case["class"], mode, case["search"], case["replace"], sorted(case["tree"])), nontrivial=size > 0)
        ctx.count("cli:a:" + case["class"])
        ctx.count("cli:a:mode=" + mode)
        verdict = None
        if mode == "default":
            # the pending plan is also what `status` reads
            rcs, sos, ses = run1(["status"])
            if rcs != 0 or plan["id"].encode() not in sos:
                verdict = ("status-load", None)
            rc1, so1, se1 = run1(["apply", "--no-auto-init", "--quiet"])
        else:
            if mode == "file":
                shutil.copy(plan_path, saved)
                os.unlink(plan_path)
            rc1, so1, se1 = run1(["apply", saved, "--no-auto-init", "--quiet"])
        after1 = common.snapshot(t1)
        extra2 = []
        if case["path_arg"]:
            extra2 = [case["path_arg"] if case["class"] == "relative_arg" else os.path.join(t2, case["path_arg"])]
        rc2, so2, se2 = run2(["rename", case["search"], case["replace"]] + extra2 + ["-y", "--no-auto-init", "--quiet"])
        after2 = common.snapshot(t2)
        info.update({"apply_saved_rc": rc1, "direct_rc": rc2, "apply_saved_stderr": se1.decode("utf-8", "replace")[-300:],
                     "direct_stderr": se2.decode("utf-8", "replace")[-300:]})
        if verdict is not None:
            pass
        elif rc1 != 0 and is_load_error(se1):
            # the saved plan could not be read back
            verdict = ("load", known_for_cli(plan, se1))
        elif (rc1 == 0) != (rc2 == 0):
            verdict = ("outcome", None)
        elif rc1 == 0 and after1 != after2:
            verdict = ("tree", None)
            info["tree_diff"] = common.snap_diff(after2, after1)
        elif rc1 != 0:
            ctx.count("cli:a:both_fail")
        # (b) the stored copy + history: of the direct run, and of the run that applied the saved plan
        vb = None
        if rc2 == 0 and size > 0:
            vb = exercise_stored(ctx, run2, t2, before, after2, info, use_latest, "b")
        if vb is None and verdict is None and rc1 == 0 and size > 0 and mode != "default":
            vb = exercise_stored(ctx, run1, t1, before, after1, info, not use_latest, "b1")
        return info, verdict, vb


def judge(ctx, info, verdict, where):
    """verdict = (kind, known field or None). Known only if listed and re-observed exactly; else VIOLATION."""
    kind, field = verdict
    slug = None
    if field == "replace":
        slug = "empty_replace_undo" if kind in ("undo-load", "redo-load") else "empty_replace_apply"
    elif field == "new_path":
        slug = "empty_new_path"
    if slug and ctx.known(slug):
        ctx.count("cli:known:" + slug)
        return True
    ctx.violation("input", {"op": "cli", "where": where, **info},
                  expected="the saved / stored plan loads and has the effect of the direct command",
                  observed={"kind": kind, "apply_saved_rc": info.get("apply_saved_rc"), "direct_rc": info.get("direct_rc"),
                            "undo_rc": info.get("undo_rc"), "stderr": info.get("apply_saved_stderr") if kind in ("load", "outcome", "tree") else info.get("undo_stderr") or info.get("redo_stderr"),
                            "stored_copy_problem": info.get("stored_copy_problem"), "tree_diff": info.get("tree_diff"),
                            "failing_command": next((c for c in reversed(info.get("sequence", [])) if c["rc"] != 0), None)},
                  note="plan written to disk cannot be read back, or applying it differs from applying directly")
    return False


def cli_replace(ctx, rng, term, pattern, repl, regex, use_latest):
    """`replace [--no-regex] PATTERN REPL -y` (the planner `create_simple_plan`; empty, non-ASCII and astral-plane
    replacements; regex with a capture group), then every loader of what it stored: history, status, undo, redo"""
    tree = {"a.txt": ("f", ("keep " + term + " tail\nsecond " + term + " line\n").encode(), 0o644),
            "é dir": ("d", 0o755), "é dir/b c.txt": ("f", ("x " + term + "\n").encode(), 0o644)}
    with common.scratch() as d:
        common.materialize(d, tree)
        before = common.snapshot(d)
        seq = []
        run = Runner(d, seq, "t", d)
        rc, so, se = run(["replace"] + ([] if regex else ["--no-regex"]) + [pattern, repl, "-y", "--no-auto-init"])
        after = common.snapshot(d)
        info = {"class": "replace_regex" if regex else "replace_no_regex", "search": pattern, "replace": repl, "term": term,
                "regex": regex, "use_latest": use_latest,
                "tree": common.snap_digest(before), "tree_src": tree_src(tree), "replace_rc": rc, "sequence": seq,
                "replace_stderr": se.decode("utf-8", "replace")[-300:]}
        ctx.case(("cli-replace", term, pattern, repl, regex))
        ctx.count("cli:replace:" + ("regex" if regex else "literal"))
        if rc != 0 or after == before:
            ctx.count("cli:replace:not_applied")
            ctx.notes.append(f"replace not applied ({pattern!r} -> {repl!r}, regex={regex}): exit {rc}: " + info["replace_stderr"][-160:])
            return None
        v = exercise_stored(ctx, run, d, before, after, info, use_latest, "replace")
        return (info, v) if v is not None else None


def cli_non_utf8(ctx):
    """guard clause: a file name that is not UTF-8 cannot be written into a plan; the CLI must report that (no panic)"""
    with common.scratch() as d:
        with open(os.path.join(d.encode(), b"foo_bar_\xff.txt"), "wb") as fh:
            fh.write(b"foo_bar\n")
        rc, so, se = common.cli(["plan", "foo_bar", "baz_qux", "--no-auto-init", "--quiet"], d)
        t = se.decode("utf-8", "replace")
        ctx.count("cli:non_utf8:" + ("reported" if rc not in (0, 101) and "invalid UTF-8" in t else f"rc={rc}"))
        ctx.notes.append(f"non-UTF-8 file name: `plan` exit {rc}: {t.strip()[-160:]}")


# ------------------------------------------------------------------------------------------------
# recorded defects: the exact scenarios of corpus/C17/*.json

SCENARIOS = {
    "empty_replace_undo": {
        "tree": {"a.txt": "a foo_bar b\n"},
        "steps": [["rename", "foo_bar", "", "-y", "--no-auto-init", "--quiet"], ["undo", "latest"]],
        "expect": {"rcs": [0, "nonzero"], "stderr_last": "missing field `replace`", "tree": {"a.txt": "a  b\n"}}},
    "empty_replace_apply": {
        "tree": {"a.txt": "a foo_bar b\n"},
        "steps": [["plan", "foo_bar", "", "--no-auto-init", "--quiet"], ["apply", "--no-auto-init", "--quiet"]],
        "expect": {"rcs": [0, "nonzero"], "stderr_last": "missing field `replace`", "tree": {"a.txt": "a foo_bar b\n"}}},
    "empty_new_path": {
        "tree": {"a.txt": "nothing here\n", "foo_bar.txt": "x\n"},
        "steps": [["plan", "foo_bar", "", "--no-auto-init", "--quiet"], ["apply", "--no-auto-init", "--quiet"]],
        "expect": {"rcs": [0, "nonzero"], "stderr_last": "missing field `new_path`",
                   "tree": {"a.txt": "nothing here\n", "foo_bar.txt": "x\n"}}},
}


def run_scenario(sc):
    """returns (reproduced exactly as recorded, observation)"""
    with common.scratch() as d:
        common.materialize(d, {k: ("f", v.encode(), 0o644) for k, v in sc["tree"].items()})
        res = run_steps(d, sc["steps"])
        snap = common.snapshot(d)
        tree = {k: v[2].decode("utf-8", "replace") for k, v in snap.items() if v[0] == "f"}
    exp = sc["expect"]
    ok = len(res) == len(exp["rcs"])
    for (rc, _), want in zip(res, exp["rcs"]):
        ok = ok and ((rc != 0) if want == "nonzero" else rc == want)
    ok = ok and exp["stderr_last"] in res[-1][1] and tree == exp["tree"]
    return ok, {"steps": [{"argv": a, "rc": rc, "stderr": se} for a, (rc, se) in zip(sc["steps"], res)], "tree": tree}


def no_load_failure(obs):
    """no step failed because a plan could not be read (a step may still fail for a reason that is not C17's:
    once the plan loads, `apply` of a rename to an empty path fails exactly like the direct command)"""
    return not any(s["rc"] != 0 and is_load_error(s["stderr"].encode()) for s in obs["steps"])


# ------------------------------------------------------------------------------------------------

def run(ctx):
    ctx.cov["rule"] = ("serde: generated Plan / HistoryEntry values (every Option None/Some, empty and non-empty vectors and "
                       "maps, empty strings, non-ASCII, quotes/backslashes/control characters, absolute and relative paths, "
                       "boundary numbers): 3000 plans + 600 history entries (quick), 12000 + 2400 (thorough); "
                       "cli: 9 input classes (ordinary, unusual names, non-ASCII replacement, empty replacement with content / "
                       "name matches, no match, relative / absolute path argument, astral-plane characters in names, text and replacement) x 6 (quick) or x 30 (thorough) trees, each "
                       "plan->apply <saved file> vs rename -y, then undo/redo; replace --no-regex with empty replacement. "
                       "non-trivial = plan with at least one hunk or rename; distinct = distinct request line / (class, terms, tree)")
    ctx.assumptions += ["serde_json string escaping / number formatting (documents are compared after decoding)",
                        "serde derive semantics of skip_serializing_if / default / Option / rename_all / unit variants as "
                        "written in RModel.Model.Serde, compared with the real derive on every run",
                        "paths are valid UTF-8 (otherwise serialisation is refused: guard clause, probed on the CLI)"]
    # 1 translate -------------------------------------------------------------------------------------
    schema = None
    try:
        from translate import serde_schema
        schema = serde_schema.extract()
        serde_schema.run()
        facts = serde_schema.loader_facts(common.REPO)
        conds = serde_schema.loaders_plain(facts)
        ctx.cov["loaders"] = {"sites": [f"{f['file']}: fn {f['fn']}: serde_json::{f['api']} -> {f['type']}" for f in facts],
                              "plain": not conds, "conditions": [f"{a}: fn {b}: if {c}" for a, b, c in conds]}
        if conds:
            # the loaders refuse values that parse: the theorem `plan_load_roundtrip_all` no longer applies; the CLI
            # load matrix below looks for a plan written by the code that the code then refuses
            ctx.broke("loader", "acceptance condition after parsing a persisted value", ctx.cov["loaders"]["conditions"])
    except Exception as ex:   # a source the translator cannot read is a broken tie
        ctx.broke("translator", "translate/serde_schema.py", repr(ex))
    try:
        from translate import execflags
        execflags.run()          # `planWriteTruncates` (how write_plan opens an existing plan file)
    except Exception as ex:
        ctx.broke("translator", "translate/execflags.py", repr(ex))
    # 2 prove -----------------------------------------------------------------------------------------
    proved = ctx.prove("RModel.Props.C17")
    # 3 rebuild ---------------------------------------------------------------------------------------
    ok, msg = common.cargo_build()
    if not ok:
        ctx.broke("build", "cargo", msg)
        return
    if not proved:
        okl, out = common.lean_build([])     # the driver does not depend on the Props module
        if not okl:
            ctx.broke("build", "rmodel", out[-1500:])
    rng = ctx.rng
    have_model = os.path.exists(common.RMODEL_BIN) and schema is not None

    # 4 what the schema check of the model says ---------------------------------------------------------
    new_fields = []
    if have_model:
        lines = common.run_model(["serdeschema plan", "serdeschema history"])
        for which, line in zip(("plan", "history"), lines):
            kv = dict(x.split("=", 1) for x in line.split()[1:])
            off = [tuple(x.split(".", 1)) for x in kv.get("offending", "").split(",") if x]
            ctx.cov.setdefault("schema", {})[which] = {"ok": kv.get("ok"), "wf": kv.get("wf"), "offending": [".".join(o) for o in off]}
            if kv.get("wf") != "true":
                ctx.broke("schema", which, "generated schema is not well-formed (duplicate names / Option<Option>): " + line)
            for o in off:
                if o not in KNOWN_FIELDS:
                    new_fields.append((which, o))
        # every reported field beyond the recorded ones: replay the value built from it on the real serde
        for which, (sn, fn) in new_fields:
            w = common.run_model([f"serdewitness {which} {hexs(sn)} {hexs(fn)}"])[0]
            if not w.startswith("w "):
                ctx.broke("schema", f"{sn}.{fn}", "no witness value could be built: " + w)
                continue
            req = f"serde {which} " + w[2:]
            impl = common.run_impl([req])[0]
            model = common.run_model([req])[0]
            ctx.case(req)
            if tail(impl) != "de=ok same=1 load=ok":
                ctx.violation("input", {"op": "serde", "request": req, "field": f"{sn}.{fn}"},
                              expected="de=ok same=1 load=ok", observed=tail(impl), model_prediction=tail(model),
                              note=f"{sn}.{fn} is dropped when writing (skip_serializing_if) but not restored when reading; "
                                   "the value with that field skipped does not survive save/load on the real serde")
            else:
                ctx.broke("schema", f"{sn}.{fn}", {"model": tail(model), "impl": tail(impl), "request": req[:300]})

    # 5 correspondence + in-process oracle --------------------------------------------------------------
    if schema is not None and grammar_shape(schema) != grammar_shape(FALLBACK_GRAMMAR):
        ctx.broke("harness", "request grammar", "the persisted types changed shape (fields / types); harness/src/ops_serde.rs and "
                  "FALLBACK_GRAMMAR in checks/c17.py have to follow")
    if schema is None:
        schema = FALLBACK_GRAMMAR
    if True:   # (kept as a block: values are generated from the extracted schema or the fallback grammar)
        n_plan = 12000 if ctx.thorough else 3000
        n_hist = 2400 if ctx.thorough else 600
        reqs, meta = [], []
        for i in range(n_plan):
            v = gen_value(rng, schema, ("ref", "Plan"))
            if i % 50 == 0:           # a plan with nothing in it, and one search-style plan
                v["matches"], v["paths"], v["created_directories"] = [], [], None
            reqs.append("serde plan " + " ".join(encode(schema, ("ref", "Plan"), v)))
            meta.append(("plan", v))
        for i in range(n_hist):
            v = gen_value(rng, schema, ("ref", "HistoryEntry"))
            reqs.append("serde history " + " ".join(encode(schema, ("ref", "HistoryEntry"), v)))
            meta.append(("history", v))
        if have_model:
            res = common.correspond(ctx, "serde: to_string_pretty/from_str vs Serde.ser/Serde.de", reqs,
                                    describe=lambda r: r[:400])
            impl_lines = [i for _, i, _ in res]
            model_lines = [m for _, _, m in res]
        else:
            impl_lines = common.run_impl(reqs)
            model_lines = [None] * len(reqs)
        for req, impl, model, (which, v) in zip(reqs, impl_lines, model_lines, meta):
            nontrivial = which == "history" or bool(v["matches"] or v["paths"])
            ctx.case(req, nontrivial)
            got = tail(impl)
            ctx.count(f"serde:{which}:" + got.split(":")[0])
            if got == "de=ok same=1 load=ok":
                continue
            ctx.violation("input", {"op": "serde", "request": req, "value": v}, expected="de=ok same=1 load=ok", observed=got,
                          model_prediction=tail(model) if model else None,
                          note=("written over an earlier, longer document at the same path the file does not hold exactly the new "
                                "document (ow=differs:<new document is a prefix>+<extra bytes>)" if " ow=" in impl else
                                "a generated value written by write_plan / History::save does not load back to the same value"))
            break      # one in-process counterexample is enough; go on to see whether the CLI reaches it
        ctx.sample({"op": "serde", "request": reqs[0][:300], "impl": impl_lines[0][-60:]})

    # 6 CLI oracle ---------------------------------------------------------------------------------------
    per_class = 30 if ctx.thorough else 6
    for i in range(N_CLASSES * per_class):
        case = gen_cli_case(rng, i)
        case["overwrite"] = ((i // N_CLASSES) // 3) % 2 == 1     # every load mode with and without an earlier plan at the path
        if case["overwrite"]:
            ctx.count("cli:a:over-an-earlier-longer-plan")
        r = cli_saved_vs_direct(ctx, case, mode=LOAD_MODES[(i // N_CLASSES) % 3], use_latest=(i // N_CLASSES) % 2 == 0)
        if r is None:
            continue
        info, va, vb = r
        if i < N_CLASSES:
            ctx.sample({"op": "cli", **{k: info[k] for k in ("class", "search", "replace", "plan_size", "apply_saved_rc", "direct_rc")}}, limit=10)
        for v, where in ((va, "apply saved plan vs direct"), (vb, "stored plan copy (undo/redo)")):
            if v is not None and not judge(ctx, info, v, where):
                return
    # (term in the files, pattern, replacement, regex?)
    reps = [("foo_bar", " foo_bar", "", False), ("日本", " 日本", "", False), ("foo_bar", " foo_bar", " \U0001F600x", False),
            ("日本", " 日本", " \U0001D4B3\U0001F680", False), ("foo_bar", "fo+_(bar)", "baz_$1", True),
            ("foo_bar", " foo_bar", " qux", False), ("fooBar", "foo(B)ar", "é$1\U0001F600", True)]
    if ctx.thorough:
        reps += [("fooBar", " fooBar", "", False), ("x", " x", "", False), ("foo_bar", " foo_bar", " é\U00010348", False),
                 ("\U0001F600", " \U0001F600", " y", False), ("foo_bar", "fo{2}_bar", "", True), ("日本", "日(本)", "$1$1", True),
                 ("foo.bar", "foo\\.bar", "foo-bar", True)]
    for n, (term, pattern, repl, regex) in enumerate(reps):
        r = cli_replace(ctx, rng, term, pattern, repl, regex, use_latest=n % 2 == 0)
        if r is not None and not judge(ctx, r[0], r[1], "replace, then history / status / undo / redo of what it stored"):
            return
    cli_non_utf8(ctx)

    # 7 recorded defects, exactly as in corpus/C17 --------------------------------------------------------
    for slug, sc in SCENARIOS.items():
        okk, obs = run_scenario(sc)
        ctx.cov.setdefault("witnesses", {})[slug] = "reproduced" if okk else "not reproduced"
        if okk:
            if not ctx.known(slug):
                ctx.violation("input", {"op": "scenario", "slug": slug, **sc}, expected="every step exits 0",
                              observed=obs, note="plan with an empty replacement cannot be loaded again")
                return
        elif not no_load_failure(obs):
            # fails, but not as recorded: a different defect
            ctx.violation("input", {"op": "scenario", "slug": slug, **sc}, expected="every step exits 0 (or the recorded failure)",
                          observed=obs, note="recorded scenario fails in a different way than recorded")
            return
        else:
            ctx.notes.append(f"recorded defect {slug} no longer reproduces (repaired)")


def replay(ctx, path):
    obj = json.load(open(path))
    case = obj.get("case", {})
    ok, msg = common.cargo_build()
    if not ok:
        ctx.broke("build", "cargo", msg)
        return
    if isinstance(case, dict) and case.get("op") == "scenario":
        sc = {"tree": case["tree"], "steps": case["steps"], "expect": case["expect"]}
        okk, obs = run_scenario(sc)
        print(json.dumps(obs, indent=1, ensure_ascii=False)[:2000])
        if okk:
            if not ctx.known(case.get("slug", "")):
                ctx.violation("input", case, expected="every step exits 0", observed=obs)
        elif not no_load_failure(obs):
            ctx.violation("input", case, expected="every step exits 0", observed=obs)
        else:
            print("no longer reproduces: every step exits 0")
    elif isinstance(case, dict) and case.get("op") == "serde":
        impl = common.run_impl([case["request"]])[0]
        model = common.run_model([case["request"]])[0] if os.path.exists(common.RMODEL_BIN) else ""
        print("impl :", tail(impl)); print("model:", tail(model))
        if tail(impl) != "de=ok same=1 load=ok":
            alt = None
            if "value" in case and isinstance(case["value"], dict) and "matches" in case["value"]:
                alt, field = expected_outcomes(case["value"])
            if not (alt and tail(impl) == alt and ctx.known("empty_replace_undo" if "7265706c616365" in alt else "empty_new_path")):
                ctx.violation("input", case, expected="de=ok same=1 load=ok", observed=tail(impl), model_prediction=tail(model))
    elif isinstance(case, dict) and case.get("op") == "cli" and str(case.get("class", "")).startswith("replace_"):
        r = cli_replace(ctx, ctx.rng, case["term"], case["search"], case["replace"], case["regex"], case["use_latest"])
        if r is None:
            print("no longer reproduces: replace, history, status, undo, redo all accepted what was stored")
        else:
            print(json.dumps(r[0]["sequence"], indent=1, ensure_ascii=False)[:2500])
            judge(ctx, r[0], r[1], case.get("where", "replace, then the loaders"))
    elif isinstance(case, dict) and case.get("op") == "cli" and "tree_src" in case:
        c = {"class": case["class"], "search": case["search"], "replace": case["replace"], "path_arg": case.get("path_arg"),
             "tree": tree_of_src(case["tree_src"])}
        r = cli_saved_vs_direct(ctx, c, mode=case.get("load_mode", "file"))
        if r is None:
            print("plan failed")
            return
        info, va, vb = r
        print(json.dumps({k: v for k, v in info.items() if k not in ("tree", "tree_src")}, indent=1, ensure_ascii=False)[:2500])
        for v, where in ((va, "apply saved plan vs direct"), (vb, "stored plan copy (undo/redo)")):
            if v is not None:
                judge(ctx, info, v, where)
    else:
        print(json.dumps(obj, indent=1, ensure_ascii=False)[:3000])
