"""Generators shared by the checks: an independent reference style renderer, neutral vocabulary,
trees with occurrences of a term in file contents and in names, and wire encoding of trees/plans."""
import os

from .common import hexs

STYLES = ["snake", "kebab", "camel", "pascal", "screaming_snake", "title", "train", "screaming_train",
          "dot", "lower_flat", "upper_flat", "sentence", "lower_sentence", "upper_sentence"]
V12 = [s for s in STYLES if s not in ("lower_flat", "upper_flat")]
DEFAULT_STYLES = ["snake", "kebab", "camel", "pascal", "screaming_snake", "train", "screaming_train", "title",
                  "sentence", "lower_sentence", "upper_sentence"]
# Rust enum names, CLI names
RUST_NAME = {"snake": "Snake", "kebab": "Kebab", "camel": "Camel", "pascal": "Pascal",
             "screaming_snake": "ScreamingSnake", "title": "Title", "train": "Train",
             "screaming_train": "ScreamingTrain", "dot": "Dot", "lower_flat": "LowerFlat", "upper_flat": "UpperFlat",
             "sentence": "Sentence", "lower_sentence": "LowerSentence", "upper_sentence": "UpperSentence"}
CLI_NAME = {"snake": "snake", "kebab": "kebab", "camel": "camel", "pascal": "pascal",
            "screaming_snake": "screaming-snake", "title": "title", "train": "train",
            "screaming_train": "screaming-train", "dot": "dot", "lower_flat": "lower-flat",
            "upper_flat": "upper-flat", "sentence": "sentence", "lower_sentence": "lower-sentence",
            "upper_sentence": "upper-sentence"}

# neutral vocabulary: lower-case words of length >= 3, none is or starts with a default acronym,
# none has an irregular plural
VOCAB = ["foo", "bar", "baz", "qux", "alpha", "gamma", "delta", "widget", "gadget", "tiger", "lemon", "nova"]
FILLER = ["the", "value", "of", "some", "thing", "here", "let", "x", "return", "call"]


def cap(w):
    return w[:1].upper() + w[1:].lower()


def render(style, words):
    """independent reference renderer (20 lines, no knowledge of the Rust code)"""
    ws = [w.lower() for w in words]
    if style == "snake": return "_".join(ws)
    if style == "kebab": return "-".join(ws)
    if style == "camel": return ws[0] + "".join(cap(w) for w in ws[1:])
    if style == "pascal": return "".join(cap(w) for w in ws)
    if style == "screaming_snake": return "_".join(w.upper() for w in ws)
    if style == "title": return " ".join(cap(w) for w in ws)
    if style == "train": return "-".join(cap(w) for w in ws)
    if style == "screaming_train": return "-".join(w.upper() for w in ws)
    if style == "dot": return ".".join(ws)
    if style == "lower_flat": return "".join(ws)
    if style == "upper_flat": return "".join(w.upper() for w in ws)
    if style == "sentence": return " ".join([cap(ws[0])] + ws[1:])
    if style == "lower_sentence": return " ".join(ws)
    if style == "upper_sentence": return " ".join(w.upper() for w in ws)
    raise ValueError(style)


def pick_terms(rng, nmin=2, nmax=3):
    n = rng.randint(nmin, nmax)
    s = rng.sample(VOCAB, n)
    m = rng.randint(1, 3)
    r = rng.sample([w for w in VOCAB if w not in s], m)
    return s, r


NAME_STYLES = ["snake", "kebab", "camel", "pascal", "screaming_snake", "train", "screaming_train"]


def gen_line(rng, swords, styles=None, max_occ=3, multibyte=True):
    """a line of text with 0..max_occ occurrences of the term in random styles"""
    styles = styles or NAME_STYLES
    parts = []
    for _ in range(rng.randint(0, max_occ)):
        parts.append(rng.choice(FILLER))
        if multibyte and rng.random() < 0.25:
            parts.append(rng.choice(["é", "日本", "ß", "→", "😀"]))
        occ = render(rng.choice(styles), swords)
        wrap = rng.choice(["{}", "{}", "({})", "\"{}\"", "[{}]", "{};", "x.{}", "{}()", "::{}", "/{}/"])
        parts.append(wrap.format(occ))
    parts.append(rng.choice(FILLER))
    return " ".join(parts)


def gen_content(rng, swords, styles=None, lines=(0, 6), crlf=None, final_nl=None):
    n = rng.randint(*lines)
    if crlf is None:
        crlf = rng.random() < 0.2
    nl = "\r\n" if crlf else "\n"
    body = nl.join(gen_line(rng, swords, styles) for _ in range(n))
    if n and (final_nl if final_nl is not None else rng.random() < 0.8):
        body += nl
    return body.encode()


def gen_name(rng, swords, with_term, ext=None):
    style = rng.choice(NAME_STYLES[:5])
    if with_term:
        core = render(style, swords)
        r = rng.random()
        if r < 0.3:
            sep = {"snake": "_", "kebab": "-", "screaming_snake": "_"}.get(style)
            if sep:
                pre = rng.choice(["my", "the"]) if style != "screaming_snake" else "MY"
                core = pre + sep + core
        elif r < 0.5:
            sep = {"snake": "_", "kebab": "-", "screaming_snake": "_"}.get(style)
            if sep:
                suf = rng.choice(["test", "impl"]) if style != "screaming_snake" else "TEST"
                core = core + sep + suf
    else:
        core = rng.choice(["main", "lib", "util", "README", "notes", "src", "docs", "data"])
    if ext is None:
        ext = rng.choice(["", ".txt", ".rs", ".md", ".js"])
    return core + ext


def gen_tree(rng, swords, depth=3, max_entries=12, modes=True, symlinks=True, p_term_name=0.5):
    """dict rel -> node; directories explicit"""
    tree = {}

    def fill(prefix, d):
        n = rng.randint(1, 3)
        for _ in range(n):
            if len(tree) >= max_entries:
                return
            kind = rng.random()
            if kind < 0.35 and d < depth:
                name = gen_name(rng, swords, rng.random() < p_term_name, ext="")
                rel = prefix + name
                if rel in tree or any(k.lower() == rel.lower() for k in tree):
                    continue
                tree[rel] = ("d", rng.choice([0o755, 0o755, 0o750]) if modes else 0o755)
                fill(rel + "/", d + 1)
            elif kind < 0.42 and symlinks:
                name = gen_name(rng, swords, rng.random() < 0.3)
                rel = prefix + name
                if rel in tree or any(k.lower() == rel.lower() for k in tree):
                    continue
                tree[rel] = ("l", rng.choice(["nowhere", "../x", render("snake", swords)]))
            else:
                name = gen_name(rng, swords, rng.random() < p_term_name)
                rel = prefix + name
                if rel in tree or any(k.lower() == rel.lower() for k in tree):
                    continue
                tree[rel] = ("f", gen_content(rng, swords),
                             rng.choice([0o644, 0o644, 0o600, 0o755, 0o664]) if modes else 0o644)
    fill("", 1)
    if not tree:
        tree["a.txt"] = ("f", (render("snake", swords) + "\n").encode(), 0o644)
    return tree


# -------------------------------------------------------------------------------------------------
# wire encoding (mirror of lean/Driver/Wire.lean and harness/src/wire.rs)

def wire_tree(tree):
    out = ["T", str(len(tree))]
    for rel in sorted(tree):
        n = tree[rel]
        if n[0] == "f":
            out += ["f", hexs(rel), hexs(n[1]), "%o" % n[2]]
        elif n[0] == "d":
            out += ["d", hexs(rel), "%o" % n[1]]
        else:
            out += ["l", hexs(rel), hexs(n[1])]
    return out


def wire_hunks(hunks):
    """hunks: list of (file, before, after, start, end)"""
    out = ["H", str(len(hunks))]
    for f, b, a, s, e in hunks:
        out += [hexs(f), hexs(b), hexs(a), str(s), str(e)]
    return out


def wire_rens(rens):
    """rens: list of (kind 'f'|'d', path, new_path)"""
    out = ["R", str(len(rens))]
    for k, p, q in rens:
        out += [k, hexs(p), hexs(q)]
    return out


def parse_wire_tree(s):
    """'f:pathhex:mode:contenthex d:pathhex:mode l:pathhex:targethex' -> snapshot dict like common.snapshot"""
    snap = {}
    for item in s.split():
        f = item.split(":")
        path = bytes.fromhex(f[1]).decode("utf-8", "surrogateescape")
        if f[0] == "f":
            snap[path] = ("f", int(f[2], 8), b"" if f[3] == "-" else bytes.fromhex(f[3]))
        elif f[0] == "d":
            snap[path] = ("d", int(f[2], 8), "")
        else:
            snap[path] = ("l", 0, ("" if f[2] == "-" else bytes.fromhex(f[2]).decode("utf-8", "surrogateescape")))
    return snap


def tree_to_snap(tree):
    snap = {}
    for rel, n in tree.items():
        if n[0] == "f":
            snap[rel] = ("f", n[2], n[1])
        elif n[0] == "d":
            snap[rel] = ("d", n[1], "")
        else:
            snap[rel] = ("l", 0, n[1])
    return snap


def snap_to_tree(snap):
    tree = {}
    for rel, v in snap.items():
        if v[0] == "f":
            tree[rel] = ("f", v[2], v[1])
        elif v[0] == "d":
            tree[rel] = ("d", v[1])
        else:
            tree[rel] = ("l", v[2])
    return tree
