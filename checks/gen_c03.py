"""Generators for C03 / C15 (extends checks/gen.py without touching it): matcher inputs, file contents with several
matches per line, length-changing replacements, multi-byte text before matches, CRLF / lone CR / no final newline /
empty files / very long lines, compound identifiers, plural forms, and a malformed stream with invalid UTF-8 placed
after the last match of a line or on other lines."""
from . import gen
from .gen import render, FILLER

MB = ["é", "日本", "ß", "→", "😀", "ñ"]
WRAPS = ["{}", "{}", "({})", "\"{}\"", "[{}]", "{};", "x.{}", "{}()", "::{}", "/{}/", "<{}>", "{},", "'{}'", "={}", "{}:"]
PREFIXES = ["my", "get", "the", "old"]
SUFFIXES = ["test", "impl", "id", "list"]


def occurrence(rng, swords, styles, compound=0.25, plural=0.1):
    st = rng.choice(styles)
    ws = list(swords)
    if rng.random() < plural:
        ws = ws[:-1] + [ws[-1] + "s"]
    r = rng.random()
    if r < compound:
        if rng.random() < 0.5:
            ws = [rng.choice(PREFIXES)] + ws
        else:
            ws = ws + [rng.choice(SUFFIXES)]
        if rng.random() < 0.3:
            ws = [rng.choice(PREFIXES)] + ws
    return render(st, ws)


def c07_identifier(rng, swords):
    """one identifier of C07's by-construction families with `swords` as the term: separator / hump styles with 0..2 prefix and
    suffix words, leading underscores, trailing and doubled separators, digit words and digits glued to the term, plurals —
    bare or as a segment of a dotted path of 2..4 segments whose segments may start / end with '-' or '_' and whose path may
    start with a dot (every compound-match shape the planner can produce; C07 judges the replacement text, here the plan's
    offsets / text / line context are judged against the file bytes)"""
    from . import c07
    st = rng.choice(c07.FAMILY_STYLES)
    sep = c07.SEP[st]
    pool = [w for w in c07.AFFIX if w not in swords]
    pre = [rng.choice(pool) for _ in range(rng.choice([0, 1, 1, 2]))]
    suf = [rng.choice(pool) for _ in range(rng.choice([0, 1, 1, 2]))]
    dotted = st != "dot" and rng.random() < 0.5
    lead = "" if dotted else rng.choice(["", "", "_", "__", "___"])
    trail = "" if dotted else rng.choice(["", "", sep if sep else "_", sep * 2 if sep else ""])
    dbl = rng.choice(["none", "none", "none", "pre", "suf"]) if sep else "none"
    if dbl == "pre" and not pre or dbl == "suf" and not suf:
        dbl = "none"
    variant = rng.choice(["plain"] * 5 + ["digit_suffix_word", "digit_prefix_word", "digit_glued", "digit_glued_before", "plural"])
    if variant == "digit_suffix_word" and not sep:
        variant = "plain"
    ident = c07.Case(st, lead, pre, suf, dbl, trail, list(swords), ["qq"], variant).ident
    if dotted:
        nseg = rng.randint(2, 4)
        pos = rng.randrange(nseg)
        segs = [rng.choice(c07.DOT_NEIGHBOURS) for _ in range(nseg - 1)]
        d0, d1 = rng.choice(["", "", "-", "-", "_", "--"]), rng.choice(["", "", "-", "_"])
        left = rng.choice(["", ""]) + rng.choice(["", "."]) + "".join(x + "." for x in segs[:pos]) + d0
        right = d1 + "".join("." + x for x in segs[pos:])
        ident = left + ident + right
    return ident


def trap_line(rng, swords, styles):
    """a line on which "the first textual occurrence" and "the match" differ, with multi-byte text in between:
    an occurrence embedded in a longer word (`x<term>y`, no boundary: not a match) or an earlier match of the SAME variant,
    then a multi-byte character, then the match.  Any position mix-up (character offset used as byte column, search
    instead of column) shows the wrong occurrence replaced."""
    occ = render(rng.choice(styles), swords)
    k = rng.random()
    if k < 0.45:
        head = rng.choice(["x", "my", "Z", "q9"]) + occ + rng.choice(["y", "s2", "Q", "z"])
    elif k < 0.8:
        head = rng.choice(WRAPS).format(occ)
    else:
        head = rng.choice(["x", "pre"]) + occ + "y " + occ
    mid = " ".join([rng.choice(MB)] + [rng.choice(FILLER + MB) for _ in range(rng.randint(0, 2))])
    tail = rng.choice(WRAPS).format(occ)
    out = [head, mid, tail]
    if rng.random() < 0.4:
        out += [rng.choice(MB), rng.choice(WRAPS).format(occ)]
    if rng.random() < 0.5:
        out.append(rng.choice(FILLER))
    if rng.random() < 0.3:
        out.insert(0, rng.choice(FILLER + MB))
    return " ".join(out)


def gen_line(rng, swords, styles, max_occ=4, multibyte=0.3, long=False):
    if not long and rng.random() < 0.18:
        return trap_line(rng, swords, styles)
    parts = []
    if long:
        parts.append("pad " * rng.randint(2000, 2600))
    for _ in range(rng.randint(0, max_occ)):
        if rng.random() < 0.7:
            parts.append(rng.choice(FILLER))
        if rng.random() < multibyte:
            parts.append(rng.choice(MB))
        if rng.random() < 0.3:
            parts.append(rng.choice(["{}", "{}", "({})", "\"{}\"", "{};", "use {}", "={}", "/{}/"]).format(c07_identifier(rng, swords)))
        else:
            parts.append(rng.choice(WRAPS).format(occurrence(rng, swords, styles)))
    if rng.random() < 0.8:
        parts.append(rng.choice(FILLER))
    sep = rng.choice([" ", " ", " ", "\t", ""]) if rng.random() < 0.15 else " "
    return sep.join(parts)


def gen_content(rng, swords, styles=None, kind=None):
    """returns (bytes, kind). kinds: lf, crlf, mixed, lonecr, nofinal, empty, long, blank, and the "buffer differs from
    the file on disk" shapes: bom / bomcrlf (UTF-8 BOM, matches on line 1 and later), ctrl (control bytes but no NUL in front),
    big (> 64 KiB), firstempty (first line empty)"""
    styles = styles or gen.NAME_STYLES
    kind = kind or rng.choice(["lf"] * 5 + ["crlf", "crlf", "mixed", "lonecr", "nofinal", "nofinal", "empty", "long", "blank",
                                            "bom", "bom", "bomcrlf", "ctrl", "big", "firstempty"])
    if kind == "empty":
        return b"", kind
    if kind in ("bom", "bomcrlf", "ctrl", "firstempty"):
        inner, _ = gen_content(rng, swords, styles, kind="crlf" if kind == "bomcrlf" else rng.choice(["lf", "lf", "nofinal"]))
        first = gen_line(rng, swords, styles, max_occ=2).replace(FILLER[0], render(rng.choice(styles), swords), 1)
        first = (render(rng.choice(styles), swords) + " " + first).encode() + (b"\r\n" if kind == "bomcrlf" else b"\n")
        head = {"bom": b"\xef\xbb\xbf", "bomcrlf": b"\xef\xbb\xbf", "ctrl": b"\x01\x02\x7f\x1b[31m ", "firstempty": b"\n"}[kind]
        return head + first + inner, kind
    if kind == "big":
        inner, _ = gen_content(rng, swords, styles, kind="lf")
        pad = ("".join(rng.choice(FILLER) + " " for _ in range(40)) + "\n") * 420       # ~ 70-90 KiB, no occurrence
        tail = (gen_line(rng, swords, styles, max_occ=2) + "\n").encode()
        return inner + pad.encode() + tail, kind
    n = rng.randint(1, 7)
    lines = [gen_line(rng, swords, styles, long=(kind == "long" and i == 1 % n)) for i in range(n)]
    if kind == "blank":
        lines.insert(rng.randrange(len(lines) + 1), "")
        lines.insert(0, "")
    out = []
    for i, l in enumerate(lines):
        if kind == "lonecr" and rng.random() < 0.5:
            l = l + "\r" + gen_line(rng, swords, styles, max_occ=2)
        nl = {"lf": "\n", "long": "\n", "blank": "\n", "lonecr": "\n", "nofinal": "\n", "crlf": "\r\n"}.get(kind) \
            or rng.choice(["\n", "\r\n"])
        out.append(l + nl)
    body = "".join(out)
    if kind == "nofinal":
        body = body.rstrip("\r\n")
    return body.encode(), kind


def add_invalid_utf8(rng, data, before=0.0):
    """insert invalid bytes at the END of lines (after the last match), on their own line, or — with probability
    `before` — at the START of a line, i.e. in front of its matches (the planner used to panic there, C16; since
    ac203f2 it falls back to searching the lossily decoded line)"""
    bad = [b"\xff", b"\xc3", b"\xe2\x82", b"\xf0\x9f", b"\x80", b"\xc0\xaf"]
    lines = data.split(b"\n")
    for _ in range(rng.randint(1, 2)):
        i = rng.randrange(len(lines))
        if rng.random() < before:
            lines[i] = rng.choice(bad) + b" " + lines[i]
        elif rng.random() < 0.5:
            lines[i] = lines[i] + b" " + rng.choice(bad)
        else:
            lines.insert(i, b"junk " + rng.choice(bad) + b" end")
    return b"\n".join(lines)


def gen_tree(rng, swords, n_files=(1, 4), styles=None, malformed=False, names_with_term=0.0):
    """flat-ish tree: files in the root and in one or two nested directories (for nested / repeated roots)"""
    tree = {}
    dirs = ["", "sub/", "sub/deep/", "lib/"]
    used = set()
    for i in range(rng.randint(*n_files)):
        d = rng.choice(dirs)
        base = rng.choice(["main", "util", "notes", "data", "readme", "code"]) + str(i)
        if rng.random() < names_with_term:
            base = render(rng.choice(["snake", "kebab", "camel"]), swords) + str(i)
        name = d + base + rng.choice([".txt", ".rs", ".md", ".js", ""])
        if name in used:
            continue
        used.add(name)
        data, kind = gen_content(rng, swords, styles)
        if malformed and rng.random() < 0.6 and data:
            data = add_invalid_utf8(rng, data, before=0.35)
        tree[name] = ("f", data, 0o644)
    for name in list(tree):
        parts = name.split("/")[:-1]
        for k in range(1, len(parts) + 1):
            tree.setdefault("/".join(parts[:k]), ("d", 0o755))
    if not any(v[0] == "f" for v in tree.values()):
        tree["a.txt"] = ("f", (render("snake", swords) + " x\n").encode(), 0o644)
    return tree


# ---- matcher inputs ----------------------------------------------------------------------------------

ATOMS = ["foo", "bar", "foo_bar", "fooBar", "FooBar", "FOO_BAR", "foo-bar", "foo bar", "Foo Bar", "foo.bar", "foobar",
         "foo_bar_baz", "a.b", "a-b", "ab", "abc", "a+b", "x", "X", "_", "-", ".", " ", "\n", "\r\n", "\t", "(", ")", "1",
         "é", "日", "Z9", "9", ":", "/", "é_", "#", "~", "$", "[x]", "\x0b", "\x0c"]
VARIANT_POOL = ["foo", "bar", "foo_bar", "fooBar", "FooBar", "FOO_BAR", "foo-bar", "foo bar", "Foo Bar", "foo.bar", "foobar",
                "foo_bar_baz", "a.b", "a-b", "ab", "abc", "a+b", "fo", "Foo", "é", "日", "é_", "[x]", "foo_", "o", "a.", "b-", "a b c",
                "foo.ba", "foo-b", "~"]


def gen_match_case(rng):
    k = rng.choice([0, 1, 1, 2, 3, 4, 6])
    variants = [rng.choice(VARIANT_POOL) for _ in range(k)]
    glue = [" ", "_", "-", ".", "\n", "\r\n", "(", ")", "x", "X", "9", "é", "", "", " ", "\t", ":", "s", "B"]
    atoms = (variants * 3 + glue + ATOMS[:12]) if variants and rng.random() < 0.8 else ATOMS
    content = "".join(rng.choice(atoms) for _ in range(rng.randint(0, 14)))
    return content.encode(), [v.encode() for v in variants]


def gen_boundary_case(rng):
    content = "".join(rng.choice(ATOMS) for _ in range(rng.randint(0, 8))).encode()
    n = len(content)
    r = rng.random()
    if r < 0.8 or n == 0:
        s = rng.randint(0, n)
        e = rng.randint(s, n)
    elif r < 0.9:
        s = rng.randint(0, n)
        e = rng.randint(0, n + 2)       # possibly e < s or e > len: panics
    else:
        s = e = n
    return content, s, e
