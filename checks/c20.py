"""C20 — Every command line the wrappers build is accepted by the CLI.

translate   clap derive attributes -> Gen/CliGrammar.lean;  TS argv builders -> Gen/Wrappers.lean (+ JS copy of the
            real method bodies for node)
prove       RModel.Props.C20: guarded property + exactness of the guard on the kernel-evaluated part of the space,
            one witness per known finding
correspond  (a) EXHAUSTIVE: every argv of `Wrap.enumerate` for every builder of both wrappers: real
                `Cli::try_parse_from` (vharness `clap`) vs `Cli.accepts` (rmodel `clap`), canonical summaries equal
            (b) extraction: the same option objects executed by the real TypeScript method bodies under node
            (c) a random / mutated argv stream over the grammar's vocabulary, to validate the clap model itself
oracle      on the real parser's answer alone (no model, no grammar translator; the summary is read with the real
            `Command`'s own argument table, harness op `clapargs`): the argv is accepted AND every field of the parse
            result is the one the builder's option object calls for -- positionals exactly the given terms / paths,
            each flag true iff the builder pushed it, each option exactly the given values, everything else at its
            default.  Every failing case must fall under a listed finding by its specific (wrapper, builder, field)
            clause and behave as the model predicts, else VIOLATION with the argv as replay
"""
import json
import os
import re
import shutil
import subprocess

from . import common
from .common import hexs

PROP = "C20"
CORPUS = os.path.join(common.ROOT, "corpus", PROP)
OPEN = ["C20_guarded / C20_full (Props/C20.lean): the property over the WHOLE enumerated space is executed exhaustively "
        "(compiled model + real clap, case by case) but proved in the kernel only on C20.space = Wrap.core; missing lemma: "
        "independence/commutation of option segments in Cli.run"]


# ---------------------------------------------------------------------------------------------------
# decoding driver output

def unhex_s(x):
    return common.unhex(x).decode("utf-8", "replace")


def parse_value(s):
    if s == "u":
        return None
    if s == "T":
        return True
    if s == "F":
        return False
    if s.startswith("n:"):
        return int(s[2:])
    if s.startswith("s:"):
        return unhex_s(s[2:])
    if s.startswith("l:"):
        return [unhex_s(x) for x in s[2:].split(",")] if s[2:] else []
    raise ValueError(s)


def load_cases():
    """[(builder index, 'wrapper.name', slug, model verdict, valuation, argv)] from the Lean enumeration"""
    head = common.run_model(["c20n"])[0].split(" ")
    names = []
    for h in head:
        nm, fields, n, ncore = h.rsplit(":", 3)
        names.append((nm, [f for f in fields.split(";") if f], int(n)))
    out = common.run_model([f"c20all {i}" for i in range(len(names))])
    cases = []
    for i, line in enumerate(out):
        items = line.split(" | ")
        if len(items) != names[i][2]:
            raise RuntimeError(f"driver enumerated {len(items)} cases for {names[i][0]}, announced {names[i][2]}")
        for it in items:
            f = it.split(" ")
            vals = [parse_value(x) for x in f[3].split(";")] if f[3] else []
            cases.append((i, f[0], f[1], f[2], vals, [unhex_s(x) for x in f[4:]]))
    return names, cases


# ---------------------------------------------------------------------------------------------------
# node: the real TypeScript logic

def node_args(b, names_fields, vals):
    """valuation -> (positional JS arguments, config) for the real method"""
    byname = dict(zip(names_fields, vals))
    args, config = [], {}
    for p in b["params"]:
        members = {k[len(p) + 1:]: v for k, v in byname.items() if k.startswith(p + ".")}
        declared = [f for f in names_fields if f.startswith(p + ".")]
        if declared or p not in byname:
            args.append({k: v for k, v in members.items() if v is not None})
        else:
            args.append(byname[p])
    for k, v in byname.items():
        if k.startswith("config.") and v is not None:
            config[k[7:]] = v
    return args, config


def run_node(ir, names, cases):
    node = shutil.which("node")
    if not node:
        return None
    from translate import wrappers
    by = {f"{b['wrapper']}.{b['name']}": b for b in ir}
    req = []
    for bi, nm, slug, verdict, vals, argv in cases:
        a, cfg = node_args(by[nm], names[bi][1], vals)
        req.append({"builder": nm, "args": a, "config": cfg})
    path = os.path.join(common.CACHE, "c20", f"cases.{os.getpid()}.json")
    with open(path, "w") as fh:
        json.dump(req, fh)
    try:
        p = subprocess.run([node, wrappers.JS_OUT, path], stdout=subprocess.PIPE, stderr=subprocess.PIPE, timeout=600)
    finally:
        os.unlink(path)
    if p.returncode != 0:
        raise RuntimeError("node failed: " + p.stderr.decode("utf-8", "replace")[-1500:])
    res = json.loads(p.stdout.decode())
    return [(["undefined" if t is None else str(t) for t in r] if isinstance(r, list) else r) for r in res]


# ---------------------------------------------------------------------------------------------------
# independent reading of the pushes (oracle side; works on the real parser's summary)

def js_truthy(v):
    return bool(v) if not isinstance(v, list) else True


def ev_cond(c, vals):
    k = c[0]
    if k == "always":
        return True
    if k == "truthy":
        return vals[c[1]] is not None and js_truthy(vals[c[1]])
    if k == "isFalse":
        return vals[c[1]] is False
    if k == "defined":
        return vals[c[1]] is not None
    if k == "nonEmpty":
        return isinstance(vals[c[1]], (list, str)) and len(vals[c[1]]) > 0
    if k == "isLit":
        return vals[c[1]] == c[2]
    if k == "not":
        return not ev_cond(c[1], vals)
    if k == "and":
        return ev_cond(c[1], vals) and ev_cond(c[2], vals)
    if k == "or":
        return ev_cond(c[1], vals) or ev_cond(c[2], vals)
    raise ValueError(c)


def js_str(v):
    if v is None:
        return "undefined"
    if v is True:
        return "true"
    if v is False:
        return "false"
    if isinstance(v, list):
        return ",".join(v)
    return str(v)


def ev_groups(b, vals):
    """[[('lit', s) | ('value', s) | ('values', [..]) | ('joined', [..], sep)]] per executed push"""
    groups = []

    def tok(t, elem):
        if t[0] == "lit":
            return ("lit", t[1])
        if t[0] == "val":
            return ("value", js_str(vals[t[1]]))
        if t[0] == "joined":
            return ("joined", list(vals[t[1]] or []), t[2])
        if t[0] == "spread":
            return ("values", list(vals[t[1]] or []))
        if t[0] == "elem":
            return ("value", elem)
        if t[0] == "orLit":
            v = vals[t[1]]
            return ("value", js_str(v) if (v is not None and js_truthy(v)) else t[2])
        if t[0] == "attach":
            inner = tok(t[2], elem)
            vs = list(inner[1]) if inner[0] in ("joined", "values") else [inner[1]]
            text = (inner[2] if inner[0] == "joined" else ",").join(vs) if inner[0] in ("joined", "values") else inner[1]
            return ("attached", t[1], vs, text)
        raise ValueError(t)
    norm = {k: v for k, v in (b.get("norm") or [])}
    for st in b["steps"]:
        if not ev_cond(st[1], vals):
            continue
        if st[0] == "push":
            groups.append([tok(t, None) for t in st[2]])
        elif st[0] == "each":
            for e in vals[st[2]] or []:
                groups.append([tok(t, e) for t in st[3]])
        else:
            for e0 in vals[st[2]] or []:
                for e in norm.get(e0, [e0]):
                    groups.append([tok(t, e) for t in st[3]])
    return groups


def expectations(groups):
    """-> (subcommand, [(kind, key, expected)]) : ('pos', k, [..]) ('flag', long) ('short', c) ('opt', long, [..])"""
    exps, k, sub = [], 0, None
    opts = {}
    trailing = False                      # a literal `--` was pushed: everything after it is a positional

    def add_opt(name, vs):
        if name not in opts:
            opts[name] = []
            exps.append(("opt", name, opts[name]))
        opts[name] += vs
    for gi, g in enumerate(groups):
        i = 0
        if gi == 0 and g and g[0][0] == "lit":
            sub = g[0][1]
            i = 1
        while i < len(g):
            t = g[i]
            if trailing:
                if t[0] in ("values", "joined"):
                    exps.append(("pos", k, list(t[1])))
                elif t[0] == "attached":
                    exps.append(("pos", k, ["--" + t[1] + "=" + t[3]]))
                else:
                    exps.append(("pos", k, [t[1]]))
                k += 1
            elif t[0] == "lit" and t[1] == "--":
                trailing = True
            elif t[0] == "attached":
                add_opt(t[1], list(t[2]))
            elif t[0] == "lit" and t[1].startswith("--") and len(t[1]) > 2:
                name = t[1][2:]
                nxt = g[i + 1] if i + 1 < len(g) else None
                if nxt and (nxt[0] in ("value", "joined") or (nxt[0] == "lit" and not nxt[1].startswith("-"))):
                    add_opt(name, list(nxt[1]) if nxt[0] == "joined" else [nxt[1]])
                    i += 2
                    continue
                exps.append(("flag", name))
            elif t[0] == "lit" and len(t[1]) == 2 and t[1][0] == "-":
                exps.append(("short", t[1][1]))
            elif t[0] in ("values", "joined"):
                exps.append(("pos", k, list(t[1]))); k += 1
            else:
                exps.append(("pos", k, [t[1]])); k += 1
            i += 1
    return sub, exps


def parse_summary(line):
    f = line.split(" ")
    kv = {}
    for x in f[2:]:
        k, v = x.split("=", 1)
        kv[k] = v
    return f[1], kv


def summary_vals(v):
    if v == "none":
        return []
    return [unhex_s(x) for x in v.split(",")]


def is_set(v):
    return v == "true" or (v.isdigit() and int(v) > 0)


def real_table():
    """argument table of the REAL clap `Command` (harness op `clapargs`), independent of translate/cli_grammar.py"""
    line = common.run_impl(["clapargs"])[0]
    return json.loads(line)


def default_of(a):
    if a["action"] in ("setTrue", "setFalse"):
        return "true" if a["defaults"] == ["true"] else "false"
    if a["action"] == "count":
        return "0"
    return ",".join(hexs(d) for d in a["defaults"]) if a["defaults"] else "none"


def intended_summary(table, sub, exps):
    """The complete parse result the builder's option object calls for, as `key -> value` in the notation of the
    harness summary: every argument of the subcommand and every global at its default, except
      positional k      = exactly the given terms / paths,
      a pushed flag     = true (a counter: the number of times it was pushed),
      a pushed option   = exactly the given values (lists element by element),
    and nothing else set.  -> (dict, problem or None)"""
    args = table["subs"].get(sub)
    if args is None:
        return None, f"the CLI has no subcommand {sub!r}"
    want = {}
    own_ids = {a["id"] for a in args if not a["global"]}
    for a in args:
        want[("g." if a["global"] else "") + a["id"]] = default_of(a)
    for a in table["top"]:
        if a["id"] not in own_ids:
            want.setdefault("g." + a["id"], default_of(a))

    def key(a):
        return ("g." if a["global"] else "") + a["id"]
    pos = sorted([a for a in args if a["positional"]], key=lambda a: a["index"] or 0)
    for e in exps:
        if e[0] == "pos":
            if e[1] >= len(pos):
                return None, f"the builder passes a positional #{e[1] + 1} ({e[2]!r}) that `{sub}` does not have"
            if e[2]:
                want[key(pos[e[1]])] = ",".join(hexs(x) for x in e[2])
        else:
            a = next((x for x in args if (e[1] in x["longs"] if e[0] != "short" else e[1] in x["shorts"])), None)
            if a is None:
                return None, f"the builder pushes {'-' if e[0] == 'short' else '--'}{e[1]}, which `{sub}` does not have"
            if e[0] == "opt":
                want[key(a)] = ",".join(hexs(x) for x in e[2]) if e[2] else "none"
            elif a["action"] == "count":
                want[key(a)] = str(int(want[key(a)]) + 1)
            elif a["action"] in ("setTrue", "setFalse"):
                want[key(a)] = "true" if a["action"] == "setTrue" else "false"
            else:
                return None, f"the builder pushes --{e[1]} without a value, but it takes one"
    return want, None


def means(table, line, sub, exps):
    """INTENDED-MEANING ORACLE.  `line` is what the real parser made of the argv; `exps` what the builder's own
    option object asked for.  Every field of the parse result must be the intended one.  -> (bool, reason)"""
    psub, kv = parse_summary(line)
    if psub != sub:
        return False, f"subcommand {psub!r} instead of {sub!r}"
    want, prob = intended_summary(table, sub, exps)
    if want is None:
        return False, prob
    own_ids = {a["id"] for a in table["subs"][sub] if not a["global"]}
    kinds = {("g." if a["global"] else "") + a["id"]: a["action"] for a in table["subs"][sub]}
    kinds.update({"g." + a["id"]: a["action"] for a in table["top"]})
    diffs = []
    for k in sorted(set(kv) | set(want)):
        if k.startswith("g.") and k[2:] in own_ids:
            continue                      # a global shadowed by the subcommand's own argument of the same id
        if kv.get(k) != want.get(k):
            def show(v, k=k):
                if v is None or v in ("none", "true", "false") or kinds.get(k) not in ("set", "append"):
                    return v
                return [unhex_s(x) for x in v.split(",")]
            diffs.append(f"{k} = {show(kv.get(k))!r}, intended {show(want.get(k))!r}")
    if diffs:
        return False, "; ".join(diffs[:4])
    return True, ""


# ---------------------------------------------------------------------------------------------------
# random / mutated argv stream (validates the clap model, not the property)

def vocabulary(grammar):
    subs = [c["name"] for c in grammar["subs"]] + [a for c in grammar["subs"] for a in c["aliases"]]
    per = {}
    for c in grammar["subs"]:
        args = c["args"] + [a for a in grammar["top"] if a["global"]]
        per[c["name"]] = args
    return subs, per


def rand_value(rng, a):
    if a["vtype"][0] == "enum":
        names = [n for v in a["vtype"][1] for n in v]
        pool = names + ["bogus", "", names[0].upper(), names[0] + "," + names[-1], names[0] + ","]
    elif a["vtype"][0] == "nat":
        pool = ["0", "7", "+3", "x", "", "-1", "99999999999999999999", "18446744073709551615", "1.5"]
    elif a["vtype"][0] == "path":
        pool = ["src", "a/b", "", ".", "a,b", "-"]
    else:
        pool = ["foo", "a,b", "", "-", "x=y", "*.rs", ",", "a,,b"]
    return rng.choice(pool)


def rand_argv(rng, grammar, subs, per):
    argv = []
    tops = [a for a in grammar["top"]]

    def emit_arg(a, argv):
        style = rng.random()
        if a["positional"]:
            argv.append(rand_value(rng, a)); return
        takes = a["action"] in ("set", "append")
        name = None
        if a["long"] and (style < 0.7 or not a["short"]):
            name = "--" + rng.choice([a["long"]] + a["aliases"])
            if takes:
                r = rng.random()
                if r < 0.6:
                    argv.extend([name, rand_value(rng, a)])
                elif r < 0.85:
                    argv.append(name + "=" + rand_value(rng, a))
                else:
                    argv.append(name)
            else:
                argv.append(name + ("=x" if rng.random() < 0.05 else ""))
        elif a["short"]:
            s = "-" + a["short"]
            if takes:
                r = rng.random()
                if r < 0.4:
                    argv.extend([s, rand_value(rng, a)])
                elif r < 0.7:
                    argv.append(s + rand_value(rng, a))
                elif r < 0.9:
                    argv.append(s + "=" + rand_value(rng, a))
                else:
                    argv.append(s)
            else:
                extra = "".join(rng.choice("uyq") for _ in range(rng.randint(0, 2)))
                argv.append(s + extra)
    for _ in range(rng.choice([0, 0, 0, 1, 2])):
        emit_arg(rng.choice(tops), argv)
    r = rng.random()
    if r < 0.03:
        argv.append(rng.choice(["help", "bogus", "--", "--help", "-V", "--version", "-h"]))
        if rng.random() < 0.5:
            argv.append(rng.choice(subs + ["bogus"]))
        return argv
    if r < 0.05:
        return argv
    sub = rng.choice(subs)
    argv.append(sub)
    args = per.get(sub, [])
    pos = [a for a in args if a["positional"]]
    named = [a for a in args if not a["positional"]]
    npos = rng.choice([len([p for p in pos if p["required"]])] * 4 + [0, 1, 2, 3, 4])
    plan = ["p"] * npos + ["n"] * rng.randint(0, 6)
    rng.shuffle(plan)
    if rng.random() < 0.6:
        plan.sort(key=lambda x: x != "p")
    pi = 0
    for kind in plan:
        r = rng.random()
        if kind == "p":
            a = pos[min(pi, len(pos) - 1)] if pos else None
            argv.append(rand_value(rng, a) if a and rng.random() < 0.9 else rng.choice(["-x", "--", "help", sub]))
            pi += 1
        elif r < 0.06:
            argv.append(rng.choice(["--bogus", "-q", "--", "--styles", "--plan", "--id", "--no-rename-dirs", "-"]))
        elif r < 0.12 and len(argv) > 1:
            argv.append(argv[-1])               # duplicate
        elif named:
            emit_arg(rng.choice(named), argv)
    return argv


def mutate(rng, argv):
    a = list(argv)
    if not a:
        return a
    k = rng.choice(["drop", "dup", "swap", "unknown", "eq", "dashdash", "trunc"])
    i = rng.randrange(len(a))
    if k == "drop":
        del a[i]
    elif k == "dup":
        a.insert(i, a[i])
    elif k == "swap" and len(a) > 1:
        j = rng.randrange(len(a)); a[i], a[j] = a[j], a[i]
    elif k == "unknown":
        a[i] = a[i] + "x" if a[i].startswith("-") else "-" + a[i]
    elif k == "eq" and i + 1 < len(a) and a[i].startswith("--"):
        a[i:i + 2] = [a[i] + "=" + a[i + 1]]
    elif k == "dashdash":
        a.insert(i, "--")
    else:
        a = a[:i]
    return a


def ok_token(t):
    return " " not in t and "\n" not in t


def req_of(argv):
    return " ".join(["clap"] + [hexs(a) for a in argv])


# ---------------------------------------------------------------------------------------------------

def build_harness():
    """C20 needs only vharness (it links the real clap definitions); the CLI binary is not used"""
    with common.build_lock("cargo"):
        lock = os.path.join(common.HARNESS, "Cargo.lock")
        if not os.path.exists(lock):
            shutil.copy(os.path.join(common.REPO, "Cargo.lock"), lock)
        rc, out = common.sh(["cargo", "build", "--offline"], cwd=common.HARNESS)
    if rc != 0:
        return False, "vharness build failed:\n" + out[-4000:]
    return True, ""


def corpus_files():
    if not os.path.isdir(CORPUS):
        return []
    return sorted(os.path.join(CORPUS, f) for f in os.listdir(CORPUS) if f.endswith(".json"))


def run(ctx):
    ctx.cov["rule"] = ("exhaustive: for each of the argv builders of renamify-mcp and renamify-vscode every subset of its optional "
                       "fields x value profiles (k-th representative of every present field; booleans true/false, lists "
                       "[x]/[x,y]/[]/all names, enums every literal, strings a plain value) plus hostile values (leading '-', "
                       "embedded ','), as defined by Wrap.enumerate in Lean; non-trivial = at least one optional field pushes a "
                       "token; distinct = distinct argv. random: argvs over the grammar's own vocabulary and mutations of wrapper "
                       "argvs (model validation only).")
    ctx.cov["exhaustive"] = True
    ctx.cov["open_statements"] = OPEN
    ctx.assumptions += ["environment variables NO_COLOR / RENAMIFY_YES unset (clap `env=`): harness clears them, model has none",
                        "representative values stand for their class (any string without leading '-' / ',' behaves like the plain one)",
                        "argument text is valid UTF-8 without spaces/newlines in the line protocol"]
    # 1 translate -----------------------------------------------------------------------------------
    from translate import cli_grammar, wrappers
    grammar = ir = None
    try:
        grammar = cli_grammar.extract()
        cli_grammar.write(grammar)
        if grammar["problems"]:
            # the grammar is still generated (unmodelled attributes are carried as data); the tie is weaker
            ctx.broke("translator", "translate/cli_grammar.py",
                      "clap features the model does not cover: " + "; ".join(grammar["problems"]))
    except Exception as ex:                                   # noqa: BLE001 - any failure is a broken tie
        ctx.broke("translator", "translate/cli_grammar.py", f"{type(ex).__name__}: {ex}")
    try:
        wrappers.run()
        ir, _ = wrappers.extract()
    except Exception as ex:                                   # noqa: BLE001
        ctx.broke("translator", "translate/wrappers.py", f"{type(ex).__name__}: {ex}")
        try:
            ir = json.load(open(wrappers.IR_OUT))
            ctx.notes.append("wrappers translator failed: enumeration continues on the last extracted builders")
        except OSError:
            ir = None
    try:
        from translate import wrappers_verdict
        wrappers_verdict.run()
        live = common.run_model(["c20live"])[0]
        ctx.cov["findings_in_force"] = [] if live == "-" else live.split(" ")
    except Exception as ex:                                   # noqa: BLE001
        ctx.broke("translator", "translate/wrappers_verdict.py", f"{type(ex).__name__}: {ex}")
    # 2 prove ---------------------------------------------------------------------------------------
    proved = ctx.prove("RModel.Props.C20")
    if not proved:
        common.lean_build([])                                 # the driver must exist for the search below
    if not os.path.exists(common.RMODEL_BIN):
        ctx.broke("build", "rmodel", "driver executable missing")
        return
    # 3 rebuild -------------------------------------------------------------------------------------
    ok, msg = build_harness()
    if not ok:
        ctx.broke("build", "cargo", msg)
        return
    # the intended-meaning oracle reads the real parser's answers with the real parser's own argument table
    table = real_table()
    if grammar is None:
        ctx.notes.append("grammar translator failed: random stream skipped; acceptance and intended-meaning oracle run "
                         "on the real parser as usual")

    # 4a corpus first -------------------------------------------------------------------------------
    corpus = []
    for path in corpus_files():
        try:
            corpus.append((path, json.load(open(path))))
        except ValueError:
            ctx.notes.append(f"unreadable corpus file {path}")
    if corpus:
        reqs = [req_of(c["case"]["argv"]) for _, c in corpus]
        res = common.correspond(ctx, "clap: corpus argvs", reqs)
        for (path, c), (r, impl, model) in zip(corpus, res):
            ctx.count("corpus:" + ("same" if impl == c.get("observed") else "changed"))
            if impl != c.get("observed"):
                ctx.notes.append(f"corpus {os.path.basename(path)}: real parser now answers {impl[:80]!r} "
                                 f"(recorded {str(c.get('observed'))[:80]!r})")

    # 4b the enumerated space -----------------------------------------------------------------------
    names, cases = load_cases()
    by = {f"{b['wrapper']}.{b['name']}": b for b in ir} if ir else {}
    if ir and [n for n, _, _ in names] != list(by):
        ctx.broke("translator", "Gen/Wrappers.lean", f"driver builders {[n for n, _, _ in names]} != extracted {list(by)}")
    node_out = None
    if ir:
        try:
            node_out = run_node(ir, names, cases)
        except Exception as ex:                               # noqa: BLE001
            ctx.broke("translator", "node execution of the TypeScript builders", f"{type(ex).__name__}: {ex}")
    if node_out is None:
        ctx.cov["extraction"] = "extraction trusted (node not available or not runnable)"
    else:
        bad = [(c, n) for c, n in zip(cases, node_out) if n != c[5]]
        ctx.cov["extraction"] = f"confirmed by node: {len(cases) - len(bad)}/{len(cases)} argvs identical to the real TypeScript logic"
        ctx.cov["disagreements_checked"] += len(cases)
        if bad:
            c, n = bad[0]
            ctx.broke("translator", "wrappers: extracted builder differs from the TypeScript executed by node",
                      {"builder": c[1], "valuation": c[4], "lean_argv": c[5], "node_argv": n, "count": len(bad)})
    # argv used for the oracle: what the real TypeScript produced when we have it
    real_argv = [(n if (node_out is not None and isinstance(n, list)) else c[5]) for c, n in
                 zip(cases, node_out or [None] * len(cases))]
    uniq = {}
    for a in real_argv + [c[5] for c in cases]:
        if all(ok_token(t) for t in a):
            uniq.setdefault(tuple(a), None)
    ulist = list(uniq)
    res = common.correspond(ctx, "clap: every enumerated wrapper argv (exhaustive)", [req_of(a) for a in ulist])
    impl_of = {a: r[1] for a, r in zip(ulist, res)}
    model_of = {a: r[2] for a, r in zip(ulist, res)}

    # 5 oracle --------------------------------------------------------------------------------------
    failing = []          # (size, case, argv, impl, reason)
    seen_slugs = {}
    for c, argv in zip(cases, real_argv):
        bi, nm, slug, verdict, vals, largv = c
        impl = impl_of.get(tuple(argv))
        if impl is None:
            continue
        b = by.get(nm)
        nontrivial = len(argv) > len([f for f in (b["fields"] if b else []) if not f["optional"]]) + 1
        ctx.case((nm, tuple(argv)), nontrivial)
        ctx.count("builder:" + nm)
        ctx.count("real:" + (impl.split(" ")[1] if impl.startswith("err ") else "ok"))
        good, reason = impl.startswith("ok "), ""
        if not good:
            reason = impl
        elif b is not None:
            sub, exps = expectations(ev_groups(b, vals))
            good, reason = means(table, impl, sub, exps)
            if not good:
                reason = "accepted with another meaning: " + reason
        if good:
            if slug != "-":
                ctx.count("finding-no-longer-reproduces:" + slug)
            continue
        ctx.count("fails:" + (slug if slug != "-" else "UNLISTED"))
        predicted = model_of.get(tuple(argv)) == impl
        if slug != "-" and (PROP, slug) in ctx.findings and predicted:
            seen_slugs.setdefault(slug, (nm, argv, impl))
            continue
        failing.append((len(argv), nm, vals, argv, impl, reason, slug, predicted))
    for slug in sorted(seen_slugs):
        ctx.known(slug)
    if failing:
        failing.sort(key=lambda x: (x[0], x[1], x[3]))
        size, nm, vals, argv, impl, reason, slug, predicted = failing[0]
        fields = names[[n for n, _, _ in names].index(nm)][1]
        ctx.violation("argv", {"argv": argv, "builder": nm, "options": dict(zip(fields, vals))},
                      expected="accepted by Cli::try_parse_from with the meaning the builder intends",
                      observed=impl, model_prediction=model_of.get(tuple(argv)),
                      broken_obligation=ctx.broken or None,
                      note=f"{reason}; {len(failing)} failing enumerated cases not covered by a listed finding"
                           + ("" if slug == "-" else f" (guard clause {slug} applies but is not listed or the model predicts otherwise)"))
    ctx.sample({"builder": cases[0][1], "argv": cases[0][5], "real": impl_of.get(tuple(cases[0][5]), "")[:160]})
    for slug, (nm, argv, impl) in sorted(seen_slugs.items())[:4]:
        ctx.sample({"builder": nm, "argv": argv, "real": impl, "finding": slug})

    # 4c random stream: model validation ------------------------------------------------------------
    if grammar is not None:
        rng = ctx.rng
        subs, per = vocabulary(grammar)
        n_rand = 30000 if ctx.thorough else 3000
        n_mut = 10000 if ctx.thorough else 1500
        reqs, seen = [], set()
        pool = [list(a) for a in ulist]
        while len(reqs) < n_rand:
            a = rand_argv(rng, grammar, subs, per)
            if all(ok_token(t) for t in a):
                reqs.append(req_of(a))
        for _ in range(n_mut):
            a = mutate(rng, rng.choice(pool))
            if rng.random() < 0.3:
                a = mutate(rng, a)
            if all(ok_token(t) for t in a):
                reqs.append(req_of(a))
        res = common.correspond(ctx, "clap: random and mutated argvs (model validation)", reqs)
        for r, impl, model in res:
            ctx.cov["evaluations"] += 1
            ctx.count("random:" + (impl.split(" ")[1] if impl.startswith("err ") else "ok"))
        ctx.sample({"random_request": [unhex_s(x) for x in reqs[0].split(" ")[1:]], "real": res[0][1][:120]})


def replay(ctx, path):
    """re-run one recorded argv on the real parser and the model; same verdict line as the run that wrote it"""
    obj = json.load(open(path))
    case = obj.get("case", {})
    ok, msg = build_harness()
    if not ok:
        ctx.broke("build", "cargo", msg)
        return
    common.lean_build([])
    if not (isinstance(case, dict) and "argv" in case):
        print(json.dumps(obj, indent=1)[:3000])
        return
    r = req_of(case["argv"])
    impl = common.run_impl([r])[0]
    model = common.run_model([r])[0]
    print("argv :", " ".join(case["argv"]))
    print("impl :", impl[:400])
    print("model:", model[:400])
    slug = obj.get("finding")
    if slug:
        # corpus witness of a finding about a WRAPPER: the parser's answer to this argv does not change when the
        # wrapper is repaired; what changes is that no builder produces the argv any more (generated verdict)
        try:
            from translate import cli_grammar, wrappers, wrappers_verdict
            cli_grammar.run(); wrappers.run(); wrappers_verdict.run()
            live = common.run_model(["c20live"])[0].split(" ")
        except Exception as ex:                               # noqa: BLE001
            ctx.broke("translator", "translate (replay)", f"{type(ex).__name__}: {ex}")
            return
        if slug not in live:
            print(f"finding {slug} is repaired: on the current sources no builder falls under it any more "
                  f"(the parser still answers {impl[:60]!r} to the recorded argv)")
            return
        # reproduced exactly as recorded?
        if impl == obj.get("observed"):
            if not ctx.known(slug):
                ctx.violation("argv", case, expected=obj.get("expected"), observed=impl, model_prediction=model,
                              note=f"witness of {slug} reproduces but the finding is not listed in KNOWN_FINDINGS.txt")
        else:
            print(f"finding {slug} no longer reproduces as recorded ({obj.get('observed')!r})")
        return
    if not impl.startswith("ok ") or impl == obj.get("observed"):
        ctx.violation("argv", case, expected=obj.get("expected"), observed=impl, model_prediction=model,
                      note=obj.get("note"))
    else:
        print("the recorded argv is accepted now")
