"""Shared machinery of C04 (failed apply changes nothing) and C11 (crash consistency).

A *scenario* = user tree + term pair + command under test + setup (`fresh` | `old` = one earlier, unrelated
rename is already recorded in the history).  `run_point` builds the scenario in a fresh scratch directory,
runs the command under shim/fsshim.c with one injected fault (or none), and returns a picklable observation:
exit status, fine-grained trace, user-tree snapshot before/after, parsed history before/after, lock state,
stored plan, and (for C11) the result of the follow-up commands.  Everything here observes the REAL binary;
the Lean model is consulted separately (`model_requests`) through the driver op `exectrace`.

Trace abstraction (`fine`): the one of `shim.abstract(events, keep_failed=True, logs='keep')` refined so that
every `state.log` line (five write(2) calls) is one `log` item; `collapse_logs` maps it back to the
`('log',)` markers of `shim.abstract(…, logs='marker')`, and both forms are compared with the model.
"""
import json
import os
import re
import shutil
import tempfile

from . import common, gen, oracle, shim

SEARCH, REPLACE = "foo_bar", "baz_qux"
OLD_S, OLD_R = "zzz_old", "zzz_new"
FOLLOW_S, FOLLOW_R = "followup_a", "followup_b"
EXTRA = {"follow.txt": ("f", b"followup_a here\n", 0o644)}
OLD_EXTRA = {"z_note.txt": ("f", b"zzz_old note\n", 0o644)}
FLAGS = ["--no-auto-init"]

WRITES_PER_LOG_LINE = 5


# ------------------------------------------------------------------------------------------------
# scenario family

def trees():
    """name -> user tree.  1-3 edited files x 0-2 renames, incl. a nested pair and a file that is edited and renamed."""
    t = {}
    t["e1r0"] = {"a.txt": ("f", b"x foo_bar y\n", 0o644)}
    t["e2r1"] = {"a.txt": ("f", b"x foo_bar y\n", 0o644),
                 "foo_bar.txt": ("f", b"foo_bar inner\n", 0o600)}
    t["e3r2nest"] = {"a.txt": ("f", b"foo_bar one\nsecond fooBar\n", 0o644),
                     "b.txt": ("f", b"x foo_bar y\n", 0o600),
                     "foo_bar": ("d", 0o755),
                     "foo_bar/foo_bar.txt": ("f", b"inner foo_bar\n", 0o644),
                     "foo_bar/keep.txt": ("f", b"nothing\n", 0o644)}
    t["e2r2dirs"] = {"a.txt": ("f", b"foo_bar\n", 0o644),
                     "foo_bar": ("d", 0o755),
                     "foo_bar/foo_bar": ("d", 0o750),
                     "foo_bar/foo_bar/other.txt": ("f", "café foo_bar 日本 FooBar\n".encode(), 0o644),
                     "foo_bar/foo_bar/plain.md": ("f", b"no term\n", 0o644)}
    t["e2r3nest"] = {"a.txt": ("f", b"foo_bar\n", 0o644),
                     "foo_bar": ("d", 0o755),
                     "foo_bar/foo_bar": ("d", 0o750),
                     "foo_bar/foo_bar/foo_bar.txt": ("f", "café foo_bar 日本 FooBar\n".encode(), 0o644),
                     "foo_bar/foo_bar/plain.md": ("f", b"no term\n", 0o644)}
    t["e1r1"] = {"src": ("d", 0o755),
                 "src/foo_bar.rs": ("f", b"fn foo_bar() {}\n", 0o755)}
    t["e3r0"] = {"a.txt": ("f", b"foo_bar\n", 0o644), "b.txt": ("f", b"FOO_BAR\n", 0o644),
                 "c.txt": ("f", b"foo-bar and foo_bar\n", 0o664)}
    # a renamed symlink (symlinks whose own name contains the term are planned as File renames; the target is not followed)
    # next to an edited and a renamed file: apply / redo must move the link itself
    t["e1r2link"] = {"a.txt": ("f", b"x foo_bar y\n", 0o644),
                     "foo_bar.txt": ("f", b"plain\n", 0o600),
                     "foo_bar_ln": ("l", "a.txt"),
                     "foo_bar_dangling": ("l", "nowhere/at/all")}
    # an edited file that has a SECOND HARD LINK outside the scanned part of the tree (a directory named in `.ignore`),
    # as in a pnpm store or a `cp -al` snapshot.  Apply / undo replace the file by
    # temp + rename, so the other name keeps the old bytes and no crash can truncate either name.
    t["e2r1hard"] = {"a.txt": ("f", b"x foo_bar y\n", 0o644),
                     "b.txt": ("f", b"second foo_bar\n", 0o644),
                     "foo_bar.txt": ("f", b"plain\n", 0o600),
                     ".ignore": ("f", b"store/\n", 0o644),
                     "store/a_alias.txt": ("f", b"x foo_bar y\n", 0o644, "a.txt")}
    t["e2r2flat"] = {"foo_bar_a.txt": ("f", b"foo_bar\n", 0o644), "foo_bar_b.txt": ("f", b"x\n", 0o644),
                     "c.txt": ("f", b"fooBar\n", 0o644)}
    return t


def family(thorough):
    """list of scenarios {name, tree, cmd, setup}; the first entries are the quick tier"""
    quick = [("e3r2nest", "rename", "old"), ("e2r3nest", "apply", "fresh"), ("e2r1", "redo", "old"), ("e1r2link", "redo", "fresh"),
             ("e2r1hard", "apply", "fresh"),
             ("e2r1", "replace", "fresh"), ("e3r2nest", "undo", "old")]
    more = [("e2r2dirs", "apply", "fresh"), ("e1r0", "rename", "fresh"), ("e2r2dirs", "rename", "fresh"), ("e3r0", "apply", "old"),
            ("e1r1", "apply", "fresh"), ("e2r2flat", "rename", "old"), ("e2r2dirs", "redo", "fresh"),
            ("e2r2dirs", "undo", "fresh"), ("e2r1", "undo", "fresh"), ("e1r1", "replace", "old"),
            ("e3r2nest", "apply", "old"), ("e3r0", "redo", "old"), ("e1r2link", "apply", "old"), ("e1r2link", "undo", "fresh"),
            ("e1r2link", "rename", "fresh"), ("e2r1hard", "undo", "fresh"), ("e2r1hard", "redo", "old")]
    T = trees()
    out = []
    for name, cmd, setup in quick + (more if thorough else []):
        out.append({"name": f"{name}/{cmd}/{setup}", "tree": T[name], "cmd": cmd, "setup": setup})
    return out


OTHER_S, OTHER_R = "omega_word", "omega_done"


def full_tree(sc):
    # every file of the scenario also carries a second, unrelated term, so that a DIFFERENT rename touches the same files
    t = {k: (("f", v[1] + b"omega_word tail\n", v[2]) + tuple(v[3:]) if v[0] == "f" else v) for k, v in sc["tree"].items()}
    t.update(EXTRA)
    if sc["setup"] == "old":
        t.update(OLD_EXTRA)
    return t


# ------------------------------------------------------------------------------------------------
# observing the state

def read_history(d):
    """(state, entries): state absent | ok | bad; entries = list of ids"""
    p = os.path.join(d, ".renamify", "history.json")
    if not os.path.exists(p):
        return "absent", []
    try:
        with open(p, "rb") as fh:
            data = json.loads(fh.read().decode("utf-8"))
        return "ok", [e["id"] for e in data]
    except (ValueError, KeyError, TypeError, UnicodeDecodeError):
        return "bad", []


def lock_state(d):
    p = os.path.join(d, ".renamify", "renamify.lock")
    if not os.path.lexists(p):
        return "absent"
    try:
        return "empty" if os.path.getsize(p) == 0 else "full"
    except OSError:
        return "other"


def stored_plans(d):
    p = os.path.join(d, ".renamify", "plans")
    if not os.path.isdir(p):
        return {}
    return {f: os.path.getsize(os.path.join(p, f)) for f in os.listdir(p)}


_RE_TMPNAME = re.compile(r"\.\d+\.renamify\.tmp$")
_RE_PROBE = re.compile(r"(^|/)\.tmp[A-Za-z0-9]{6}(?=/|$)")


def norm_snap(snap):
    """run-specific names -> the placeholders of the trace abstraction"""
    out = {}
    for k, v in snap.items():
        k2 = _RE_TMPNAME.sub(".PID.renamify.tmp", k)
        k2 = _RE_PROBE.sub(lambda m: m.group(1) + ".tmpRAND", k2)
        out[k2] = v
    return out


def observe(d):
    hs, he = read_history(d)
    rd = os.path.join(d, ".renamify")
    lock_tmp = os.path.isdir(rd) and any(_RE_LOCKTMP.search(f) for f in os.listdir(rd))
    return {"tree": norm_snap(common.snapshot(d)), "hist_state": hs, "hist": he, "lock": lock_state(d),
            "plans": stored_plans(d), "lock_tmp": bool(lock_tmp)}


# ------------------------------------------------------------------------------------------------
# fine trace abstraction

_RE_REDO = re.compile(r"(redo|revert)-<ID>-\d+")
_RE_HISTTMP = re.compile(r"history\.json\.\d+\.tmp$")
_RE_LOCKTMP = re.compile(r"renamify\.lock\.\d+\.tmp$")


def npath(p, old_id):
    if p is None:
        return None
    if old_id:
        p = p.replace(old_id, "<OLD>")
    p = shim.norm_path(p)
    p = _RE_HISTTMP.sub("history.json.PID.tmp", p)
    p = _RE_LOCKTMP.sub("renamify.lock.PID.tmp", p)
    return _RE_REDO.sub(r"\1-<ID>-<TS>", p)


def fine(events, old_id=None):
    """-> list of groups {op: str, seqs: [raw indices], n: [sizes], err: name|None, inj: mode|None, path: str}"""
    groups = []
    for e in events:
        if e.seq is None or e.op not in shim.MUTATING_OPS:
            continue
        p, p2 = npath(e.path, old_id), npath(e.path2, old_id)
        killed = e.result == "KILLED"
        err = None if (e.ok or killed) else ("INJ" if e.injected == "fail" else e.result)
        islog = shim.is_log_path(e.path)
        if e.op == "write":
            text = "log" if islog else f"write {p}"
        elif e.op in ("rename", "link"):
            text = f"{e.op} {p} {p2}"
        elif e.op == "chmod":
            text = f"chmod {p} {e.detail.get('mode', '')}"
        else:
            text = f"{e.op} {p}"
        n = int(e.detail.get("n", "0") or 0) if e.op == "write" else 0
        g = {"op": text, "seqs": [e.seq], "n": [n], "err": err, "inj": e.injected, "path": p, "kind": e.op,
             "killed": killed, "islog": islog}
        if e.op == "write" and groups:
            last = groups[-1]
            if last["kind"] == "write" and last["path"] == p and last["err"] is None and not last["killed"]:
                if not islog or len(last["seqs"]) < WRITES_PER_LOG_LINE:
                    last["seqs"].append(e.seq)
                    last["n"].append(n)
                    last["err"] = err
                    last["inj"] = last["inj"] or e.injected
                    last["killed"] = killed
                    continue
        groups.append(g)
    return groups


def show(groups, upto_kill=True):
    out = []
    for g in groups:
        if g["killed"] and g["inj"] in ("kill_before", "kill_mid") and len(g["seqs"]) == 1:
            break
        out.append(g["op"] + (f" !{g['err']}" if g["err"] else ""))
        if g["killed"]:
            break
    return out


def collapse_logs(items):
    """fine item strings -> the tuples of shim.abstract(…, keep_failed=True, logs='marker')"""
    out = []
    for s in items:
        base, _, err = s.partition(" !")
        f = base.split(" ")
        if f[0] == "log" or (len(f) > 1 and shim.is_log_path(f[1].replace("<ID>", "0" * 16).replace("<OLD>", "0" * 16))):
            if not out or out[-1] != ("log",):
                out.append(("log",))
            continue
        t = tuple(f)
        if err:
            t = t + ("ERR:" + err,)
        out.append(t)
    return out


def shim_view(events, old_id=None):
    """shim.abstract with the two extra placeholders applied"""
    out = []
    for t in shim.abstract(events, keep_failed=True, logs="marker"):
        t2 = []
        for x in t:
            if isinstance(x, str) and not x.startswith("ERR:"):
                if old_id:
                    x = x.replace(old_id, "<OLD>")
                x = _RE_REDO.sub(r"\1-<ID>-<TS>", _RE_LOCKTMP.sub("renamify.lock.PID.tmp", _RE_HISTTMP.sub("history.json.PID.tmp", shim.norm_path(x))))
            t2.append(x)
        out.append(tuple(t2))
    return out


def fault_points(groups, modes):
    """every (raw k, mode) of a fault-free trace with the model's (inj, j) for it"""
    pts = []
    occ_count = {}
    for j, g in enumerate(groups):
        m = len(g["seqs"])
        occ = occ_count.get(g["op"], 0)
        occ_count[g["op"]] = occ + 1
        for i, k in enumerate(g["seqs"]):
            for mode in modes:
                if mode == "fail":
                    inj = ("fail", j)
                elif mode == "kill_before":
                    inj = ("cb", j) if i == 0 else ("cm", j)
                elif mode == "kill_after":
                    inj = ("ca", j) if i == m - 1 else ("cm", j)
                elif mode == "kill_mid":
                    if g["kind"] != "write":
                        continue
                    if g["n"][i] >= 2:
                        inj = ("cm", j) if (m == 1 or g["islog"]) else ("cm", j)
                    else:
                        inj = ("cb", j) if i == 0 else ("cm", j)
                else:
                    raise ValueError(mode)
                pts.append({"k": k, "mode": mode, "inj": inj, "group": j, "pos": i, "of": m, "op": g["op"],
                            "occurrence": occ})
    return pts


# ------------------------------------------------------------------------------------------------
# running one point

def _cli_ok(args, d, what):
    rc, out, err = common.cli(args, d)
    if rc != 0:
        raise RuntimeError(f"setup step {what} failed rc={rc}: {err.decode('utf-8', 'replace')[-300:]}")


def setup(sc, d, perturb=None):
    """build the scenario up to the command under test; returns (args, info)"""
    common.materialize(d, full_tree(sc))
    info = {"old_id": None, "id": None}
    if sc["setup"] == "old":
        _cli_ok(["rename", OLD_S, OLD_R, "-y"] + FLAGS, d, "old rename")
        info["old_id"] = read_history(d)[1][0]
    cmd = sc["cmd"]
    if cmd == "rename":
        args = ["rename", SEARCH, REPLACE, "-y"] + FLAGS
    elif cmd == "replace":
        args = ["replace", SEARCH, REPLACE, "--no-regex", "-y"] + FLAGS
    elif cmd == "apply":
        _cli_ok(["plan", SEARCH, REPLACE, "--quiet"] + FLAGS, d, "plan")
        args = ["apply"] + FLAGS
        if perturb:
            apply_perturbation(d, perturb)
    elif cmd == "reapply":
        _cli_ok(["plan", SEARCH, REPLACE, "--quiet"] + FLAGS, d, "plan")
        _cli_ok(["apply"] + FLAGS, d, "apply")
        info["id"] = read_history(d)[1][-1]
        _cli_ok(["undo", info["id"]] + FLAGS, d, "undo")
        args = ["apply", info["id"]] + FLAGS
    elif cmd in ("undo", "redo"):
        _cli_ok(["rename", SEARCH, REPLACE, "-y"] + FLAGS, d, "rename")
        info["id"] = read_history(d)[1][-1]
        if cmd == "redo":
            _cli_ok(["undo", info["id"]] + FLAGS, d, "undo")
        args = [cmd, info["id"]] + FLAGS
    else:
        raise ValueError(cmd)
    return args, info


def apply_perturbation(d, p):
    """stale-plan perturbations between `plan` and `apply`: p = (kind, relpath)"""
    kind, rel = p[0], p[1]
    path = os.path.join(d, rel)

    def put(data):
        # like an editor that saves through a new file: another hard link to the old inode keeps the old bytes
        # (the tree model has independent files, so an in-place write through a shared inode would not be expressible)
        mode = os.stat(path).st_mode & 0o7777
        tmp = path + ".perturb.tmp"
        with open(tmp, "wb") as fh:
            fh.write(data)
        os.chmod(tmp, mode)
        os.replace(tmp, path)
    if kind == "line_tail":
        data = open(path, "rb").read()
        i = data.find(b"\n", p[2])
        i = len(data) if i < 0 else i
        put(data[:i] + b" // reviewed" + data[i:])
    elif kind == "edited":
        put(b"INSERTED " + open(path, "rb").read())
    elif kind == "truncated":
        put(b"f")
    elif kind == "deleted":
        os.unlink(path)
    elif kind == "latin1":
        put(b"caf\xe9 " + open(path, "rb").read())
    elif kind == "occupied":
        with open(path, "wb") as fh:          # rel = a planned destination
            fh.write(b"occupant\n")
    elif kind == "dir":
        os.unlink(path)
        os.mkdir(path)
    elif kind == "none":
        pass
    else:
        raise ValueError(kind)


_ALLOWED = re.compile(r"Content mismatch|destination already exists|History entry with ID|No plan file found|"
                      r"already been reverted|already been redone|has not been reverted|changed since it was|is already a revert|"
                      r"Cannot undo|Cannot redo|Plan with ID .* not found|Plan file not found")
_LEFTOVER = re.compile(r"File exists|lock|parse|temp file", re.I)


def blocked_by_leftover(rc, stderr):
    """a follow-up command may fail because the plan / history state it needs is stale — never because of a leftover file"""
    if rc == 0:
        return False
    if _LEFTOVER.search(stderr):
        return True
    return not _ALLOWED.search(stderr)


class _Preserved:
    """run something on the directory `d` and put `d` back exactly as it was (same absolute path: plan.json holds absolute paths)"""

    def __init__(self, d):
        self.d = d

    def __enter__(self):
        self.side = tempfile.mkdtemp(prefix="renamify-verif-keep.")
        self.copy = os.path.join(self.side, "state")
        shutil.copytree(self.d, self.copy, symlinks=True)
        return self

    def __exit__(self, *exc):
        for name in os.listdir(self.d):
            p = os.path.join(self.d, name)
            if os.path.isdir(p) and not os.path.islink(p):
                for dp, dn, fn in os.walk(p):
                    try:
                        os.chmod(dp, 0o755)
                    except OSError:
                        pass
                shutil.rmtree(p, ignore_errors=True)
            else:
                os.unlink(p)
        shutil.copytree(self.copy, self.d, symlinks=True, dirs_exist_ok=True)
        shutil.rmtree(self.side, ignore_errors=True)
        return False


def followups(d, same_args=None):
    """C11: the next commands must not be blocked by leftover state.  Each group runs on the crash state itself
    (the directory is put back in between): (a) the SAME command again, (b) a different rename that touches the same
    files, (c) status / history, then plan --dry-run, plan and a rename of an unrelated file."""
    res = {}
    if same_args is not None:
        with _Preserved(d):
            rc, out, err = common.cli(same_args, d)
            e = err.decode("utf-8", "replace")
            res["same"] = {"cmd": "renamify " + " ".join(same_args), "rc": rc, "stderr": e[-300:],
                           "blocked": blocked_by_leftover(rc, e)}
        with _Preserved(d):
            args = ["rename", OTHER_S, OTHER_R, "-y"] + FLAGS
            rc, out, err = common.cli(args, d)
            e = err.decode("utf-8", "replace")
            res["other"] = {"cmd": "renamify " + " ".join(args), "rc": rc, "stderr": e[-300:],
                            "blocked": blocked_by_leftover(rc, e)}
    for name in ("status", "history"):
        rc, out, err = common.cli([name] + FLAGS, d)
        res[name] = rc
        if rc != 0:
            res[name + "_err"] = err.decode("utf-8", "replace")[-200:]
    rc, out, err = common.cli(["plan", FOLLOW_S, FOLLOW_R, "--dry-run", "--quiet"] + FLAGS, d)
    res["plan_dry"] = rc
    rc, out, err = common.cli(["plan", FOLLOW_S, FOLLOW_R, "--quiet"] + FLAGS, d)
    res["plan"] = rc
    res["plan_err"] = err.decode("utf-8", "replace")[-200:] if rc != 0 else ""
    rc, out, err = common.cli(["rename", FOLLOW_S, FOLLOW_R, "-y"] + FLAGS, d)
    res["rename"] = rc
    res["rename_err"] = err.decode("utf-8", "replace")[-200:] if rc != 0 else ""
    try:
        res["follow_applied"] = open(os.path.join(d, "follow.txt"), "rb").read() == b"followup_b here\n"
    except OSError:
        res["follow_applied"] = False
    hs, he = read_history(d)
    res["hist_state"], res["hist"] = hs, he
    res["lock"] = lock_state(d)
    return res


def run_point(job):
    """job: {sc, k, mode, errno, perturb, follow}; k None = fault-free.  Returns the observation (picklable)."""
    sc = job["sc"]
    d = tempfile.mkdtemp(prefix="renamify-verif.")
    d = os.path.realpath(d)
    try:
        try:
            args, info = setup(sc, d, job.get("perturb"))
        except RuntimeError as ex:
            return {"job": _jobkey(job), "setup_error": str(ex)}
        pre = observe(d)
        plan = None
        pj = os.path.join(d, ".renamify", "plan.json")
        if os.path.exists(pj):
            plan = relplan(json.load(open(pj)), d)
        if job.get("k") is None:
            r = shim.trace(args, d)
        else:
            r = shim.fault(args, d, job["k"], job["mode"], errno=job.get("errno"))
        post = observe(d)
        obs = {"job": _jobkey(job), "rc": r.rc, "stderr": r.stderr.decode("utf-8", "replace")[-400:],
               "groups": fine(r.events, info["old_id"]), "shim_view": shim_view(r.events, info["old_id"]),
               "pre": pre, "post": post, "old_id": info["old_id"], "id": info["id"], "plan": plan,
               "raw_events": len([e for e in r.events if e.seq is not None])}
        if job.get("follow"):
            obs["follow"] = followups(d, args)
        return obs
    finally:
        for dp, dn, fn in os.walk(d):
            for x in dn:
                try:
                    os.chmod(os.path.join(dp, x), 0o755)
                except OSError:
                    pass
        shutil.rmtree(d, ignore_errors=True)


def _jobkey(job):
    return {"scenario": job["sc"]["name"], "k": job.get("k"), "mode": job.get("mode"), "errno": job.get("errno"),
            "perturb": job.get("perturb")}


def relplan(plan, root):
    """plan JSON with root-relative paths (what the oracle and the model request need)"""
    return {"id": plan.get("id"),
            "matches": [{"file": oracle.rel(root, m["file"]), "content": m["content"], "replace": m.get("replace", ""),
                         "start": m["start"], "end": m["end"]} for m in plan["matches"]],
            "paths": [{"kind": r["kind"], "path": oracle.rel(root, r["path"]), "new_path": oracle.rel(root, r.get("new_path", ""))}
                      for r in plan["paths"]]}


def plan_of(sc):
    """the plan the command under test executes, obtained from the real planner on the scenario's tree
    (`replace` plans with create_simple_plan: obtained from a --dry-run is not possible, so its plan is built
    from the same search with `plan`, which yields the same hunks for single-line literal matches)"""
    d = os.path.realpath(tempfile.mkdtemp(prefix="renamify-verif."))
    try:
        sc2 = dict(sc, cmd="apply")
        args, info = setup(sc2, d)
        pre = observe(d)
        plan = relplan(json.load(open(os.path.join(d, ".renamify", "plan.json"))), d)
        return plan, pre
    finally:
        shutil.rmtree(d, ignore_errors=True)


# ------------------------------------------------------------------------------------------------
# the model side

def model_request(sc, plan, pre_tree, inj, order=None, tree_override=None):
    """exectrace request line.  pre_tree: snapshot (normalised) of the user tree BEFORE the plan is applied."""
    tree = gen.snap_to_tree(tree_override if tree_override is not None else pre_tree)
    hunks = [(m["file"], m["content"], m["replace"], m["start"], m["end"]) for m in plan["matches"]]
    rens = [("d" if r["kind"] == "dir" else "f", r["path"], r["new_path"]) for r in plan["paths"]]
    order = order or []
    f = ["exectrace", sc["cmd"], sc["setup"]] + gen.wire_tree(tree) + gen.wire_hunks(hunks) + gen.wire_rens(rens)
    f += ["ORD", str(len(order))] + [common.hexs(p) for p in order]
    f += [inj[0]] + ([str(inj[1])] if inj[0] != "none" else [])
    return " ".join(f)


def parse_model(line):
    parts = line.split("|")
    if len(parts) != 8:
        return None
    out = {"outcome": parts[0], "ops": [x for x in parts[1].split(";") if x],
           "tree": gen.parse_wire_tree(parts[2]), "hist": parts[3][2:], "lock": parts[4][2:], "stored": parts[5][2:],
           "lock_tmp": parts[6][2:] == "1", "leftover_blocks": parts[7][2:] == "1"}
    return out


def hist_letters(obs, which):
    """the model's view of an observed history: absent | bad | [letters]"""
    st = obs[which]
    if st["hist_state"] != "ok":
        return st["hist_state"]
    out = []
    for i in st["hist"]:
        if obs.get("old_id") and i == obs["old_id"]:
            out.append("O")
        elif i.startswith("revert-"):
            out.append("U")
        elif i.startswith("redo-"):
            out.append("R")
        else:
            out.append("A")
    return "[" + "".join(out) + "]"


def stored_flag(obs, cmd):
    """is the plan of THIS command stored (non-empty)?"""
    before, after = obs["pre"]["plans"], obs["post"]["plans"]
    if cmd in ("undo", "reapply"):
        return None
    new = [f for f in after if f not in before]
    if cmd == "redo":
        new = [f for f in new if f.startswith("redo-")]
    return "1" if any(after[f] > 0 for f in new) else "0"


def rc_class(rc):
    if rc == 0:
        return "ok"
    if rc == 101:
        return "panic"
    if rc < 0:
        return "crashed"
    return "fail"


def undo_order(obs, plan):
    """the order in which the real undo patched the edited files (prefix seen in the trace, rest sorted)"""
    files = sorted({m["file"] for m in plan["matches"]})
    by_tmp = {tmp_of(f): f for f in files}
    by_tmp.update({tmp_of(f).replace(".PID.renamify.tmp", ".renamify.tmp"): f for f in files})   # fixed temp names
    seen = []
    for g in obs["groups"]:
        f = g["path"] if g["path"] in files else by_tmp.get(g["path"])
        if g["kind"] == "openw" and f is not None and f not in seen:
            seen.append(f)
    return seen + [f for f in files if f not in seen]


def tmp_of(rel):
    """`Path::with_extension("<pid>.renamify.tmp")` in the placeholder form of the trace abstraction"""
    d, base = os.path.split(rel)
    i = base.rfind(".")
    stem = base if i <= 0 else base[:i]
    return os.path.join(d, stem + ".PID.renamify.tmp")


def compare_state(obs, model, cmd):
    """post-state of the real run vs the model's prediction -> list of differences"""
    diffs = []
    if rc_class(obs["rc"]) != model["outcome"]:
        diffs.append(("outcome", model["outcome"], rc_class(obs["rc"])))
    if obs["post"]["tree"] != model["tree"]:
        diffs.append(("tree", common.snap_diff(model["tree"], obs["post"]["tree"])))
    h = hist_letters(obs, "post")
    if h != model["hist"]:
        diffs.append(("history", model["hist"], h))
    if obs["post"]["lock"] != model["lock"]:
        diffs.append(("lock", model["lock"], obs["post"]["lock"]))
    if obs["post"].get("lock_tmp", False) != model.get("lock_tmp", False):
        diffs.append(("lock_tmp", model.get("lock_tmp"), obs["post"].get("lock_tmp")))
    sf = stored_flag(obs, cmd)
    if sf is not None and sf != model["stored"]:
        diffs.append(("stored_plan", model["stored"], sf))
    return diffs


# ------------------------------------------------------------------------------------------------
# campaigns

def phase_map(groups):
    """phase name per group index of a trace, from its own structure:
    lock | probe | init | content | renames | backup | history | plans | final   (undo: renames | patches | history)"""
    ph = []
    cur = "init"
    seen_content = False
    for g in groups:
        op, path, kind = g["op"], g["path"] or "", g["kind"]
        if "renamify.lock" in path:
            p = "lock"
        elif ".tmpRAND" in path:
            p = "probe"
        elif path.endswith(".PID.renamify.tmp") or (kind == "rename" and ".PID.renamify.tmp" in op):
            cur = p = "content"
            seen_content = True
        elif "/backups" in path:
            cur = p = "backup"
        elif "history.json" in path:
            cur = p = "history"             # (also the rename of history.json.<pid>.tmp over history.json)
        elif "/plans" in path:
            cur = p = "plans"
        elif path.endswith("plan.json"):
            cur = p = "final"
        elif kind == "rename":
            cur = p = "renames"
        elif not path.startswith(".renamify") and kind in ("openw", "write", "chmod"):
            cur = p = "patches"            # undo writes user files in place
        else:
            p = cur                          # log lines, mkdir .renamify…: the phase they occur in
        ph.append(p)
    # `mkdir .renamify` that precedes `openw history.json` belongs to the history save
    for i in range(len(groups) - 1):
        if groups[i]["op"].startswith("mkdir .renamify") and groups[i]["path"] == ".renamify" and \
                "history.json" in groups[i + 1]["path"]:
            ph[i] = "history"
    return ph


def campaign(pool, scs, modes, errnos, follow, thin_logs=False, log=None):
    """yield (sc, plan, pre0, base, exp_tree, point, errno, obs) for every fault point of every scenario"""
    for sc in scs:
        plan, pre0 = plan_of(sc)
        base = run_point({"sc": sc, "k": None, "follow": False})
        if "setup_error" in base:
            yield sc, plan, pre0, base, None, None, None, None
            continue
        pts = fault_points(base["groups"], modes)
        if thin_logs:
            pts = [p for p in pts if not base["groups"][p["group"]]["islog"] or p["pos"] in (0, p["of"] - 1)]
        ph = phase_map(base["groups"])
        for p in pts:
            p["phase"] = ph[p["group"]]
        jobs, meta = [], []
        for en in errnos:
            for p in pts:
                if p["mode"] != "fail" and en != errnos[0]:
                    continue
                jobs.append({"sc": sc, "k": p["k"], "mode": p["mode"], "errno": en if p["mode"] == "fail" else None,
                             "follow": follow})
                meta.append((p, en))
        if log:
            log(f"{sc['name']}: {len(base['groups'])} ops / {base['raw_events']} raw calls, {len(jobs)} fault points")
        res = pool.map(run_point, jobs, chunksize=2)
        exp_tree, prob = oracle.expected_tree(pre0["tree"], plan, "/")
        yield sc, plan, pre0, base, exp_tree, None, None, None
        for (p, en), obs in zip(meta, res):
            yield sc, plan, pre0, base, exp_tree, p, en, obs


def model_for(sc, plan, pre0, items):
    """items: list of (point, obs) -> parsed model predictions (one rmodel process for all)"""
    reqs = []
    for p, obs in items:
        order = undo_order(obs, plan) if sc["cmd"] == "undo" else None
        reqs.append(model_request(sc, plan, pre0["tree"], p["inj"] if p else ("none",), order))
    return [parse_model(l) for l in common.run_model(reqs)], reqs


def model_trace_for_fail(model, point):
    return [x.replace(" !EIO", " !INJ") if i == point["inj"][1] else x for i, x in enumerate(model["ops"])]


def tree_shape(pre, post, exp):
    """mechanical classification of how the user tree after the run differs from the one before"""
    cats = set()
    for k in post:
        if k.endswith(".PID.renamify.tmp"):
            cats.add("tmp_left")
        elif k == ".tmpRAND" or k.startswith(".tmpRAND/"):
            cats.add("probe_left")
        elif k.endswith(".rej"):
            cats.add("rej_left")
    core_post = {k: v for k, v in post.items()
                 if not (k.endswith(".PID.renamify.tmp") or k == ".tmpRAND" or k.startswith(".tmpRAND/") or k.endswith(".rej"))}
    if core_post == pre:
        return cats
    if exp is not None and core_post == exp:
        cats.add("fully_applied")
        return cats
    moved = [k for k in pre if k not in core_post]
    if moved:
        cats.add("paths_moved")
    newc = {}
    if exp is not None:
        # content of each file after the plan, keyed by its ORIGINAL path
        pass
    for k, v in pre.items():
        if k in core_post and core_post[k] != v:
            cats.add("content_changed")
    return cats


# ------------------------------------------------------------------------------------------------
# "apply refused for a reason that is only detected late": re-applying a plan whose id is already in the history

def late_trees():
    T = trees()
    t = {"e3r2nest": T["e3r2nest"], "e3r0": T["e3r0"], "e2r3nest": T["e2r3nest"],
         "ronly": {"foo_bar": ("d", 0o755), "foo_bar/keep.txt": ("f", b"nothing\n", 0o644),
                   "foo_bar_x": ("d", 0o755)}}
    return t


def late_jobs(thorough):
    names = ["e3r2nest", "e3r0", "ronly"] + (["e2r3nest"] if thorough else [])
    T = late_trees()
    return [{"name": f"{n}/{seq}/{how}", "tree": T[n], "seq": seq, "how": how}
            for n in names for seq in ("undo", "redo", "applied") for how in ("id", "file")]


def run_late(job):
    """plan; apply; [undo <id>]; [redo <id>]; then `apply <id>` | `apply <saved plan file>` under the shim.
    Returns the observation around that LAST command plus the command sequence."""
    d = os.path.realpath(tempfile.mkdtemp(prefix="renamify-verif."))
    side = os.path.realpath(tempfile.mkdtemp(prefix="renamify-verif-plan."))
    cmds = []
    try:
        tree = dict(job["tree"])
        tree.update(EXTRA)
        common.materialize(d, tree)

        def step(args):
            cmds.append("renamify " + " ".join(a if not a.startswith(side) else "<saved plan file>" for a in args))
            rc, out, err = common.cli(args, d)
            return rc, err.decode("utf-8", "replace")
        rc, err = step(["plan", SEARCH, REPLACE, "--quiet"] + FLAGS)
        if rc != 0:
            return {"job": job["name"], "setup_error": "plan: " + err[-200:]}
        pj = os.path.join(d, ".renamify", "plan.json")
        plan = relplan(json.load(open(pj)), d)
        pre0 = observe(d)
        saved = os.path.join(side, "saved-plan.json")
        shutil.copy(pj, saved)
        rc, err = step(["apply"] + FLAGS)
        if rc != 0:
            return {"job": job["name"], "setup_error": "apply: " + err[-200:]}
        pid = read_history(d)[1][-1]
        if job["seq"] in ("undo", "redo"):
            rc, err = step(["undo", pid] + FLAGS)
            if rc != 0:
                return {"job": job["name"], "setup_error": "undo: " + err[-200:]}
        if job["seq"] == "redo":
            rc, err = step(["redo", pid] + FLAGS)
            if rc != 0:
                return {"job": job["name"], "setup_error": "redo: " + err[-200:]}
        pre = observe(d)
        last = ["apply", pid if job["how"] == "id" else saved] + FLAGS
        cmds.append("renamify " + " ".join(a if not a.startswith(side) else "<saved plan file>" for a in last)
                    .replace(pid, "<id of the plan>"))
        r = shim.trace(last, d)
        post = observe(d)
        return {"job": job["name"], "rc": r.rc, "stderr": r.stderr.decode("utf-8", "replace")[-300:], "pre": pre, "post": post,
                "pre0": pre0, "plan": plan, "groups": fine(r.events, None), "old_id": None, "id": pid,
                "commands": [c.replace(pid, "<id of the plan>") for c in cmds]}
    finally:
        shutil.rmtree(d, ignore_errors=True)
        shutil.rmtree(side, ignore_errors=True)
