"""C16 — CLI fuzz-style stream: case generator, executor and oracle (used by checks/c16.py).

A case is a JSON-serialisable dict (byte strings hex-coded) so that it can be stored as a replay file as is:

  {"idx": n, "family": "...",
   "tree":  [["f", <name hex>, <content hex>] | ["d", <name hex>] ...],      # relative paths, bytes
   "state": [[<path below .renamify, utf-8>, <content hex>] ...],            # hostile workspace state, written first
   "steps": [ {"argv": [...]}                                               # one CLI invocation
            | {"mutate": "write", "file": <name hex>, "content": <hex>}     # between plan and apply
            | {"mutate": "plan", "how": <name>, "arg": n}                   # rewrite offsets in .renamify/plan.json
            | {"mutate": "lock", "content": <hex>} ]}

Oracle per CLI invocation (the property itself, no model involved): the process terminates, was not killed by a
signal, its exit status is one of 0/1/2/3/130, stderr has no `panicked at`, and a non-zero status comes with a
message on stderr.
"""
import json
import os
import re
import resource
import subprocess
import time

from . import common, gen

DOCUMENTED = (0, 1, 2, 3, 130)
TIMEOUT = 40
MEM_LIMIT = 4 << 30      # address-space limit per CLI process: an unbounded loop that allocates ends in abort, not in swap


def _limits():
    resource.setrlimit(resource.RLIMIT_AS, (MEM_LIMIT, MEM_LIMIT))
    resource.setrlimit(resource.RLIMIT_CORE, (0, 0))

H = lambda b: (b.encode() if isinstance(b, str) else b).hex()
U = lambda s: bytes.fromhex(s)

# ---------------------------------------------------------------------------------------------------
# hostile atoms, biased to the modelled sites

INVALID = [b"\xff", b"\xc3", b"\xe2\x82", b"\xed\xa0\x80", b"\xf0\x9f\x98", b"\xc0\xaf", b"\x80", b"\xfe\xff"]
# characters whose lower-casing changes the UTF-8 length: İ (2 -> 3), ẞ (3 -> 2), K Kelvin (3 -> 1), Å Angstrom (3 -> 2), Ω Ohm (3 -> 2)
LENCHG = ["\u0130", "\u1e9e", "\u212a", "\u212b", "\u2126", "\u023a", "\u023e"]
MULTI = ["é", "日本", "ß", "→", "😀", "e\u0301", "\u2028", "\u00a0", "\ufeff", "İ"]
CTRL = [b"\x00", b"\r", b"\r\r", b"\x0b", b"\x1b[31m", b"\t", b"\x7f"]
META = ["foo(bar", "a.*b", "[", "\\", "(?P<", "$^", "a|b", "x{2,", "(", ")", "*", "+", "?", "^", "$", ".", "\\d+", "[a-z]+_[a-z]+",
        "(foo)_(bar)", "(?i)foo", "\\b", "a{99999}", "(?<n>x)", "\\p{Greek}", "(a*)*b", "$1", "${name}", "$0$0", "\\xff", "(?-u:\\xff)"]
SEPS = ["_", "-", "__", " ", ".", "--", "_-_", "  ", "/", "::"]
SINGLE = ["a", "Z", "0", "é", "İ", "日", "😀", "_", "x"]
NONASCII = ["AÃb", "idÉx", "日本語", "Straße", "İstanbul", "naïve_café", "ΑΒΓ", "привет_мир", "ǅungla", "ﬁ_ligature", "K_elvin", "Ⅷ"]
ODD = ["", "foo bar", "Foo Bar", "foo\nbar", "2fa", "123", "a_b", "fooBar", "FOO_BAR", "foo-bar", "foo.bar", "fooBARBaz", "foo__bar",
       "_foo_bar", "foo_bar_", "-foo", "--", "foo/bar", "../x", "x" * 1000, "a" * 300 + "_" + "b" * 300, "foo_bar" * 40, "É", "ID", "Api",
       "foo's", "\"q\"", "`x`", "$HOME", "%s%n", "\t"]


# `replace` in regex mode: capture groups that are optional / in one arm of an alternation / named / never matching,
# and replacements that mention groups (set, unset, out of range), `$0`, `${name}`, `$$`
GROUP_PATTERNS = [r"(?:set_(\w+)|get_(\w+))\(", r"(s)?et_(\w+)", r"(?P<verb>set|get)_(?P<what>\w+)", r"(foo)|(bar)", r"(a)?(b)?(c)?x",
                  r"(\d+)?-(\w+)", r"((a)|b)+", r"(?:(x)|y)*z", r"(never_matches_zzz)?\w+_(\w+)", r"(\w+)_(\w+)(_(\w+))?",
                  r"()()()()()()()()()()()(q)?(\w)", r"(?P<n>\d)?(?P<w>[a-z]+)", r"(é)?(\w+)", r"^(\s+)?(\S+)", r"(.)?$", r"(a)|", r"(?:(a)){0}b"]
GROUP_REPLACEMENTS = ["$1", "$2", "[$1|$2]", "$0", "$0$0", "$9", "$12", "$13", "${1}x", "${verb}_${what}", "${n}", "${nope}", "$$", "$$1", "$", "$1$",
                      "pre_$2_post", "$3$2$1", "\\$1", "${", "$name", "$1$2$3$4$5$6$7$8$9$10$11$12$13", "", "é$1"]
GROUP_LINES = ["set_alpha(1); get_beta(2);", "get_x()", "set_y()", "et_z", "foo bar foobar", "abcx x bx", "12-ab -cd", "bbab", "yyz xz z", "a_b a_b_c",
               "q7 7", "5abc abc", "éfoo foo", "  indented", "", "b", "plain words_here only", "get_é() set_日本()", "\xff get_q( \xff"]


def gen_group_replace(rng):
    pat = rng.choice(GROUP_PATTERNS)
    rep = rng.choice(GROUP_REPLACEMENTS)
    lines = [rng.choice(GROUP_LINES) for _ in range(rng.randint(1, 5))]
    content = "\n".join(lines).encode("utf-8").replace(b"\\xff", b"\xff") + (b"\n" if rng.random() < 0.8 else b"")
    mode = rng.choice([["--dry-run"], ["--dry-run", "--preview", "diff"], ["--preview", "diff", "-y"], ["-y"], ["--dry-run", "--output", "json"],
                       ["-y", "--output", "json"], ["--dry-run", "--preview", "matches"], ["--dry-run", "--preview", "table"]])
    literal = rng.random() < 0.15
    return pat, rep, content, mode + (["--no-regex"] if literal else [])


def term_pool(rng):
    """(search, replace, words or None): words are set when the term is an ordinary multi-word identifier"""
    r = rng.random()
    if r < 0.40:
        sw, rw = gen.pick_terms(rng)
        return gen.render(rng.choice(gen.STYLES), sw), gen.render(rng.choice(gen.STYLES), rw), sw
    if r < 0.52:
        # an ordinary search term (so that compound identifiers embedding it exist in the files, see `occurrences`) and a
        # replacement — sometimes also the search term — one of whose WORDS starts with, ends with or contains a multi-byte
        # character: the case conversions and the compound matcher capitalise / slice words of the replacement
        sw, rw = gen.pick_terms(rng)
        def spice(words):
            ws = list(words)
            i = rng.randrange(len(ws))
            ch = rng.choice(["é", "ü", "ñ", "ß", "İ", "日", "😀", "ǆ", "ﬁ", "\u0301"])
            w = ws[i]
            k = rng.choice([0, 0, 0, len(w), max(1, len(w) // 2)])
            ws[i] = (ch + w[1:]) if (k == 0 and rng.random() < 0.5) else (w[:k] + ch + w[k:])
            return ws
        rw2 = spice(rw)
        sw2 = spice(sw) if rng.random() < 0.25 else sw
        return (gen.render(rng.choice(gen.STYLES), sw2), gen.render(rng.choice(gen.STYLES), rw2), sw if sw2 == sw else None)
    pool = META + SEPS + SINGLE + NONASCII + ODD
    s = rng.choice(pool)
    r2 = rng.random()
    if r2 < 0.25:
        rep = ""
    elif r2 < 0.5:
        rep = rng.choice(pool)
    elif r2 < 0.6:
        rep = s
    else:
        rep = gen.render(rng.choice(gen.STYLES), rng.sample(gen.VOCAB, rng.randint(1, 3)))
    return s, rep, None


def occurrences(rng, search, words):
    """byte strings in which the term occurs (different styles for ordinary terms)"""
    if words:
        pas, cam, snk = gen.render("pascal", words), gen.render("camel", words), gen.render("snake", words)
        compound = rng.sample(["get" + pas + "Value", pas + "Impl", "my_" + snk + "_x", cam + "Handler", "New" + pas, snk + "_2",
                               "X" + gen.render("screaming_snake", words) + "_MAX", "pre-" + gen.render("kebab", words) + "-post"], 3)
        return ([gen.render(st, words).encode() for st in rng.sample(gen.STYLES, 4)] + [search.encode()]
                + [c.encode() for c in compound])
    return [search.encode()] * 2 + [search.upper().encode(), search.lower().encode()]


def hostile_piece(rng):
    r = rng.random()
    if r < 0.3:
        return rng.choice(INVALID)
    if r < 0.55:
        return rng.choice(LENCHG).encode()
    if r < 0.7:
        return rng.choice(MULTI).encode()
    if r < 0.82:
        return rng.choice(CTRL)
    if r < 0.9:
        return rng.choice(gen.FILLER).encode()
    return bytes(rng.randrange(256) for _ in range(rng.randint(1, 4)))


def gen_line(rng, occs):
    """a line with a match and hostile bytes before / directly adjacent / after it"""
    parts = []
    for _ in range(rng.randint(0, 3)):
        parts.append(hostile_piece(rng))
        if rng.random() < 0.5:
            parts.append(b" ")
    for _ in range(rng.randint(0, 3)):
        if rng.random() < 0.85:
            occ = rng.choice(occs)
            glue = rng.choice([b"", b"", b" ", b"_", b"-", b".", b"(", b"\"", b"/"])
            parts.append(glue)
            if rng.random() < 0.3:
                parts.append(hostile_piece(rng))      # directly in front of the match
            parts.append(occ)
            if rng.random() < 0.3:
                parts.append(hostile_piece(rng))      # directly behind
            parts.append(rng.choice([b"", b" ", b";", b")", b"_x", b"s", b"Test"]))
        else:
            parts.append(hostile_piece(rng))
    return b"".join(parts)


def gen_content(rng, occs):
    r = rng.random()
    if r < 0.05:
        return b""
    if r < 0.08:
        return b"\n"
    if r < 0.14:
        # very long line, match at the end / in the middle
        n = rng.choice([10 ** 5, 10 ** 5 + 1, 65536, 200000])
        fill = rng.choice([b"x", b"ab ", "é".encode(), b"\xff", b"_", b"foo "])
        body = (fill * (n // len(fill) + 1))[:n]
        occ = rng.choice(occs)
        return rng.choice([body + b" " + occ + b"\n", occ + b" " + body, body[: n // 2] + b" " + occ + b" " + body[n // 2:] + b"\n" + occ])
    nl = rng.choice([b"\n", b"\n", b"\n", b"\r\n", b"\r", b"\n\r"])
    lines = [gen_line(rng, occs) for _ in range(rng.randint(1, 6))]
    body = nl.join(lines)
    if rng.random() < 0.7:
        body += nl
    if rng.random() < 0.05:
        body = b"\xef\xbb\xbf" + body
    if rng.random() < 0.04:
        body = b"\xff\xfe" + body.decode("utf-8", "replace").encode("utf-16-le")
    return body


NAME_HOSTILE = [b" ", b"'", b"\"", b"\n", b"\xff", b"\xc3", "İ".encode(), "é".encode(), "日本".encode(), b"\\", b"*", b"?", b"[", b"$(x)",
                b";", b"&", b"\t", b"\r", b"-", b"--", b".", b"..x", b":", b"%", b"\x1b", "\u212a".encode(), b"#", b"~", b"|", b"\x7f", b"\x01"]


def gen_name(rng, occs, used):
    for _ in range(20):
        r = rng.random()
        parts = []
        if r < 0.65:
            if rng.random() < 0.4:
                parts.append(rng.choice(NAME_HOSTILE))
            parts.append(rng.choice(occs))
            if rng.random() < 0.5:
                parts.append(rng.choice(NAME_HOSTILE))
            if rng.random() < 0.3:
                parts.append(rng.choice([b"_test", b"-impl", b"s", b"2"]))
        elif r < 0.8:
            parts.append(rng.choice([b"main", b"lib", b"README", b"notes", b"src"]))
        else:
            parts += [rng.choice(NAME_HOSTILE) for _ in range(rng.randint(1, 3))]
            parts.append(b"x")
        if rng.random() < 0.5:
            parts.append(rng.choice([b".txt", b".rs", b".md", b".js", b".", b".tar.gz", b".JSON", b".json"]))
        name = b"".join(parts).replace(b"/", b"_").replace(b"\x00", b"0")
        if rng.random() < 0.04:
            name = (name + b"_" + b"L" * 255)[:255]          # NAME_MAX
        name = name[:255]
        if name in (b"", b".", b"..", b".renamify", b".git") or name.lower() in used:
            continue
        used.add(name.lower())
        return name
    n = b"f%d" % len(used)
    used.add(n)
    return n


def gen_tree(rng, occs):
    tree = []

    def fill(prefix, depth):
        used = set()
        for _ in range(rng.randint(1, 3)):
            if len(tree) >= 8:
                return
            name = gen_name(rng, occs, used)
            if len(prefix) + len(name) > 3000:
                continue
            if rng.random() < 0.3 and depth < 3:
                tree.append(["d", H(prefix + name)])
                fill(prefix + name + b"/", depth + 1)
            else:
                tree.append(["f", H(prefix + name), H(gen_content(rng, occs))])
    fill(b"", 1)
    if not any(t[0] == "f" for t in tree):
        tree.append(["f", H(b"a.txt"), H(gen_content(rng, occs))])
    return tree


# ---------------------------------------------------------------------------------------------------
# options

STYLE_ARGS = ["snake", "kebab", "camel", "pascal", "screaming-snake", "title", "train", "screaming-train", "dot", "lower-flat",
              "upper-flat", "sentence", "lower-sentence", "upper-sentence", "space-separated"]
PREVIEWS = ["table", "diff", "matches", "summary", "none"]
SEARCH_PREVIEWS = ["table", "matches", "summary", "none"]
BAD_REGEX = ["(", "[", "a{", "(?P<", "\\", "*", "a{99999}{99999}", "(?<=x)", "\\1", "[z-a]"]


def sub(rng, xs, lo=1, hi=3):
    return ",".join(rng.sample(xs, rng.randint(lo, min(hi, len(xs)))))


def gen_opts(rng, cmd, search):
    o = []
    p = rng.random
    if cmd in ("plan", "rename", "search"):
        r = p()
        if r < 0.12:
            o += ["--only-styles", sub(rng, STYLE_ARGS, 1, 4)]
        elif r < 0.2:
            o += ["--exclude-styles", sub(rng, STYLE_ARGS, 1, 4)]
        elif r < 0.28:
            o += ["--include-styles", sub(rng, STYLE_ARGS, 1, 4)]
        elif r < 0.3:
            o += ["--only-styles", "snake", "--include-styles", "dot"]     # clap conflict -> 2
        if p() < 0.1:
            o += ["--ignore-ambiguous"]
        if p() < 0.1:
            o += ["--no-plural-variants"]
        r = p()
        if r < 0.06:
            o += ["--no-acronyms"]
        elif r < 0.12:
            o += ["--include-acronyms", rng.choice(["FOO", "K8S,BAR", "", "é", "a", search[:8] or "X", search[:2] or "Ã", "AÃ,É"])]
        elif r < 0.16:
            o += ["--exclude-acronyms", rng.choice(["API", "ID,URL", ""])]
        elif r < 0.2:
            o += ["--only-acronyms", rng.choice(["FOO", "", "ID", "İ", search[:2] or "Ã", "AÃ"])]
    if cmd in ("plan", "rename", "replace"):
        if p() < 0.1:
            o += ["--include", rng.choice(["*.txt", "**/*", "src/**", "[", "{a,b}", "**/" + (search[:10] or "x") + "*", ""])]
        if p() < 0.1:
            o += ["--exclude", rng.choice(["*.md", "**/*.rs", "[", "***", "a/**/b", ""])]
        r = p()
        if r < 0.08:
            o += ["--no-rename-files"]
        elif r < 0.16:
            o += ["--no-rename-dirs"]
        elif r < 0.24:
            o += ["--no-rename-paths"]
    if cmd == "search":
        if p() < 0.1:
            o += ["--include", rng.choice(["*.txt", "[", "**/*"])]
        if p() < 0.1:
            o += ["--exclude", rng.choice(["*.md", "[", "***"])]
    if cmd in ("plan", "rename"):
        if p() < 0.1:
            o += ["--exclude-match", rng.choice([search, search.upper(), "x,y", "", "İ"])]
        r = p()
        if r < 0.06:
            o += ["--atomic-identifiers"]
        elif r < 0.12:
            o += ["--atomic-search"]
        elif r < 0.18:
            o += ["--atomic-replace"]
        elif r < 0.22:
            o += ["--no-atomic-identifiers"]
        elif r < 0.24:
            o += ["--atomic-identifiers", "--atomic-search"]               # clap conflict -> 2
    if cmd in ("plan", "rename", "replace", "search"):
        if p() < 0.12:
            o += ["--exclude-matching-lines", rng.choice(["^\\s*//", "x", ".*", "("] + BAD_REGEX[:3] + ["\\xff", "(?-u:\\xff)", ""])]
        r = p()
        pv = SEARCH_PREVIEWS if cmd == "search" else PREVIEWS
        if r < 0.6:
            o += ["--preview", rng.choice(pv)]
        if p() < 0.25:
            o += ["--output", "json"]
        if p() < 0.15:
            o += ["--quiet"]
    if cmd in ("plan", "search") and p() < 0.15:
        o += ["--fixed-table-width"]
    if cmd in ("plan", "rename", "replace") and p() < 0.15:
        o += ["--dry-run"]
    if cmd in ("rename", "replace"):
        if p() < 0.1:
            o += ["--large"]
        if p() < 0.15:
            o += ["--force-with-conflicts"]
    if cmd == "rename":
        if p() < 0.1:
            o += ["--confirm-collisions"]
        r = p()
        if r < 0.08:
            o += ["--rename-root"]
        elif r < 0.16:
            o += ["--no-rename-root"]
    if cmd == "replace" and p() < 0.45:
        o += ["--no-regex"]
    # global options
    r = p()
    if r < 0.1:
        o += ["-u"]
    elif r < 0.2:
        o += ["-uu"]
    elif r < 0.28:
        o += ["-uuu"]
    return o


def positional(rng, args):
    """terms that start with '-' need `--`; sometimes we leave it out on purpose (clap rejects: status 2)"""
    if any(a.startswith("-") for a in args) and rng.random() < 0.8:
        return ["--"] + args
    return args


def base_flags(rng):
    r = rng.random()
    if r < 0.85:
        return ["--no-auto-init"]
    if r < 0.9:
        return ["--auto-init", rng.choice(["repo", "local", "bogus"])]
    if r < 0.95:
        return ["-y"]
    return []


def argv_for(rng, cmd, search, repl, extra_paths=()):
    o = gen_opts(rng, cmd, search)
    if cmd == "search":
        pos = [search]
    else:
        pos = [search, repl]
    pos += list(extra_paths)
    if cmd in ("rename", "replace") and "--dry-run" not in o:
        o += ["-y"]
    return [cmd] + base_flags(rng) + o + positional(rng, pos)


# ---------------------------------------------------------------------------------------------------
# hostile workspace state

def gen_state(rng):
    st = []
    r = rng.random()
    now = 1790000000
    if r < 0.35:
        st.append(["renamify.lock", H(rng.choice([
            b"1:99999999999", b"1:18446744073709551615", b"4294967295:" + str(now * 2).encode(), b"1:0", b"0:0", b"", b":", b"::", b"abc",
            b"1:2:3", b"-1:-1", b"1:18446744073709551616", b"\xff\xfe", b"1:" + b"9" * 400, b" 1 : 2 ", b"1:99999999999\n", b"99999999:0",
            b"1:1e9", b"\x00", "١:٢".encode()]))])
    elif r < 0.6:
        st.append(["history.json", H(rng.choice([
            b"", b"[", b"{}", b"null", b"[null]", b"[{}]", b"[1,2]", b"\xff", b"[{\"id\":1}]", b"{\"entries\":[]}", b"[]" + b" " * 10,
            b"[{\"id\":\"a\",\"created_at\":\"x\",\"search\":\"s\",\"replace\":\"r\",\"styles\":[],\"includes\":[],\"excludes\":[],"
            b"\"affected_files\":{},\"renames\":[],\"backups_path\":\"/nonexistent\",\"revert_of\":null,\"redo_of\":null}]",
            b"[{\"id\":\"a\",\"created_at\":\"x\",\"search\":\"s\",\"replace\":\"r\",\"styles\":[],\"includes\":[],\"excludes\":[],"
            b"\"affected_files\":{\"/etc/hostname\":\"00\"},\"renames\":[[\"/nonexistent/a\",\"/nonexistent/b\"]],\"backups_path\":\"\",\"revert_of\":\"zz\",\"redo_of\":null}]",
            b"[" * 2000, b"\"" + b"x" * 100,
            json.dumps([{"id": "x\u65e5\u672c\u8a9e\u65e5\u672c\u8a9e", "created_at": "\u0130", "search": "", "replace": "", "styles": [], "includes": [],
                         "excludes": [], "affected_files": {"a.txt": "\u00e9"}, "renames": [["a.txt", "a.txt"]], "backups_path": ".",
                         "revert_of": None, "redo_of": None}]).encode()]))])
    elif r < 0.8:
        st.append(["plan.json", H(rng.choice([
            b"", b"{", b"{}", b"null", b"[]", b"\xff", b"{\"id\":1}", b"{\"matches\":\"x\"}", b"{\"id\":\"a\",\"matches\":[{\"start\":-1}]}",
            json.dumps({"id": "a", "created_at": "0", "search": "s", "replace": "r", "styles": [], "includes": [], "excludes": [],
                        "matches": [], "paths": [], "stats": {"files_scanned": 0, "total_matches": 0, "matches_by_variant": {}, "files_with_matches": 0},
                        "version": "1.0.0"}).encode(),
            json.dumps({"id": "../../x", "created_at": "0", "search": "s", "replace": "r", "styles": [], "includes": [], "excludes": [],
                        "matches": [{"file": "/nonexistent/f", "line": 0, "byte_offset": 0, "char_offset": 0, "variant": "s", "content": "s",
                                     "replace": "r", "start": 18446744073709551615, "end": 0}],
                        "paths": [{"path": "/nonexistent/a", "new_path": "/nonexistent/b", "kind": "file"}],
                        "stats": {"files_scanned": 0, "total_matches": 1, "matches_by_variant": {}, "files_with_matches": 1},
                        "version": "9"}).encode(),
            json.dumps({"id": "a", "matches": [{"start": 1e99}]}).encode()]))])
    else:
        st.append(["config.toml", H(rng.choice([b"[", b"defaults = 1", b"[defaults]\npreview_format = \"bogus\"\n", b"\xff",
                                               b"[defaults]\npreview_format = 5\n", b"[defaults]\npreview_format = \"json\"\n"]))])
    if rng.random() < 0.2:
        st.append(["backups", H(b"not a directory")])
    return st


OVERLAPS = ["overlap_nested", "overlap_straddle_right", "overlap_straddle_left", "overlap_same_start", "overlap_same_end",
            "overlap_adjacent", "overlap_reversed", "dup_other_replacement", "overlap_enclosing"]
PLAN_MUTATIONS = OVERLAPS + OVERLAPS + ["dup_eof", "dup_eof", "past_eof", "at_eof", "mid_char", "swap", "huge", "shift1", "neg", "float", "string", "null", "empty_file", "dup",
                  "file_missing", "file_dir", "content_nonutf8", "line0", "rename_self", "rename_outside"]


def write_plan(root, hunks):
    """.renamify/plan.json for hunks [file name hex, before, after, start, end] (absolute paths are only known here)"""
    ms = []
    for f, b, a, st, en in hunks:
        ms.append({"file": os.path.join(root, os.fsdecode(U(f))), "line": 1, "byte_offset": 0, "char_offset": 0, "variant": b, "content": b,
                   "replace": a, "start": st, "end": en})
    plan = {"id": "c16replay", "created_at": "0", "search": "s", "replace": "r", "styles": [], "includes": [], "excludes": [], "matches": ms,
            "paths": [], "stats": {"files_scanned": 1, "total_matches": len(ms), "matches_by_variant": {}, "files_with_matches": 1},
            "version": "1.0.0"}
    os.makedirs(os.path.join(root, ".renamify"), exist_ok=True)
    with open(os.path.join(root, ".renamify", "plan.json"), "w") as fh:
        json.dump(plan, fh)


def boundaries(data):
    """character boundaries of a byte string that is valid UTF-8 (else every ASCII position)"""
    return [i for i in range(len(data) + 1) if i == len(data) or not (0x80 <= data[i] < 0xC0)]


def overlap_hunk(m, data, how, arg):
    """a second hunk for the same file whose range overlaps / touches `m`'s, individually valid: in range, on character
    boundaries, `content` = the text that is really there. None if the file does not allow it."""
    s, e = m.get("start"), m.get("end")
    if not (isinstance(s, int) and isinstance(e, int) and 0 <= s < e <= len(data)):
        return None
    bs = boundaries(data)
    inside = [b for b in bs if s < b < e]
    before = [b for b in bs if b < s][-(3 + arg):]
    after = [b for b in bs if b > e][: 3 + arg]
    if how == "overlap_nested":
        if len(inside) < 1:
            return None
        a, b = (s, inside[arg % len(inside)]) if arg % 2 == 0 or len(inside) < 2 else (inside[0], inside[-1])
    elif how == "overlap_straddle_right":
        if not inside or not after:
            return None
        a, b = inside[arg % len(inside)], after[arg % len(after)]
    elif how == "overlap_straddle_left":
        if not inside or not before:
            return None
        a, b = before[arg % len(before)], inside[arg % len(inside)]
    elif how == "overlap_same_start":
        if not after:
            return None
        a, b = s, after[arg % len(after)]
    elif how == "overlap_same_end":
        if not before:
            return None
        a, b = before[arg % len(before)], e
    elif how == "overlap_enclosing":
        if not before or not after:
            return None
        a, b = before[0], after[-1]
    elif how == "overlap_adjacent":
        if not after:
            return None
        a, b = e, after[arg % len(after)]
    elif how in ("overlap_reversed", "dup_other_replacement"):
        a, b = s, e
    else:
        return None
    if a >= b and how != "overlap_adjacent":
        return None
    try:
        text = data[a:b].decode("utf-8")
    except UnicodeDecodeError:
        return None
    x = dict(m)
    x["start"], x["end"], x["content"], x["variant"] = a, b, text, text
    x["replace"] = ["", "Z", text + text, "é", m.get("replace", "") + "_2"][arg % 5]
    return x


def mutate_plan(root, how, arg):
    """rewrite .renamify/plan.json in place (stale / hostile offsets). Returns False if there is no plan."""
    p = os.path.join(root, ".renamify", "plan.json")
    try:
        plan = json.load(open(p))
    except (OSError, ValueError):
        return False
    ms = plan.get("matches") or []
    if not ms and how not in ("rename_self", "rename_outside"):
        ms.append({"file": os.path.join(root, "a.txt"), "line": 1, "byte_offset": 0, "char_offset": 0, "variant": "x", "content": "x",
                   "replace": "y", "start": 0, "end": 1})
        plan["matches"] = ms
    m = ms[arg % len(ms)] if ms else None
    size = 0
    if m:
        try:
            size = os.path.getsize(m["file"])
        except OSError:
            size = 0
    if how == "past_eof":
        m["start"], m["end"] = size + 1 + arg, size + 1 + arg + len(m["content"].encode())
    elif how == "at_eof":
        m["start"], m["end"] = size, size + len(m["content"].encode())
    elif how == "mid_char":
        # point the start into the middle of the first multi-byte character of the file, if any
        try:
            data = open(m["file"], "rb").read()
        except OSError:
            data = b""
        pos = next((i for i, b in enumerate(data) if 0x80 <= b < 0xC0), None)
        if pos is None:
            m["start"] += 1
        else:
            m["start"], m["end"] = pos, max(pos, m["end"])
    elif how == "swap":
        m["start"], m["end"] = m["end"], m["start"]
    elif how == "huge":
        m["start"], m["end"] = 2 ** 64 - 1 - arg, 2 ** 64 - 1
    elif how == "shift1":
        m["start"] += 1; m["end"] += 1
    elif how == "neg":
        m["start"] = -1
    elif how == "float":
        m["start"] = 0.5
    elif how == "string":
        m["end"] = "7"
    elif how == "null":
        m["start"] = None
    elif how == "empty_file":
        open(m["file"], "wb").close()
    elif how == "dup":
        ms.append(dict(m))
    elif how in OVERLAPS:
        try:
            data = open(m["file"], "rb").read()
        except (OSError, TypeError):
            data = b""
        x = overlap_hunk(m, data, how, arg)
        if x is None:
            x = overlap_hunk(m, data, "dup_other_replacement", arg)
        if x is not None:
            i = ms.index(m)
            if how == "overlap_reversed":
                # a later hunk of the file listed in front of an earlier one, plus an overlap
                ms.insert(0, x)
                ms.reverse()
            elif arg % 2:
                ms.insert(i, x)
            else:
                ms.insert(i + 1, x)
    elif how == "dup_eof":
        # the same edit twice, a shorter replacement, and the match made the last thing in the file
        try:
            with open(m["file"], "r+b") as fh:
                fh.truncate(m["end"])
        except (OSError, TypeError, ValueError):
            pass
        m["replace"] = ""
        plan["matches"] = [x for x in ms if x.get("file") != m["file"] or x is m or (isinstance(x.get("end"), int) and x["end"] <= m["start"])]
        plan["matches"].append(dict(m))
    elif how == "file_missing":
        m["file"] = m["file"] + ".gone"
    elif how == "file_dir":
        m["file"] = root
    elif how == "content_nonutf8":
        m["content"] = "\udcff"
    elif how == "line0":
        m["line"] = 0
    elif how == "rename_self":
        plan.setdefault("paths", []).append({"path": os.path.join(root, "a.txt"), "new_path": os.path.join(root, "a.txt"), "kind": "file"})
    elif how == "rename_outside":
        plan.setdefault("paths", []).append({"path": os.path.join(root, "nope", "x"), "new_path": "/proc/self/x", "kind": "dir"})
    with open(p, "w", encoding="utf-8", errors="surrogatepass") as fh:
        try:
            json.dump(plan, fh)
        except UnicodeEncodeError:
            return False
    return True


# ---------------------------------------------------------------------------------------------------
# case generation

def gen_case(rng, idx):
    search, repl, words = term_pool(rng)
    occs = occurrences(rng, search, words) if search else [b"foo_bar"]
    occs = [o for o in occs if o] or [b"foo_bar"]
    tree = gen_tree(rng, occs)
    files = [t for t in tree if t[0] == "f"]
    case = {"idx": idx, "search": search, "replace": repl, "tree": tree, "state": [], "steps": []}
    fam = rng.choice(["replace_groups", "replace_groups", "plan", "plan", "plan_apply", "plan_apply", "rename", "rename", "replace", "replace", "search", "stale_tree",
                      "stale_tree", "stale_redo", "stale_plan", "stale_plan", "state", "state", "misc", "paths"])
    case["family"] = fam
    steps = case["steps"]
    if fam == "replace_groups":
        pat, rep, content, mode = gen_group_replace(rng)
        case["tree"] = tree = [["f", H(b"a.txt"), H(content)], ["f", H(b"set_name_get_name.txt"), H(b"get_n(\n")]]
        case["search"], case["replace"] = pat, rep
        steps.append({"argv": ["replace", "--no-auto-init"] + mode + ["--", pat, rep]})
        if "-y" in mode:
            steps.append({"argv": ["undo", "latest"]})
    elif fam == "plan":
        steps.append({"argv": argv_for(rng, "plan", search, repl)})
    elif fam == "plan_apply":
        a = argv_for(rng, "plan", search, repl)
        if rng.random() < 0.3:
            a += ["--plan-out", rng.choice(["out.json", "sub/dir/plan.json", ".renamify/p2.json", "weird name'.JSON", "/dev/full", "/nonexistent/x/p.json"])]
        steps.append({"argv": a})
        out = a[a.index("--plan-out") + 1] if "--plan-out" in a else None
        ap = ["apply", "--no-auto-init"] + ([out] if out else []) + rng.choice([[], ["--output", "json"], ["--quiet"], ["--force-with-conflicts"]])
        steps.append({"argv": ap})
        steps.append({"argv": ["undo", "latest"] + rng.choice([[], ["--output", "json"]])})
        steps.append({"argv": ["redo", "latest"] + rng.choice([[], ["--quiet"]])})
        steps.append({"argv": ["history"] + rng.choice([[], ["--limit", "0"], ["--limit", "18446744073709551615"], ["--output", "json"]])})
    elif fam == "rename":
        steps.append({"argv": argv_for(rng, "rename", search, repl)})
        steps.append({"argv": ["undo", "latest"]})
        steps.append({"argv": ["redo", "latest"]})
        steps.append({"argv": ["status"] + rng.choice([[], ["--output", "json"]])})
    elif fam == "replace":
        pat = rng.choice([search, search, rng.choice(META), rng.choice(BAD_REGEX), "(" + re.escape(search) + ")", "", "."])
        rp = rng.choice([repl, repl, "$1", "${1}x", "$", "$$", "${", "$99", ""])
        steps.append({"argv": argv_for(rng, "replace", pat, rp)})
        steps.append({"argv": ["undo", "latest"]})
    elif fam == "search":
        steps.append({"argv": argv_for(rng, "search", search, None)})
    elif fam == "stale_tree":
        steps.append({"argv": ["plan", search, repl, "--no-auto-init", "--quiet"] if not search.startswith("-") else ["plan", "--no-auto-init", "--quiet", "--", search, repl]})
        f = rng.choice(files)
        old = U(f[2])
        how = rng.choice(["truncate0", "truncate_half", "truncate_1", "prefix_multibyte", "prefix_byte", "replace_multibyte", "delete", "append"])
        if how == "truncate0":
            new = b""
        elif how == "truncate_half":
            new = old[: len(old) // 2]
        elif how == "truncate_1":
            new = old[:1]
        elif how == "prefix_multibyte":
            new = "é".encode() + old
        elif how == "prefix_byte":
            new = b"x" + old
        elif how == "replace_multibyte":
            new = ("日" * (len(old) // 3 + 1)).encode()[: max(len(old), 3)]
        elif how == "append":
            new = old + b"tail"
        else:
            new = None
        steps.append({"mutate": "write", "file": f[1], "content": H(new) if new is not None else None, "how": how})
        steps.append({"argv": ["apply", "--no-auto-init"] + rng.choice([[], ["--output", "json"], ["--force-with-conflicts"]])})
    elif fam == "stale_redo":
        # the operation is applied and undone, a planned file is rewritten by hand (offsets past EOF, inside a multi-byte
        # character, other text at the offsets), then the redo validates / applies the STORED plan (seed C16j)
        steps.append({"argv": ["rename", "--no-auto-init", "-y", "--quiet", "--", search, repl]})
        steps.append({"argv": ["undo", "latest"]})
        f = rng.choice(files)
        old = U(f[2])
        how = rng.choice(["replace_multibyte", "replace_multibyte", "prefix_multibyte", "shift_euro", "truncate_half", "truncate_1", "delete"])
        if how == "replace_multibyte":
            new = ("日" * (len(old) // 3 + 2)).encode()[: max(len(old), 3) + rng.randint(0, 2)]
            new = new[: len(new) - len(new) % 3] if rng.random() < 0.5 else new
        elif how == "prefix_multibyte":
            new = "é".encode() + old
        elif how == "shift_euro":
            k = rng.randint(0, max(0, len(old) - 1))
            new = old[:k] + "€".encode() * rng.randint(1, 3) + old[k + rng.randint(0, 4):]
        elif how == "truncate_half":
            new = old[: len(old) // 2]
        elif how == "truncate_1":
            new = old[:1]
        else:
            new = None
        steps.append({"mutate": "write", "file": f[1], "content": H(new) if new is not None else None, "how": how})
        steps.append({"argv": ["redo", "latest"] + rng.choice([[], ["--quiet"]])})
        steps.append({"argv": ["status"]})
    elif fam == "stale_plan":
        steps.append({"argv": ["plan", search, repl, "--no-auto-init", "--quiet"] if not search.startswith("-") else ["plan", "--no-auto-init", "--quiet", "--", search, repl]})
        steps.append({"mutate": "plan", "how": rng.choice(PLAN_MUTATIONS), "arg": rng.randint(0, 5)})
        steps.append({"argv": ["apply", "--no-auto-init"] + rng.choice([[], ["--output", "json"], ["--force-with-conflicts"]])})
        steps.append({"argv": ["status"]})
    elif fam == "state":
        case["state"] = gen_state(rng)
        cmd = rng.choice(["plan", "rename", "apply", "undo", "redo", "history", "status", "search", "replace"])
        if cmd in ("plan", "rename", "replace"):
            steps.append({"argv": argv_for(rng, cmd, search, repl)})
        elif cmd == "search":
            steps.append({"argv": argv_for(rng, cmd, search, None)})
        elif cmd in ("undo", "redo"):
            steps.append({"argv": [cmd, rng.choice(["latest", "a", "zz", "", "../x"])]})
        elif cmd == "apply":
            steps.append({"argv": ["apply", "--no-auto-init"] + rng.choice([[], ["a"], ["../x"], [".renamify/plan.json"], ["x.JSON"]])})
        else:
            steps.append({"argv": [cmd] + rng.choice([[], ["--output", "json"]])})
        steps.append({"argv": ["status"]})
    elif fam == "misc":
        steps.append({"argv": rng.choice([
            ["version"], ["version", "--output", "json"], ["init"], ["init", "--local"], ["init", "--check"], ["init", "--check", "--local"],
            ["status"], ["history", "--limit", "x"], ["undo"], ["redo", "nope"], ["apply", "--no-auto-init"], ["bogus"], [], ["--help"],
            ["plan"], ["plan", "a"], ["plan", "a", "b", "--preview", "bogus"], ["plan", "a", "b", "--only-styles", "bogus"],
            ["-C", "/nonexistent", "status"], ["-C", "", "status"], ["plan", "a", "b", "-C", "."], ["search"], ["replace", "a"],
            ["plan", search, repl, "--no-auto-init", "--dry-run", "--plan-out", ""], ["-uuuuuuuuuuuuuuuuuuuuuuuuuuuuuuuuuuuuuuu", "status"],
            ["plan", "a", "b", "\udcff", "--bogus"], ["bogus", "\udcff"], ["search", "\udcc3", "--output", "json", "--nope"], ["-C", "\udcff", "status"],
            ["plan", "a", "b", "\udcff", "--no-auto-init", "--dry-run"], ["apply", "\udcff.json", "--no-auto-init"],
            ["-u" * 1, "plan", "--no-auto-init", "a", "b"] + ["-u"] * 300, ["history", "--limit", "-1"], ["init", "--check", "--global"]])})
    else:  # paths
        names = [os.fsdecode(U(t[1])) for t in tree]
        cand = [n for n in names if not n.startswith("-")] + [".", "..", "/nonexistent", "", "./.", "nope/../."]
        # names that are not UTF-8 travel as surrogate-escaped strings (JSON keeps them, execve gets the raw bytes back)
        ps = [rng.choice(cand) for _ in range(rng.randint(1, 2))]
        if rng.random() < 0.25:
            ps.append(rng.choice(["\udcff", "x\udcc3", "\udcfe\udcff.txt", "a\udc80b"]))
        cmd = rng.choice(["plan", "rename", "search", "replace"])
        a = argv_for(rng, cmd, search, repl if cmd != "search" else None, extra_paths=ps)
        if rng.random() < 0.3:
            a = a + rng.choice([["--bogus"], ["--preview", "bogus"], ["--output", "json", "--bogus"], ["--only-styles", "nope"]])   # clap rejects
        steps.append({"argv": a})
    if fam in ("plan", "rename", "search", "replace", "paths", "plan_apply") and rng.random() < 0.3 and steps and "argv" in steps[0] \
            and "--quiet" not in steps[0]["argv"] and "json" not in steps[0]["argv"]:
        steps[0]["tty"] = True          # stdout on a pseudo-terminal: the coloured renderers
        # … which only run without --no-color; the coloured diff / matches renderers slice lines at byte columns and do
        # signed arithmetic on them (preview/diff.rs::highlight_line_with_hunks), so they get hostile lines too
        a = [x for x in steps[0]["argv"] if x != "--no-color"]
        if a and a[0] in ("plan", "rename", "search", "replace") and "--bogus" not in a:
            if "--preview" in a and a.index("--preview") + 1 < len(a):
                a[a.index("--preview") + 1] = rng.choice(["diff", "diff", "matches", "table"])
            else:
                a += ["--preview", rng.choice(["diff", "matches"])]
        steps[0]["argv"] = a
    # arguments must be passable through execve: no NUL
    for s in steps:
        if "argv" in s:
            s["argv"] = [a.replace("\x00", "") for a in s["argv"]]
    return case


# ---------------------------------------------------------------------------------------------------
# input classes (the mechanical "falls under a listed finding" test)

def has_invalid_utf8_line(data):
    for line in re.split(rb"(?<=\n)", data):
        try:
            line.decode("utf-8")
        except UnicodeDecodeError:
            return True
    return False


def has_len_changing_lower(text):
    return any(len(ch.lower().encode("utf-8", "surrogatepass")) != len(ch.encode("utf-8", "surrogatepass")) for ch in set(text) if ord(ch) > 127)


def lock_is_future(content, now=None):
    now = now or int(time.time())
    parts = content.decode("utf-8", "replace").strip().split(":")
    if len(parts) != 2:
        return False
    try:
        ts = int(parts[1]) if re.fullmatch(r"\+?\d+", parts[1]) else 0
    except ValueError:
        return False
    return now < ts < 2 ** 64


def classes(case):
    cl = set()
    texts = [case.get("search") or "", case.get("replace") or ""]
    for t in case["tree"]:
        texts.append(U(t[1]).decode("utf-8", "replace"))
        if t[0] == "f":
            data = U(t[2])
            if has_invalid_utf8_line(data):
                cl.add("invalid_utf8_line")
            texts.append(data.decode("utf-8", "replace"))
    for s in case["steps"]:
        if "argv" in s:
            texts += s["argv"]
        if s.get("mutate") in ("write", "plan"):
            cl.add("stale_plan")
        if s.get("mutate") == "write" and s.get("content"):
            if has_invalid_utf8_line(U(s["content"])):
                cl.add("invalid_utf8_line")
        if s.get("mutate") == "lock" and lock_is_future(U(s["content"])):
            cl.add("lock_future")
    for rel, c in case.get("state", []):
        if rel == "renamify.lock" and lock_is_future(U(c)):
            cl.add("lock_future")
        if rel == "plan.json":
            cl.add("stale_plan")
    if any(has_len_changing_lower(t) for t in texts):
        cl.add("len_changing_lower")
    return cl


# ---------------------------------------------------------------------------------------------------
# execution + oracle

PANIC_RE = re.compile(rb"panicked at ([^\s:]+):(\d+):(\d+)")


def materialize(root, case):
    for t in case["tree"]:
        p = os.path.join(os.fsencode(root), U(t[1]))
        if t[0] == "d":
            os.makedirs(p, exist_ok=True)
        else:
            os.makedirs(os.path.dirname(p), exist_ok=True)
            with open(p, "wb") as fh:
                fh.write(U(t[2]))
    for rel, c in case.get("state", []):
        p = os.path.join(root, ".renamify", rel)
        os.makedirs(os.path.dirname(p), exist_ok=True)
        with open(p, "wb") as fh:
            fh.write(U(c))


def run_cli_tty(argv, cwd, e, timeout):
    """stdout on a pseudo-terminal (colour code paths); stderr stays a pipe"""
    import pty
    import threading
    master, slave = pty.openpty()
    t0 = time.time()
    try:
        p = subprocess.Popen([os.environ.get("VERIF_C16_BIN") or common.CLI_BIN] + list(argv), cwd=cwd, env=e, stdout=slave,
                             stderr=subprocess.PIPE, stdin=subprocess.DEVNULL, preexec_fn=_limits)
    except (OSError, ValueError) as ex:
        os.close(master); os.close(slave)
        return "noexec", b"", repr(ex).encode(), 0.0
    os.close(slave)
    buf = []

    def drain():
        while True:
            try:
                c = os.read(master, 65536)
            except OSError:
                break
            if not c:
                break
            if sum(map(len, buf)) < 1 << 20:
                buf.append(c)
    th = threading.Thread(target=drain, daemon=True)
    th.start()
    try:
        _, se = p.communicate(timeout=timeout)
        rc = p.returncode
    except subprocess.TimeoutExpired:
        p.kill()
        _, se = p.communicate()
        rc = None
    th.join(2)
    os.close(master)
    return rc, b"".join(buf), se or b"", time.time() - t0


def run_cli(argv, cwd, timeout=TIMEOUT, tty=False):
    e = dict(common.BASE_ENV)
    e["HOME"] = cwd
    e["XDG_CONFIG_HOME"] = os.path.join(cwd, ".xdg-none")
    e.pop("RENAMIFY_YES", None)
    e["RUST_BACKTRACE"] = "1"      # only costs time when the process panics; needed when the panic location is inside std
    if tty:
        e.pop("NO_COLOR", None)
        e["TERM"] = "xterm-256color"
        return run_cli_tty(argv, cwd, e, timeout)
    t0 = time.time()
    try:
        p = subprocess.run([os.environ.get("VERIF_C16_BIN") or common.CLI_BIN] + list(argv), cwd=cwd, env=e, stdout=subprocess.PIPE,
                           stderr=subprocess.PIPE, timeout=timeout, stdin=subprocess.DEVNULL, preexec_fn=_limits)
        return p.returncode, p.stdout, p.stderr, time.time() - t0
    except subprocess.TimeoutExpired as ex:
        return None, ex.stdout or b"", ex.stderr or b"", time.time() - t0
    except (OSError, ValueError) as ex:          # E2BIG, embedded NUL: the case never reached renamify
        return "noexec", b"", repr(ex).encode(), 0.0


def trim_backtrace(text):
    """keep the panic messages and only the repository frames of the backtraces"""
    keep = []
    lines = text.splitlines()
    for i, line in enumerate(lines):
        if re.match(r"\s+\d+: ", line):
            if re.search(r"renamify", line) and i + 1 < len(lines) and "/src/" in lines[i + 1] and "renamify-c" in lines[i + 1]:
                keep.append(line.strip()[:160] + " " + lines[i + 1].strip()[:160])
            continue
        if re.match(r"\s+at ", line) or line.startswith("stack backtrace:") or line.startswith("note: "):
            continue
        keep.append(line)
    return "\n".join(keep)


def judge(rc, err):
    """None when the invocation satisfies the property, else a short reason"""
    if rc == "noexec":
        return None
    if rc is None:
        return "timeout"
    m = PANIC_RE.search(err)
    if m or b"panicked at" in err:
        return "panic"
    if rc < 0:
        return "signal %d" % -rc
    if rc not in DOCUMENTED:
        return "status %d" % rc
    if rc != 0 and not err.strip():
        return "silent failure (status %d, empty stderr)" % rc
    return None


def execute(case, timeout=TIMEOUT):
    """run all steps of a case in a fresh scratch directory; returns list of step results"""
    out = []
    with common.scratch("renamify-verif.c16.") as d:
        root = os.path.join(d, "w")
        os.makedirs(root)
        materialize(root, case)
        for i, s in enumerate(case["steps"]):
            if "argv" in s:
                rc, so, se, dt = run_cli(s["argv"], root, timeout, tty=bool(s.get("tty")))
                bad = judge(rc, se)
                res = {"step": i, "argv": s["argv"], "rc": rc, "bad": bad, "secs": round(dt, 2)}
                if s.get("tty"):
                    res["tty"] = True
                if bad:
                    res["stderr"] = trim_backtrace(se.decode("utf-8", "replace").replace(d, "<scratch>"))[-3000:]
                    m = PANIC_RE.search(se)
                    if m:
                        res["panic_at"] = [m.group(1).decode(), int(m.group(2))]
                out.append(res)
            elif s["mutate"] == "write":
                p = os.path.join(os.fsencode(root), U(s["file"]))
                try:
                    if s.get("content") is None:
                        os.unlink(p)
                    else:
                        with open(p, "wb") as fh:
                            fh.write(U(s["content"]))
                except OSError:
                    pass
            elif s["mutate"] == "plan":
                mutate_plan(root, s["how"], s["arg"])
            elif s["mutate"] == "write_plan":
                write_plan(root, s["hunks"])
            elif s["mutate"] == "lock":
                os.makedirs(os.path.join(root, ".renamify"), exist_ok=True)
                with open(os.path.join(root, ".renamify", "renamify.lock"), "wb") as fh:
                    fh.write(U(s["content"]))
    return out
