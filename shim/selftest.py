#!/usr/bin/env python3
"""Self-test of shim/fsshim.c + checks/shim.py against the real renamify binary.

    python3 shim/selftest.py          (from the verif root; exit 0 = all good; < 60 s)

Sections: (1) trace + determinism, (2) strace cross-check, (3) fail at every k, (4) kill_before/after/mid,
(5) signals, (6) fake clock, (7) scheduler, (8) pass-through cost, (9) robustness odds and ends,
(10) a C program exercising the remaining wrappers.
"""
import concurrent.futures
import json
import os
import re
import shutil
import subprocess
import sys
import tempfile
import time

sys.path.insert(0, os.path.dirname(os.path.dirname(os.path.abspath(__file__))))
from checks import common, shim  # noqa: E402

FAILS = []
ROWS = []


def row(section, what, ok, info=""):
    ROWS.append((section, what, "ok" if ok else "FAIL", info))
    print(f"  [{section}] {'ok  ' if ok else 'FAIL'} {what}" + (f" -- {info}" if info else ""), flush=True)
    if not ok:
        FAILS.append(f"{section} {what}: {info}")


def make_tree(d):
    """2 files with content matches (edited), 1 directory rename containing 1 file that is renamed itself"""
    files = {
        "src/main.rs": b"let foo_bar = 1;\nfn use_foo_bar() {}\n",
        "docs/readme.md": b"FooBar and foo_bar\nnothing here\nfoo-bar too\n",
        "src/foo_bar_dir/foo_bar_file.txt": b"plain content\n",
        "other.txt": b"unrelated\n",
    }
    for rel, data in files.items():
        p = os.path.join(d, rel)
        os.makedirs(os.path.dirname(p), exist_ok=True)
        with open(p, "wb") as fh:
            fh.write(data)


class Tree:
    def __init__(self, maker=make_tree):
        self.maker = maker

    def __enter__(self):
        self.d = os.path.realpath(tempfile.mkdtemp(prefix="fsshim-selftest."))
        self.maker(self.d)
        return self.d

    def __exit__(self, *exc):
        shutil.rmtree(self.d, ignore_errors=True)


RENAME = ["rename", "foo_bar", "baz_qux", "-y", "--no-auto-init"]
RENAME_AUTO = ["rename", "foo_bar", "baz_qux", "-y"]


def user_snapshot(d):
    return common.snap_digest(common.snapshot(d))


# ------------------------------------------------------------------------------------------------
def section1():
    print("(1) trace of `renamify rename foo_bar baz_qux -y --no-auto-init`, 5 runs")
    traces, raws, counts = [], [], []
    for _ in range(5):
        with Tree() as d:
            r = shim.trace(RENAME, d)
            assert r.rc == 0, (r.rc, r.stderr)
            traces.append(shim.abstract(r.events))
            raws.append([(e.op, shim.norm_path(e.path), shim.norm_path(e.path2), e.result if not e.ok else "ok")
                         for e in r.events if e.seq is not None])
            counts.append(len(r.mutating))
            final = user_snapshot(d)
    row("1", "5 runs: same number of mutating events", len(set(counts)) == 1, f"counts={counts}")
    same_abs = all(t == traces[0] for t in traces)
    same_raw = all(t == raws[0] for t in raws)
    if not same_raw:
        for i, t in enumerate(raws[1:], 1):
            for j, (a, b) in enumerate(zip(raws[0], t)):
                if a != b:
                    print(f"     run {i} differs at event {j}: {a} vs {b}")
                    break
    row("1", "abstract trace identical over 5 runs", same_abs)
    row("1", "raw (un-collapsed, normalised) event sequence identical over 5 runs", same_raw)
    row("1", "tree renamed as expected", "src/baz_qux_dir/baz_qux_file.txt" in final and "src/foo_bar_dir" not in final)
    print(f"     events per run: {counts[0]} mutating; abstract trace ({len(traces[0])} steps):")
    for t in traces[0]:
        print("       ", t)
    with Tree() as d:
        r = shim.trace(RENAME_AUTO, d)
        t2 = shim.abstract(r.events)
        extra = [t for t in t2 if t not in traces[0]]
        row("1", "with auto-init (no --no-auto-init): run ok, extra writes visible", r.rc == 0 and len(t2) > len(traces[0]),
            f"{len(r.mutating)} mutating events, extra steps: {extra}")
    with Tree() as d:
        r = shim.trace(RENAME, d, count_sync=True)
        syncs = [e for e in r.events if e.op == "fsync"]
        row("1", "count_sync=1 gives fsync events a seq", syncs and all(e.seq is not None for e in syncs),
            f"{len(syncs)} fsync, {len(r.mutating)} counted")
    return traces[0], counts[0]


# ------------------------------------------------------------------------------------------------
# strace comparison

S_MUT_PATH = {"rename", "renameat", "renameat2", "unlink", "unlinkat", "rmdir", "mkdir", "mkdirat", "chmod",
              "fchmodat", "fchmodat2", "symlink", "symlinkat", "link", "linkat", "truncate", "creat"}
S_MUT_FD = {"write", "pwrite64", "writev", "pwritev", "pwritev2", "fchmod", "ftruncate", "fsync", "fdatasync",
            "copy_file_range", "sendfile"}
# mutating calls the shim does NOT interpose: any occurrence under the root is a failure of the cross-check
S_UNSEEN = {"fallocate", "utimensat", "utime", "utimes", "futimesat", "chown", "fchown", "lchown", "fchownat",
            "setxattr", "lsetxattr", "fsetxattr", "removexattr", "lremovexattr", "fremovexattr", "mknod", "mknodat",
            "openat2", "io_uring_setup", "splice", "tee", "vmsplice", "mount", "open_by_handle_at"}


def _strace_calls(path, pid):
    """(name, args, ret) of every syscall of `pid`, in order of syscall entry"""
    calls, pending = [], {}
    for line in open(path, errors="replace"):
        m = re.match(r"(\d+)\s+(.*)$", line.rstrip("\n"))
        if not m:
            continue
        p, rest = int(m.group(1)), m.group(2)
        if rest.startswith("<... "):
            mm = re.match(r"<\.\.\. (\w+) resumed>(.*)$", rest)
            if mm and (p, mm.group(1)) in pending:
                idx = pending.pop((p, mm.group(1)))
                calls[idx][2] += mm.group(2)
            continue
        mm = re.match(r"(\w+)\((.*)$", rest)
        if not mm:
            continue
        name, tail = mm.group(1), mm.group(2)
        if tail.endswith("<unfinished ...>"):
            pending[(p, name)] = len(calls)
            tail = tail[:-len("<unfinished ...>")]
        calls.append([p, name, tail])
    out = []
    for p, name, tail in calls:
        if p != pid:
            continue
        m = re.search(r"\)\s+=\s+(-?\d+|\?)(?:\s+(E\w+))?[^)]*$", tail)
        ret = (m.group(2) or m.group(1)) if m else "?"
        out.append((name, tail, ret))
    return out


def _cstr(s):
    """decode a strace C string literal body"""
    return re.sub(r"\\(.)", lambda m: {"n": "\n", "t": "\t"}.get(m.group(1), m.group(1)), s)


def strace_mutations(path, pid, root, with_sync=True):
    """list of (op, relpath[, relpath2]) for every mutating syscall under root, plus list of unseen-class hits"""
    muts, unseen = [], []

    def rel(dirfd_tok, p):
        if p.startswith("/"):
            ab = p
        else:
            base = root
            m = re.match(r"\d+<(.*)>$", dirfd_tok or "")
            if m:
                base = m.group(1)
            ab = os.path.join(base, p)
        ab = os.path.normpath(ab)
        if ab == root:
            return "."
        return ab[len(root) + 1:] if ab.startswith(root + "/") else None

    for name, tail, ret in _strace_calls(path, pid):
        strs = [_cstr(s) for s in re.findall(r'"((?:[^"\\]|\\.)*)"', tail)]
        fds = re.findall(r"(?:^|, )(AT_FDCWD|\d+<[^>]*>)", tail)
        if name in ("open", "openat", "creat"):
            wr = name == "creat" or re.search(r"O_WRONLY|O_RDWR|O_CREAT|O_TRUNC|O_APPEND", tail)
            if wr and strs:
                r_ = rel(fds[0] if name == "openat" and fds else None, strs[0])
                if r_ is not None:
                    muts.append(("openw", r_))
        elif name in S_MUT_PATH:
            if name in ("rename", "link"):
                a, b = rel(None, strs[0]), rel(None, strs[1])
            elif name in ("renameat", "renameat2", "linkat"):
                a = rel(fds[0], strs[0])
                b = rel(fds[1] if len(fds) > 1 else None, strs[1])
            elif name in ("symlink", "symlinkat"):
                a, b = rel(fds[0] if name == "symlinkat" and fds else None, strs[1]), None
            elif name in ("unlinkat", "mkdirat", "fchmodat", "fchmodat2"):
                a, b = rel(fds[0], strs[0]), None
            else:
                a, b = rel(None, strs[0]), None
            op = {"renameat": "rename", "renameat2": "rename", "unlinkat": "rmdir" if "AT_REMOVEDIR" in tail else "unlink",
                  "mkdirat": "mkdir", "fchmodat": "chmod", "fchmodat2": "chmod", "symlinkat": "symlink",
                  "linkat": "link", "creat": "openw"}.get(name, name)
            if op in ("rename",):
                if a is not None or b is not None:
                    muts.append((op, a, b))
            elif op == "link":
                if b is not None:
                    muts.append((op, a, b))
            elif a is not None:
                muts.append((op, a))
        elif name in S_MUT_FD:
            m = re.match(r"(\d+)<([^>]*)>", tail)
            if name in ("copy_file_range", "sendfile"):
                allfd = re.findall(r"(\d+)<([^>]*)>", tail)
                m = None
                if allfd:
                    tgt = allfd[1] if name == "copy_file_range" and len(allfd) > 1 else allfd[0]
                    m = re.match(r"(\d+)<([^>]*)>", f"{tgt[0]}<{tgt[1]}>")
            if m and m.group(2).startswith("/"):
                r_ = rel(None, m.group(2).replace(" (deleted)", ""))
                if r_ is not None:
                    op = {"pwrite64": "write", "writev": "write", "pwritev": "write", "pwritev2": "write",
                          "copy_file_range": "write", "sendfile": "write", "fchmod": "chmod", "ftruncate": "truncate",
                          "fdatasync": "fsync"}.get(name, name)
                    if op != "fsync" or with_sync:
                        muts.append((op, r_))
        elif name in S_UNSEEN:
            hit = [s for s in strs if rel(None, s) is not None] + \
                  [f for f in re.findall(r"\d+<([^>]*)>", tail) if rel(None, f) is not None]
            if hit:
                unseen.append((name, hit))
    return muts, unseen


def run_strace(args, d, shim_env, binary=None):
    tmp = tempfile.mkdtemp(prefix="fsshim-strace.")
    try:
        log, st = os.path.join(tmp, "events.log"), os.path.join(tmp, "strace.log")
        e = shim._base_env(d, None, log)
        e.update({k: str(v) for k, v in shim_env.items()})
        p = subprocess.run(["strace", "-f", "-y", "-s", "0", "-e", "trace=file,desc", "-o", st, binary or common.CLI_BIN] + args,
                           cwd=d, env=e, stdout=subprocess.PIPE, stderr=subprocess.PIPE, timeout=120)
        text = open(st, errors="replace").read()
        m = re.search(r"^(\d+)\s+execve\(", text, re.M)
        pid = int(m.group(1))
        evs = [x for x in shim.parse_log(open(log, errors="replace").read() if os.path.exists(log) else "") if x.pid == pid]
        muts, unseen = strace_mutations(st, pid, d, with_sync=str(shim_env.get("FSSHIM_COUNT_SYNC", "0")) == "1")
        names = sorted(set(n for n, _, _ in _strace_calls(st, pid)))
        return p.returncode, evs, muts, unseen, names
    finally:
        shutil.rmtree(tmp, ignore_errors=True)


def shim_as_tuples(evs, skip_injected=False):
    out = []
    for e in evs:
        if e.seq is None:
            continue
        if skip_injected and e.injected in ("fail", "kill_before"):
            continue
        if e.op in ("rename", "link"):
            a = e.path if not e.path.startswith("/") else None
            b = e.path2 if not e.path2.startswith("/") else None
            out.append((e.op, a, b))
        else:
            out.append((e.op, e.path))
    return out


def section2():
    print("(2) strace cross-check (same process runs under strace -f -y and the shim, fsync counted)")
    with Tree() as d:
        rc, evs, muts, unseen, names = run_strace(RENAME, d, {"FSSHIM_COUNT_SYNC": "1", "FSSHIM_LOG_SYSCALLS": "1"})
        mine = shim_as_tuples(evs)
        ok = rc == 0 and mine == muts and len(muts) > 50
        if mine != muts:
            for i, (a, b) in enumerate(zip(mine + [None] * 5, muts + [None] * 5)):
                if a != b:
                    print(f"     first difference at #{i}: shim={a} strace={b}")
                    break
        row("2", "every mutating syscall under the root seen by the shim, same order", ok,
            f"strace={len(muts)} shim={len(mine)}")
        row("2", "no mutating syscall of a class the shim does not interpose", not unseen, str(unseen[:3]))
        print("     syscalls (file,desc classes) issued by the process:", " ".join(names))
        raw = sorted(int(e.detail["nr"]) for e in evs if e.op == "rawsyscall")
        print("     numbers that went through libc's variadic syscall():", raw, "(202 = futex)")
        row("2", "raw syscall() use: nothing but futex", raw in ([], [202]), str(raw))


# ------------------------------------------------------------------------------------------------
def section3(nevents):
    print(f"(3) fail with EIO at every k in 0..{nevents - 1}")

    def one(k):
        with Tree() as d:
            r = shim.fault(RENAME, d, k, "fail", errno="EIO")
            inj = [e for e in r.events if e.injected]
            good = (len(inj) == 1 and inj[0].seq == k and inj[0].result == "EIO" and inj[0].injected == "fail")
            return k, r.rc, good, inj[0].op if inj else None

    with concurrent.futures.ThreadPoolExecutor(8) as ex:
        res = list(ex.map(one, range(nevents)))
    hist = {}
    for k, rc, good, op in res:
        hist[rc] = hist.get(rc, 0) + 1
    bad = [(k, rc) for k, rc, good, op in res if not good]
    crashed = [(k, rc) for k, rc, good, op in res if rc < 0 or rc == shim.TIMEOUT_RC]
    row("3", "event k logged with inj=fail => EIO for every k", not bad, f"bad={bad[:5]}")
    swallowed = [f"{k}:{op}" for k, rc, good, op in res if rc == 0]
    row("3", "no run died from a signal / hung", not crashed,
        f"rc histogram={hist} crashed={crashed[:5]}; failure swallowed (rc 0) at k:op = {' '.join(swallowed)}")
    # past the end: nothing injected
    with Tree() as d:
        r = shim.fault(RENAME, d, nevents + 5, "fail", errno="ENOSPC")
        row("3", "k beyond the last event: nothing injected, rc 0", r.rc == 0 and not [e for e in r.events if e.injected])
    # the failed call is really not performed: under strace, the kernel sees the shim trace minus event k
    ops_done = {}
    for k, rc, good, op in res:
        ops_done.setdefault(op, k)
    sample = sorted(ops_done.values())
    okall, detail = True, []
    for k in sample:
        with Tree() as d:
            rc, evs, muts, unseen, _ = run_strace(RENAME, d, {"FSSHIM_AT": k, "FSSHIM_MODE": "fail", "FSSHIM_ERRNO": "EIO"})
            inj = [e for e in evs if e.injected]
            want = shim_as_tuples(evs, skip_injected=True)
            same = want == muts and len(inj) == 1 and len(shim_as_tuples(evs)) == len(muts) + 1
            okall &= same
            detail.append(f"k={k}:{inj[0].op if inj else '?'}:{'ok' if same else 'DIFF'}")
    row("3", "strace: the k-th call never reaches the kernel (one k per op type)", okall, " ".join(detail))
    # errno by number and other names
    with Tree() as d:
        r = shim.fault(RENAME, d, 0, "fail", errno="28")
        inj = [e for e in r.events if e.injected]
        row("3", "numeric errno (28 -> ENOSPC)", inj and inj[0].result == "ENOSPC", r.stderr.decode(errors="replace").strip()[-80:])


# ------------------------------------------------------------------------------------------------
def section4():
    print("(4) kill_before / kill_after / kill_mid at the write of docs/readme.<pid>.renamify.tmp")
    with Tree() as d:
        base = shim.trace(RENAME, d)
    w = [e for e in base.events if e.op == "write" and e.path.startswith("docs/readme.") and e.path.endswith(".renamify.tmp")]
    k, n = w[0].seq, int(w[0].detail["n"])
    expect = {"kill_before": 0, "kill_after": n, "kill_mid": n // 2}
    for mode, size in expect.items():
        with Tree() as d:
            r = shim.fault(RENAME, d, k, mode)
            tmpf = os.path.join(d, "docs", f"readme.{r.pid}.renamify.tmp")
            got = os.path.getsize(tmpf) if os.path.exists(tmpf) else None
            last = r.events[-1]
            orig = open(os.path.join(d, "docs/readme.md"), "rb").read()
            row("4", f"{mode} at k={k} (write n={n})", r.rc == -9 and got == size and last.seq == k and last.injected == mode
                and orig.startswith(b"FooBar"),
                f"rc={r.rc} tmp size={got} expected={size} last event={last.op} => {last.result}; lock left behind={os.path.exists(os.path.join(d, '.renamify/renamify.lock'))}")
    # kill_mid on a non-write event == kill_before
    ren = [e for e in base.events if e.op == "rename"][0]
    with Tree() as d:
        r = shim.fault(RENAME, d, ren.seq, "kill_mid")
        row("4", "kill_mid on a rename behaves like kill_before", r.rc == -9 and r.events[-1].result == "KILLED"
            and open(os.path.join(d, "docs/readme.md"), "rb").read().startswith(b"FooBar"))
    with Tree() as d:
        r = shim.fault(RENAME, d, ren.seq, "kill_after")
        row("4", "kill_after on that rename: performed, then dead", r.rc == -9 and r.events[-1].result == "0"
            and open(os.path.join(d, "docs/readme.md"), "rb").read().startswith(b"BazQux"))


# ------------------------------------------------------------------------------------------------
def section5():
    print("(5) signals immediately before an event (observation of renamify's handler)")
    with Tree() as d:
        base = shim.trace(RENAME, d)
        want = user_snapshot(d)
    ren = [e for e in base.events if e.op == "rename"]
    points = {"first content rename": ren[0].seq, "dir rename": ren[2].seq, "event 0": 0, "last event": base.mutating[-1].seq}
    for sig in ("INT", "TERM"):
        for rep in (1, 3):
            obs = []
            allok = True
            for label, k in points.items():
                with Tree() as d:
                    r = shim.fault(RENAME, d, k, "signal", signal=sig, repeat=rep)
                    complete = user_snapshot(d) == want
                    lock = os.path.exists(os.path.join(d, ".renamify/renamify.lock"))
                    inj = [e for e in r.events if e.injected == "signal"]
                    obs.append(f"{label}(k={k}): rc={r.rc} complete={complete} lock_left={lock}")
                    allok &= len(inj) == 1 and inj[0].ok and r.rc >= 0
            row("5", f"SIG{sig} x{rep}: delivered, event performed, process survived", allok, "; ".join(obs))


# ------------------------------------------------------------------------------------------------
def section6():
    print("(6) fake clock")
    T = 1_700_000_000
    with Tree() as d:
        r = shim.run_with_clock(["plan", "foo_bar", "baz_qux", "--dry-run", "--output", "json", "--no-auto-init"], d, T)
        j = json.loads(r.stdout)
        row("6", "plan --dry-run --output json: created_at == fake second", str(j["plan"]["created_at"]) == str(T),
            f"created_at={j['plan']['created_at']!r}")
        tdir = tempfile.mkdtemp(prefix="fsshim-time.")
        try:
            tf = os.path.join(tdir, "now")
            open(tf, "w").write(str(T + 100))
            r1 = shim.run_with_clock(RENAME, d, T, time_file=tf)
            lock_ts = None
            open(tf, "w").write(str(T + 200))
            r2 = shim.run_with_clock(["undo", "latest"], d, T, time_file=tf)
            h = json.load(open(os.path.join(d, ".renamify/history.json")))
            ids = [e["id"] for e in h]
            row("6", "time file advanced between commands: history created_at / revert id use it",
                r1.rc == 0 and r2.rc == 0 and h[0]["created_at"].startswith("2023-11-14T22:15:00")
                and ids[1] == f"revert-{ids[0]}-{T + 200}", f"created_at={h[0]['created_at']} ids={ids}")
        finally:
            shutil.rmtree(tdir, ignore_errors=True)
    with Tree() as d:
        # lock file content is "<pid>:<unix seconds>" -> visible through a pause at the unlink of the lock
        base = shim.trace(["plan", "foo_bar", "baz_qux", "--no-auto-init"], d)
    un = [e for e in base.events if e.op == "unlink" and e.path.endswith("renamify.lock")]
    with Tree() as d:
        with shim.Paused(["plan", "foo_bar", "baz_qux", "--no-auto-init"], d, un[0].seq,
                         env={"FSSHIM_TIME": str(T + 7)}) as p:
            content = open(os.path.join(d, ".renamify/renamify.lock")).read() if p.reached else ""
        row("6", "pause mode: process held before unlink of the lock; lock timestamp is the fake second",
            p.reached and content == f"{p.run.pid}:{T + 7}" and p.run.rc == 0, f"lock content={content!r}")


# ------------------------------------------------------------------------------------------------
def section7():
    print("(7) scheduler: two `renamify test-lock --delay 0` processes, explicit interleavings")
    procs = {"A": (["test-lock", "--delay", "0"], None), "B": (["test-lock", "--delay", "0"], None)}

    def lock_ops(s, evs):
        return [(s.name_of_pid(e.pid), e.op, e.result) for e in evs if e.path.endswith("renamify.lock") or e.op == "kill0"]

    def steps_until(s, name, pred, limit=40):
        """grant steps to `name` until its *pending* request satisfies pred; returns #steps"""
        n = 0
        while n < limit:
            p = s.pending_one(name)
            if p is None or pred(shim.parse_line(p)):
                return n
            s.step(name)
            n += 1
        return n

    is_lock_open = lambda e: e.op == "openw" and e.path.endswith("renamify.lock")  # noqa: E731
    is_lock_unlink = lambda e: e.op == "unlink" and e.path.endswith("renamify.lock")  # noqa: E731

    # schedule 1: A acquires completely (up to, not including, its release), then B tries
    with Tree() as d:
        os.mkdir(os.path.join(d, ".renamify"))
        with shim.Scheduler(d, procs) as s:
            steps_until(s, "A", is_lock_unlink)
            res_b_pending = []
            while True:
                p = s.pending_one("B")
                if p is None:
                    break
                res_b_pending.append(s.step("B"))
            res = s.run_schedule([], then_free=True)
            g1 = lock_ops(s, s.global_events())
            order1 = list(s.order)
        row("7", "schedule 1 (A up to its release, then B): B refused while A holds", res["A"].rc == 0 and res["B"].rc != 0
            and b"already running" in res["B"].stderr, f"rcA={res['A'].rc} rcB={res['B'].rc}")
    # schedule 2: both pass the existence check before either creates -> O_EXCL decides
    with Tree() as d:
        os.mkdir(os.path.join(d, ".renamify"))
        with shim.Scheduler(d, procs) as s:
            steps_until(s, "A", is_lock_open)
            steps_until(s, "B", is_lock_open)
            la = s.step("A")
            lb = s.step("B")
            res = s.run_schedule([], then_free=True)
            g2 = lock_ops(s, s.global_events())
        row("7", "schedule 2 (both check, then both create): second O_EXCL open gets EEXIST",
            la.endswith("=> 3") and lb.endswith("=> EEXIST") and res["A"].rc == 0 and res["B"].rc != 0,
            f"A: {la.split(' ', 2)[2]} | B: {lb.split(' ', 2)[2]}")
    # schedule 3: explicit name list through run_schedule, strictly alternating
    with Tree() as d:
        os.mkdir(os.path.join(d, ".renamify"))
        with shim.Scheduler(d, procs) as s:
            sched = ["A", "B"] * 4
            res = s.run_schedule(sched, then_free=False)
            g = [(s.name_of_pid(e.pid)) for e in s.global_events() if e.op in shim.READ_OPS + shim.MUTATING_OPS]
            row("7", "run_schedule(['A','B']*4): global log order is exactly the schedule", g == sched, f"global={g}")
            pend = s.pending()
            row("7", "after the schedule both processes are held at their next call", all(v for v in pend.values()), str(pend))
            res = s.run_schedule(["B"] * 30 + ["A"] * 30)
            row("7", "then B to completion, then A: both exit", res["A"].rc is not None and res["B"].rc is not None,
                f"rcA={res['A'].rc} rcB={res['B'].rc}")
        row("7", "scheduler directory removed", s.dir is None)
    print("     lock-related global order, schedule 1:", " ".join(f"{n}:{o}={r}" for n, o, r in g1))
    print("     lock-related global order, schedule 2:", " ".join(f"{n}:{o}={r}" for n, o, r in g2))
    row("7", "the two schedules produce different global orders", g1 != g2)
    # real lock users: `plan` A is driven to just before its release, then `plan` B runs alone
    with Tree() as d:
        pp = {"A": (["plan", "foo_bar", "baz_qux", "--no-auto-init", "--quiet"], None),
              "B": (["plan", "foo_bar", "zzz_yyy", "--no-auto-init", "--quiet"], None)}
        t0 = time.time()
        with shim.Scheduler(d, pp) as s:
            na = steps_until(s, "A", is_lock_unlink, limit=2000)
            nb = steps_until(s, "B", lambda e: False, limit=2000)
            res = s.run_schedule([], then_free=True)
        row("7", "two `plan` processes (rayon threads, reads scheduled): B refused while A is held before its unlink",
            res["A"].rc == 0 and res["B"].rc != 0 and b"already running" in res["B"].stderr,
            f"A {na} steps, B {nb} steps, {time.time() - t0:.2f}s")
    # stale-lock path: openr / read / kill0 are scheduling points (lock of a dead pid)
    with Tree() as d:
        os.mkdir(os.path.join(d, ".renamify"))
        dead = subprocess.Popen(["true"])
        dead.wait()
        open(os.path.join(d, ".renamify/renamify.lock"), "w").write(f"{dead.pid}:{int(time.time())}")
        with shim.Scheduler(d, {"A": procs["A"]}) as s:
            seen = []
            while True:
                p = s.pending_one("A")
                if p is None:
                    break
                seen.append(shim.parse_line(s.step("A")))
            res = s.wait()
        ops = [e.op for e in seen if e and (e.path.endswith("renamify.lock") or e.op == "kill0")]
        k0 = [e for e in seen if e and e.op == "kill0"]
        row("7", "orphaned lock: exists/openr/read/kill0/unlink/openw all individually schedulable",
            res["A"].rc == 0 and ops[:6] == ["exists", "openr", "read", "read", "kill0", "unlink"] and
            k0 and k0[0].detail.get("target") == str(dead.pid) and k0[0].result == "ESRCH", f"ops={ops}")
    # a bad schedule cannot hang: shim-side timeout releases the process
    with Tree() as d:
        t0 = time.time()
        s = shim.Scheduler(d, {"A": procs["A"]}, shim_timeout_ms=300)
        s.start()
        try:
            res = s.wait(timeout=10)
            row("7", "no grant for 300 ms: process proceeds freely and exits", res["A"].rc == 0, f"{time.time() - t0:.2f}s")
        finally:
            s.close()


# ------------------------------------------------------------------------------------------------
def make_big(d):
    for i in range(200):
        p = os.path.join(d, f"pkg{i % 10}", f"mod_{i}.rs")
        os.makedirs(os.path.dirname(p), exist_ok=True)
        with open(p, "w") as fh:
            for j in range(30):
                fh.write(f"let foo_bar_{j} = FooBar::new({i}); // foo-bar line {j}\n")


def section8():
    print("(8) pass-through cost: `renamify plan` on 200 files, log-only shim vs no shim")
    args = ["plan", "foo_bar", "baz_qux", "--no-auto-init", "--quiet"]
    with Tree(make_big) as d:
        def clean():
            # .renamify/plan.json of a previous run would be scanned as well (and is huge): start equal
            shutil.rmtree(os.path.join(d, ".renamify"), ignore_errors=True)

        def plain():
            clean()
            t = time.time()
            rc, _, err = common.cli(args, d)
            assert rc == 0, err
            return time.time() - t

        def shimmed():
            clean()
            t = time.time()
            r = shim.trace(args, d)
            assert r.rc == 0, r.stderr
            return time.time() - t, len(r.events)
        plain()
        tp = min(plain() for _ in range(3))
        ts, n = min(shimmed() for _ in range(3))
        row("8", "shim (log only) < 2x unshimmed", ts < 2 * tp, f"plain={tp * 1000:.0f} ms shim={ts * 1000:.0f} ms ratio={ts / tp:.2f} events={n}")


# ------------------------------------------------------------------------------------------------
def section9():
    print("(9) robustness")
    with Tree() as d:
        # no FSSHIM_ROOT: pure pass-through
        e = dict(common.BASE_ENV)
        e.update({"LD_PRELOAD": common.SHIM_SO, "HOME": d})
        p = subprocess.run([common.CLI_BIN] + RENAME, cwd=d, env=e, stdout=subprocess.PIPE, stderr=subprocess.PIPE)
        row("9", "FSSHIM_ROOT unset: works, nothing logged", p.returncode == 0 and os.path.exists(os.path.join(d, "src/baz_qux_dir")))
    with Tree() as d:
        # root elsewhere: nothing under this tree is an event
        other = tempfile.mkdtemp(prefix="fsshim-other.")
        try:
            r = shim.run(RENAME, d, shim_env={"FSSHIM_ROOT": other})
            row("9", "calls outside the root are neither logged nor counted", r.rc == 0 and not r.all_events, f"{len(r.all_events)} events")
        finally:
            shutil.rmtree(other, ignore_errors=True)
    with Tree() as d:
        # ONLY_EXE mismatch -> not instrumented
        r = shim.run(RENAME, d, shim_env={"FSSHIM_ONLY_EXE": "something-else", "FSSHIM_AT": 0, "FSSHIM_MODE": "kill_before"})
        row("9", "FSSHIM_ONLY_EXE mismatch: process untouched", r.rc == 0 and not r.all_events)
    with Tree() as d:
        # reads are never counted: LOG_READS adds lines but leaves seq numbering alone
        a = shim.trace(RENAME, d)
    with Tree() as d:
        b = shim.trace(RENAME, d, reads=True)
        ra = [(e.seq, e.op) for e in a.mutating]
        rb = [(e.seq, e.op) for e in b.mutating]
        nread = len([e for e in b.events if e.op in shim.READ_OPS])
        row("9", "read-type calls (incl. rayon workers' opens) logged but never counted", ra == rb and nread > 10
            and all(e.seq is None for e in b.events if e.op in shim.READ_OPS), f"{nread} read-type lines")
    with Tree() as d:
        # -C <dir>: relative paths resolve against the changed cwd; paths with spaces are escaped
        sub = os.path.join(d, "sp ace")
        os.mkdir(sub)
        open(os.path.join(sub, "foo_bar x.txt"), "w").write("foo_bar\n")
        r = shim.run(["-C", sub] + RENAME, d)
        hit = [e for e in r.events if e.op == "rename" and e.path2 == "sp ace/baz_qux x.txt"]
        row("9", "chdir (-C) and names with spaces resolve/escape correctly", r.rc == 0 and len(hit) == 1,
            hit[0].raw if hit else str([e for e in r.events if e.op == 'rename']))
    with Tree() as d:
        # rename with multiple threads forced
        r = shim.trace(RENAME, d, env={"RAYON_NUM_THREADS": "16"})
        r1 = None
    with Tree() as d:
        r1 = shim.trace(RENAME, d, env={"RAYON_NUM_THREADS": "1"})
        row("9", "RAYON_NUM_THREADS=1 vs 16: same abstract trace", shim.abstract(r.events) == shim.abstract(r1.events))


CTEST = r"""
#define _GNU_SOURCE
#include <fcntl.h>
#include <stdio.h>
#include <sys/sendfile.h>
#include <sys/stat.h>
#include <sys/syscall.h>
#include <sys/time.h>
#include <sys/uio.h>
#include <time.h>
#include <unistd.h>
int main(void) {
    int fd = open("a.txt", O_WRONLY | O_CREAT | O_TRUNC, 0644);
    write(fd, "hello", 5);
    struct iovec iov[2] = {{"ab", 2}, {"cd", 2}};
    writev(fd, iov, 2);
    pwrite(fd, "X", 1, 0);
    ftruncate(fd, 3);
    fchmod(fd, 0600);
    fdatasync(fd);
    int fd2 = dup(fd);
    write(fd2, "y", 1);
    close(fd2);
    int fd3 = fcntl(fd, F_DUPFD_CLOEXEC, 10);
    write(fd3, "z", 1);
    close(fd3);
    close(fd);
    write(fd, "lost", 4);                    /* closed: EBADF, must not be an event */
    symlink("a.txt", "l");
    link("a.txt", "h");
    truncate("a.txt", 1);
    syscall(SYS_renameat2, AT_FDCWD, "h", AT_FDCWD, "h2", 0);
    syscall(SYS_mkdir, "dd", 0755);
    mkdirat(AT_FDCWD, "dd/ee", 0755);
    int dfd = open("dd", O_RDONLY | O_DIRECTORY);
    unlinkat(dfd, "ee", AT_REMOVEDIR);
    renameat(AT_FDCWD, "l", dfd, "l2");
    fchmodat(AT_FDCWD, "a.txt", 0644, 0);
    int in = open("h2", O_RDONLY);
    int out = creat("c.txt", 0644);
    copy_file_range(in, NULL, out, NULL, 1, 0);
    off_t off = 0;
    sendfile(out, in, &off, 1);
    close(in);
    close(out);
    int nul = open("/dev/null", O_WRONLY);
    write(nul, "x", 1);                      /* outside the root */
    close(nul);
    rmdir("dd");                             /* ENOTEMPTY */
    unlink("dd/../dd/./l2");
    rmdir("dd");
    statx(0, NULL, 0, 0, NULL);              /* the probe Rust std does */
    struct timespec ts; struct timeval tv;
    clock_gettime(CLOCK_REALTIME, &ts);
    gettimeofday(&tv, NULL);
    printf("%ld %ld %ld %ld %ld\n", (long)time(NULL), (long)ts.tv_sec, ts.tv_nsec, (long)tv.tv_sec, (long)tv.tv_usec);
    clock_gettime(CLOCK_MONOTONIC, &ts);
    printf("%d\n", ts.tv_sec != 1700000000);
    return 0;
}
"""


def section10():
    print("(10) C test program exercising the wrappers renamify never reaches (strace cross-check again)")
    bdir = tempfile.mkdtemp(prefix="fsshim-ctest.")
    try:
        src, exe = os.path.join(bdir, "t.c"), os.path.join(bdir, "fsshim-ctest")
        open(src, "w").write(CTEST)
        rc, out = common.sh(["gcc", "-O0", "-w", "-o", exe, src])
        if rc != 0:
            row("10", "compile test program", False, out[-300:])
            return
        with Tree(lambda d: None) as d:
            rc, evs, muts, unseen, _ = run_strace([], d, {"FSSHIM_COUNT_SYNC": "1", "FSSHIM_ONLY_EXE": "fsshim-ctest",
                                                          "FSSHIM_TIME": "1700000000"}, binary=exe)
            mine = shim_as_tuples(evs)
            if mine != muts:
                for i, (a, b) in enumerate(zip(mine + [None] * 5, muts + [None] * 5)):
                    if a != b:
                        print(f"     first difference at #{i}: shim={a} strace={b}")
                        break
            ops = sorted(set(e.op for e in evs if e.seq is not None))
            row("10", "open/write/writev/pwrite/ftruncate/fchmod/fdatasync/dup/fcntl-dup/symlink/link/truncate/"
                "raw renameat2+mkdir/mkdirat/unlinkat(dirfd)/renameat(dirfd)/fchmodat/copy_file_range/sendfile/rmdir: "
                "shim == strace", rc == 0 and mine == muts and len(muts) == 24, f"strace={len(muts)} shim={len(mine)} ops={ops}")
        with Tree(lambda d: None) as d:
            r = shim.run([], d, shim_env={"FSSHIM_ONLY_EXE": "fsshim-ctest", "FSSHIM_TIME": "1700000000"}, binary=exe)
            row("10", "time(), clock_gettime(CLOCK_REALTIME), gettimeofday() faked; CLOCK_MONOTONIC untouched",
                r.stdout.split() == [b"1700000000", b"1700000000", b"0", b"1700000000", b"0", b"1"], r.stdout.decode().strip())
            r = shim.run([], d, shim_env={"FSSHIM_ONLY_EXE": "fsshim-ctest", "FSSHIM_AT": 2, "FSSHIM_MODE": "kill_mid"}, binary=exe)
            sz = os.path.getsize(os.path.join(d, "a.txt"))
            row("10", "kill_mid on a writev of 4 bytes: 5 + 2 bytes on disk", r.rc == -9 and sz == 7, f"rc={r.rc} size={sz}")
    finally:
        shutil.rmtree(bdir, ignore_errors=True)


def main():
    t0 = time.time()
    ok, msg = True, ""
    if not os.path.exists(common.CLI_BIN):
        ok, msg = common.cargo_build()
        if not ok:
            print("cannot build the CLI:", msg)
            return 2
    common.build_shim()                 # rebuilds .cache/fsshim.so when shim/fsshim.c is newer
    tr, n = section1()
    section2()
    section3(n)
    section4()
    section5()
    section6()
    section7()
    section8()
    section9()
    section10()
    print()
    print(f"{'sec':<4}{'result':<6} what")
    for sec, what, res, info in ROWS:
        print(f"{sec:<4}{res:<6} {what}")
    print(f"\n{len(ROWS) - len(FAILS)}/{len(ROWS)} checks passed in {time.time() - t0:.1f} s")
    for f in FAILS:
        print("FAILED:", f)
    return 1 if FAILS else 0


if __name__ == "__main__":
    sys.exit(main())
