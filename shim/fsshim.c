/*
 * fsshim.c -- LD_PRELOAD interposer for the *mutating filesystem calls* of a (Rust std) program.
 *
 * Part of the trusted base of the /verif framework: the checks observe, perturb and serialise the
 * real `renamify` binary through this library.  Build (exactly what checks/common.py::build_shim does):
 *
 *     gcc -O1 -shared -fPIC -o .cache/fsshim.so shim/fsshim.c -ldl -lpthread
 *
 * What it does (everything is configured through FSSHIM_* environment variables, see README block
 * below): for every interposed libc call whose path lies under FSSHIM_ROOT it
 *   1. assigns the per-process 0-based *event index* `seq` (only to mutating calls),
 *   2. optionally waits for a scheduler grant (FSSHIM_SCHED_DIR / FSSHIM_PROC),
 *   3. optionally injects a fault at event FSSHIM_AT (fail / kill_before / kill_after / kill_mid /
 *      signal / pause),
 *   4. performs the real call through dlsym(RTLD_NEXT, ...),
 *   5. appends one line to FSSHIM_LOG with a single write(2) on a private O_APPEND descriptor.
 * Independently it can serve a fake CLOCK_REALTIME (FSSHIM_TIME / FSSHIM_TIME_FILE).
 *
 * ---------------------------------------------------------------------------------------------------
 * Environment variables
 *   FSSHIM_ROOT=<abs dir>        watched root.  Unset => the file part is a pure pass-through.
 *   FSSHIM_LOG=<file>            event log (outside the root).
 *   FSSHIM_COUNT_SYNC=0|1        do fsync/fdatasync get a seq (default 0: logged with seq "-")
 *   FSSHIM_ONLY_EXE=<basename>   instrument only processes whose /proc/self/exe basename matches
 *   FSSHIM_AT=<k> FSSHIM_MODE=none|fail|kill_before|kill_after|kill_mid|signal|pause
 *   FSSHIM_ERRNO=<name|number>   for mode fail (default EIO)
 *   FSSHIM_SIGNAL=INT|TERM|<n>   FSSHIM_REPEAT=<n>   for mode signal
 *   FSSHIM_PAUSE_FLAG=<file> FSSHIM_RESUME_FLAG=<file>   for mode pause (gives up waiting after
 *                                FSSHIM_SCHED_TIMEOUT_MS and continues)
 *   FSSHIM_SCHED_DIR=<dir> FSSHIM_PROC=<name> FSSHIM_SCHED_READS=0|1 FSSHIM_SCHED_TIMEOUT_MS=<ms>
 *                                scheduler mode, protocol described at sched_wait(); default timeout
 *                                20000 ms, after which the process runs freely
 *   FSSHIM_LOG_READS=0|1         log read-type calls (exists/openr/read) even without a scheduler
 *   FSSHIM_LOG_SYSCALLS=0|1      log one `rawsyscall nr=<n>` line per distinct number that reaches the
 *                                interposed variadic syscall(2) wrapper (diagnostic)
 *   FSSHIM_TIME=<unix seconds>   FSSHIM_TIME_FILE=<file holding unix seconds, re-read at every call>
 *
 * Fault injection, the scheduler and pause apply to the *first* instrumented process only: the
 * variables FSSHIM_AT, FSSHIM_MODE, FSSHIM_SCHED_DIR and FSSHIM_PROC are removed from the environment
 * after they have been read, so children (e.g. `git`) inherit only logging and the clock.
 *
 * Log line (paths are relative to the root, "." = the root itself, absolute if outside the root;
 * bytes <= 0x20, 0x7f and '%' are written as %XX):
 *     <seq|-> <pid> <op> <path> [<path2>] [k=v ...] [inj=<mode>] => <ret | ERRNONAME | KILLED>
 * ops (mutating, counted): openw write rename unlink rmdir mkdir chmod symlink link truncate
 * ops (counted iff FSSHIM_COUNT_SYNC=1): fsync
 * ops (read-type, never counted, only with FSSHIM_SCHED_READS/LOG_READS): exists openr read
 *      kill0 (= kill(pid, 0), path "-", detail target=<pid>)
 *      flock / funlock (= flock(fd, LOCK_EX|LOCK_SH) / flock(fd, LOCK_UN) on a watched descriptor; see flock() below)
 * ops (diagnostic, never counted): rawsyscall warn
 *
 * Semantics of the fault modes at event k (= FSSHIM_AT, counted events only):
 *   fail         the call is not performed; returns -1 with errno FSSHIM_ERRNO
 *   kill_before  the line "... inj=kill_before => KILLED" is logged, then kill(getpid(), SIGKILL)
 *   kill_after   the call is performed and logged, then SIGKILL
 *   kill_mid     write-type events with n >= 2: the first n/2 bytes are written, logged, then SIGKILL;
 *                everything else: like kill_before
 *   signal       kill(getpid(), sig) FSSHIM_REPEAT times (2 ms apart so they are not coalesced), then
 *                the call is performed normally
 *   pause        create FSSHIM_PAUSE_FLAG, poll (5 ms) for FSSHIM_RESUME_FLAG, then perform the call
 * Counted events of one process are serialised by a mutex, so "the k-th event" is well defined even
 * if several threads mutate the tree (renamify's rayon workers only read).
 *
 * Known limits (documented, checked by the self-test's strace comparison for renamify):
 *   - paths are normalised lexically (".", "..", "//"); symlinks inside a path are not resolved, only
 *     the root itself is additionally compared in its realpath form;
 *   - writes through mmap(MAP_SHARED), io_uring, stdio (fopen/fwrite use libc-internal calls) and
 *     descriptors >= FD_MAX are not seen;  `remove(3)`, `openat2`, `__xstat` (pre-2.33 glibc ABI) are
 *     not interposed; Rust std and renamify use none of them;
 *   - path/fd bookkeeping keeps at most PATHLEN-1 bytes of a path per descriptor.
 */
#define _GNU_SOURCE
#include <dlfcn.h>
#include <errno.h>
#include <fcntl.h>
#include <limits.h>
#include <pthread.h>
#include <signal.h>
#include <stdarg.h>
#include <stdatomic.h>
#include <stdio.h>
#include <stdlib.h>
#include <string.h>
#include <sys/sendfile.h>
#include <sys/stat.h>
#include <sys/file.h>
#include <sys/syscall.h>
#include <sys/time.h>
#include <sys/types.h>
#include <sys/uio.h>
#include <time.h>
#include <unistd.h>

/* ------------------------------------------------------------------------------------------------ */
/* configuration and global state                                                                    */

#define FD_MAX 2048      /* descriptors we can track */
#define PATHLEN 1024     /* bytes of display path remembered per tracked descriptor */
#define LINE_MAX_ 16384  /* one log line */

enum { M_NONE, M_FAIL, M_KILL_BEFORE, M_KILL_AFTER, M_KILL_MID, M_SIGNAL, M_PAUSE };
static const char *const mode_names[] = {"none", "fail", "kill_before", "kill_after", "kill_mid", "signal", "pause"};

enum { FD_NONE = 0, FD_W = 1, FD_R = 2, FD_BUSY = 3 };

static struct {
    int fs;                 /* FSSHIM_ROOT set and this process is instrumented */
    int tm;                 /* fake clock active */
    char root[PATH_MAX];    /* as given, normalised */
    size_t root_len;
    char root_real[PATH_MAX]; /* realpath(root) if different, else "" */
    size_t root_real_len;
    char log[PATH_MAX];
    int count_sync;
    int reads;              /* log + schedule read-type calls */
    int log_syscalls;
    long at;                /* -1 = no fault */
    int mode;
    int err;                /* errno for M_FAIL */
    int sig, repeat;
    char pause_flag[PATH_MAX], resume_flag[PATH_MAX];
    int sched;
    char sched_req[PATH_MAX], sched_reqtmp[PATH_MAX], sched_go[PATH_MAX], sched_done[PATH_MAX],
         sched_exit[PATH_MAX], sched_free[PATH_MAX];
    long sched_timeout_ms;
    long long fake_time;    /* FSSHIM_TIME, or -1 */
    char time_file[PATH_MAX];
    pid_t init_pid;
} cfg;

static atomic_int g_inited;          /* 0 = not yet, 1 = in progress, 2 = done */
static atomic_long g_seq;            /* next event index of this process */
static atomic_int g_sched_free;      /* scheduler released this process (timeout / .free file) */
static atomic_int g_logfd = -1;
static pthread_mutex_t g_evmu = PTHREAD_MUTEX_INITIALIZER; /* serialises counted + scheduled events */
static atomic_uchar g_seen_sys[64];  /* bitmap of raw syscall numbers already reported (0..511) */

/* Re-entrancy guard: while > 0 on this thread every interposed function is a plain pass-through, so
 * the shim's own file I/O (log, scheduler files, /proc lookups) is never counted or logged.
 * initial-exec TLS: an LD_PRELOAD object is loaded at start-up, so static TLS is available and the
 * access never allocates (safe in signal handlers). */
static __thread int t_guard __attribute__((tls_model("initial-exec")));

/* per-descriptor bookkeeping; kind is the only field read on the hot path (lock-free) */
static struct fdent {
    atomic_int kind;
    char path[PATHLEN];
} g_fd[FD_MAX];

/* ------------------------------------------------------------------------------------------------ */
/* real functions                                                                                    */

static int (*r_openat)(int, const char *, int, ...);
static ssize_t (*r_write)(int, const void *, size_t);
static ssize_t (*r_pwrite)(int, const void *, size_t, off_t);
static ssize_t (*r_writev)(int, const struct iovec *, int);
static ssize_t (*r_read)(int, void *, size_t);
static int (*r_close)(int);
static int (*r_rename)(const char *, const char *);
static int (*r_renameat)(int, const char *, int, const char *);
static int (*r_renameat2)(int, const char *, int, const char *, unsigned);
static int (*r_unlink)(const char *);
static int (*r_unlinkat)(int, const char *, int);
static int (*r_rmdir)(const char *);
static int (*r_mkdir)(const char *, mode_t);
static int (*r_mkdirat)(int, const char *, mode_t);
static int (*r_chmod)(const char *, mode_t);
static int (*r_fchmod)(int, mode_t);
static int (*r_fchmodat)(int, const char *, mode_t, int);
static int (*r_symlink)(const char *, const char *);
static int (*r_symlinkat)(const char *, int, const char *);
static int (*r_link)(const char *, const char *);
static int (*r_linkat)(int, const char *, int, const char *, int);
static int (*r_truncate)(const char *, off_t);
static int (*r_ftruncate)(int, off_t);
static int (*r_fsync)(int);
static int (*r_fdatasync)(int);
static int (*r_dup)(int);
static int (*r_dup2)(int, int);
static int (*r_dup3)(int, int, int);
static int (*r_fcntl)(int, int, ...);
static ssize_t (*r_copy_file_range)(int, off64_t *, int, off64_t *, size_t, unsigned);
static ssize_t (*r_sendfile)(int, int, off_t *, size_t);
static int (*r_stat)(const char *, struct stat *);
static int (*r_lstat)(const char *, struct stat *);
static int (*r_fstatat)(int, const char *, struct stat *, int);
static int (*r_statx)(int, const char *, int, unsigned, struct statx *);
static int (*r_access)(const char *, int);
static int (*r_faccessat)(int, const char *, int, int);
static int (*r_clock_gettime)(clockid_t, struct timespec *);
static int (*r_gettimeofday)(struct timeval *, void *);
static time_t (*r_time)(time_t *);
static long (*r_syscall)(long, ...);
static void (*r__exit)(int);
static int (*r_kill)(pid_t, int);
static int (*r_flock)(int, int);

static void resolve_all(void) {
#define R(p, name) p = dlsym(RTLD_NEXT, name)
    R(r_openat, "openat"); R(r_write, "write"); R(r_pwrite, "pwrite64"); R(r_writev, "writev");
    R(r_read, "read"); R(r_close, "close"); R(r_rename, "rename"); R(r_renameat, "renameat");
    R(r_renameat2, "renameat2"); R(r_unlink, "unlink"); R(r_unlinkat, "unlinkat"); R(r_rmdir, "rmdir");
    R(r_mkdir, "mkdir"); R(r_mkdirat, "mkdirat"); R(r_chmod, "chmod"); R(r_fchmod, "fchmod");
    R(r_fchmodat, "fchmodat"); R(r_symlink, "symlink"); R(r_symlinkat, "symlinkat"); R(r_link, "link");
    R(r_linkat, "linkat"); R(r_truncate, "truncate64"); R(r_ftruncate, "ftruncate64"); R(r_fsync, "fsync");
    R(r_fdatasync, "fdatasync"); R(r_dup, "dup"); R(r_dup2, "dup2"); R(r_dup3, "dup3"); R(r_fcntl, "fcntl");
    R(r_copy_file_range, "copy_file_range"); R(r_sendfile, "sendfile64");
    R(r_stat, "stat64"); R(r_lstat, "lstat64"); R(r_fstatat, "fstatat64"); R(r_statx, "statx");
    R(r_access, "access"); R(r_faccessat, "faccessat");
    R(r_clock_gettime, "clock_gettime"); R(r_gettimeofday, "gettimeofday"); R(r_time, "time");
    R(r_syscall, "syscall"); R(r__exit, "_exit"); R(r_kill, "kill"); R(r_flock, "flock");
#undef R
}

/* ------------------------------------------------------------------------------------------------ */
/* small helpers                                                                                     */

static const struct { const char *name; int no; } errno_tab[] = {
    {"EPERM", EPERM}, {"ENOENT", ENOENT}, {"ESRCH", ESRCH}, {"EINTR", EINTR}, {"EIO", EIO}, {"ENXIO", ENXIO},
    {"E2BIG", E2BIG}, {"EBADF", EBADF}, {"EAGAIN", EAGAIN}, {"ENOMEM", ENOMEM}, {"EACCES", EACCES},
    {"EFAULT", EFAULT}, {"EBUSY", EBUSY}, {"EEXIST", EEXIST}, {"EXDEV", EXDEV}, {"ENODEV", ENODEV},
    {"ENOTDIR", ENOTDIR}, {"EISDIR", EISDIR}, {"EINVAL", EINVAL}, {"ENFILE", ENFILE}, {"EMFILE", EMFILE},
    {"ETXTBSY", ETXTBSY}, {"EFBIG", EFBIG}, {"ENOSPC", ENOSPC}, {"ESPIPE", ESPIPE}, {"EROFS", EROFS},
    {"EMLINK", EMLINK}, {"EPIPE", EPIPE}, {"ERANGE", ERANGE}, {"ENAMETOOLONG", ENAMETOOLONG},
    {"ENOSYS", ENOSYS}, {"ENOTEMPTY", ENOTEMPTY}, {"ELOOP", ELOOP}, {"EOVERFLOW", EOVERFLOW},
    {"EDQUOT", EDQUOT}, {"ESTALE", ESTALE}, {"ENOTSUP", ENOTSUP}, {"ETIMEDOUT", ETIMEDOUT},
};
#define NERR (sizeof errno_tab / sizeof errno_tab[0])

static const char *errno_name(int e, char *buf, size_t n) {
    for (size_t i = 0; i < NERR; i++)
        if (errno_tab[i].no == e) return errno_tab[i].name;
    snprintf(buf, n, "E%d", e);
    return buf;
}

static int errno_parse(const char *s) {
    if (!s || !*s) return EIO;
    if (*s >= '0' && *s <= '9') return atoi(s);
    for (size_t i = 0; i < NERR; i++)
        if (!strcmp(errno_tab[i].name, s)) return errno_tab[i].no;
    return EIO;
}

static void copy_env(char *dst, size_t n, const char *name) {
    const char *v = getenv(name);
    dst[0] = 0;
    if (v && strlen(v) < n) strcpy(dst, v);
}

static void sleep_us(long us) {
    struct timespec ts = {us / 1000000, (us % 1000000) * 1000};
    nanosleep(&ts, NULL);
}

static long long mono_ms(void) {
    struct timespec ts;
    if (r_clock_gettime) r_clock_gettime(CLOCK_MONOTONIC, &ts); else clock_gettime(CLOCK_MONOTONIC, &ts);
    return (long long)ts.tv_sec * 1000 + ts.tv_nsec / 1000000;
}

/* existence test with the real call (only used on shim-private files, under the guard) */
static int file_exists(const char *p) { return r_access(p, F_OK) == 0; }

static void touch_file(const char *p) {
    int fd = r_openat(AT_FDCWD, p, O_WRONLY | O_CREAT | O_CLOEXEC, 0644);
    if (fd >= 0) r_close(fd);
}

static void die_now(void) {
    /* hard kill: no atexit handlers, no Drop, no flushing -- like a power cut for this process */
    r_syscall(SYS_kill, (long)getpid(), (long)SIGKILL);
    for (;;) pause();
}

/* Lexically normalise the absolute path `in` into `out` (size PATH_MAX): collapse "//", "." and "..". */
static int normalise(const char *in, char *out) {
    size_t o = 0;
    const char *p = in;
    if (*p != '/') return -1;
    while (*p) {
        while (*p == '/') p++;
        if (!*p) break;
        const char *q = p;
        while (*q && *q != '/') q++;
        size_t len = (size_t)(q - p);
        if (len == 1 && p[0] == '.') {
            /* skip */
        } else if (len == 2 && p[0] == '.' && p[1] == '.') {
            while (o > 0 && out[o - 1] != '/') o--;
            if (o > 0) o--; /* drop the slash */
        } else {
            if (o + 1 + len >= PATH_MAX) return -1;
            out[o++] = '/';
            memcpy(out + o, p, len);
            o += len;
        }
        p = q;
    }
    if (o == 0) out[o++] = '/';
    out[o] = 0;
    return 0;
}

/* Absolute normalised path of (dirfd, path).  Relative paths are resolved against the cwd of the
 * process (asked from the kernel each time: the program may chdir) or, for a real dirfd, against
 * readlink(/proc/self/fd/N).  Must be called under the guard.  Returns 0 on success. */
static int abs_path(int dirfd, const char *path, char *out) {
    char tmp[PATH_MAX * 2];
    if (!path) return -1;
    if (path[0] == '/') return normalise(path, out);
    size_t bl;
    if (dirfd == AT_FDCWD) {
        long n = r_syscall(SYS_getcwd, tmp, (long)PATH_MAX);
        if (n <= 0 || tmp[0] != '/') return -1; /* "(unreachable)..." is not absolute */
        bl = strlen(tmp);
    } else {
        char link[64];
        snprintf(link, sizeof link, "/proc/self/fd/%d", dirfd);
        long n = r_syscall(SYS_readlink, link, tmp, (long)PATH_MAX - 1);
        if (n <= 0 || tmp[0] != '/') return -1;
        tmp[n] = 0;
        bl = (size_t)n;
    }
    size_t pl = strlen(path);
    if (bl + 1 + pl >= sizeof tmp) return -1;
    tmp[bl] = '/';
    memcpy(tmp + bl + 1, path, pl + 1);
    return normalise(tmp, out);
}

/* If abs lies under the watched root return the root-relative part ("." for the root), else NULL. */
static const char *under_root(const char *abs) {
    if (cfg.root_len && !strncmp(abs, cfg.root, cfg.root_len)) {
        if (abs[cfg.root_len] == 0) return ".";
        if (abs[cfg.root_len] == '/') return abs + cfg.root_len + 1;
    }
    if (cfg.root_real_len && !strncmp(abs, cfg.root_real, cfg.root_real_len)) {
        if (abs[cfg.root_real_len] == 0) return ".";
        if (abs[cfg.root_real_len] == '/') return abs + cfg.root_real_len + 1;
    }
    return NULL;
}

/* Resolve (dirfd,path) to the display form used in the log: root-relative if inside (returns 1),
 * absolute if outside (returns 0); "?" and 0 if unresolvable. */
static int display_path(int dirfd, const char *path, char *out /* PATH_MAX */) {
    char abs[PATH_MAX];
    if (abs_path(dirfd, path, abs) != 0) {
        strcpy(out, "?");
        return 0;
    }
    const char *rel = under_root(abs);
    strcpy(out, rel ? rel : abs);
    return rel != NULL;
}

/* display path of an open descriptor (via /proc), same return convention */
static int display_fd(int fd, char *out) {
    char link[64], abs[PATH_MAX];
    snprintf(link, sizeof link, "/proc/self/fd/%d", fd);
    long n = r_syscall(SYS_readlink, link, abs, (long)PATH_MAX - 1);
    if (n <= 0 || abs[0] != '/') {
        strcpy(out, "?");
        return 0;
    }
    abs[n] = 0;
    const char *rel = under_root(abs);
    strcpy(out, rel ? rel : abs);
    return rel != NULL;
}

/* append the %XX-escaped form of s to buf at *pos (never overflows; truncates) */
static void put_escaped(char *buf, size_t cap, size_t *pos, const char *s) {
    static const char hex[] = "0123456789ABCDEF";
    if (!*s) s = "%00"; /* an empty path argument still needs a token */
    for (; *s && *pos + 4 < cap; s++) {
        unsigned char c = (unsigned char)*s;
        if (c <= 0x20 || c == 0x7f || c == '%') {
            buf[(*pos)++] = '%';
            buf[(*pos)++] = hex[c >> 4];
            buf[(*pos)++] = hex[c & 15];
        } else
            buf[(*pos)++] = (char)c;
    }
    buf[*pos] = 0;
}

static void put_str(char *buf, size_t cap, size_t *pos, const char *s) {
    for (; *s && *pos + 2 < cap; s++) buf[(*pos)++] = *s;
    buf[*pos] = 0;
}

static void flags_str(int flags, char *out, size_t n) {
    static const struct { int bit; const char *name; } tab[] = {
        {O_CREAT, "O_CREAT"}, {O_EXCL, "O_EXCL"}, {O_TRUNC, "O_TRUNC"}, {O_APPEND, "O_APPEND"},
        {O_CLOEXEC, "O_CLOEXEC"}, {O_DIRECTORY, "O_DIRECTORY"}, {O_NOFOLLOW, "O_NOFOLLOW"},
        {O_NONBLOCK, "O_NONBLOCK"}, {O_SYNC, "O_SYNC"}, {O_PATH, "O_PATH"}, {O_NOCTTY, "O_NOCTTY"},
    };
    int acc = flags & O_ACCMODE;
    snprintf(out, n, "%s", acc == O_WRONLY ? "O_WRONLY" : acc == O_RDWR ? "O_RDWR" : "O_RDONLY");
    for (size_t i = 0; i < sizeof tab / sizeof tab[0]; i++)
        if ((flags & tab[i].bit) == tab[i].bit && strlen(out) + strlen(tab[i].name) + 2 < n) {
            strcat(out, "|");
            strcat(out, tab[i].name);
        }
}

/* ------------------------------------------------------------------------------------------------ */
/* initialisation                                                                                    */

static void child_after_fork(void) {
    /* the forking thread is the only one in the child; another thread may have held the mutex */
    pthread_mutex_init(&g_evmu, NULL);
}

static void init_once(void) {
    int expected = 0;
    if (!atomic_compare_exchange_strong(&g_inited, &expected, 1)) {
        /* another thread is initialising (or we are re-entered from init itself): behave as a
         * pass-through until it is done */
        return;
    }
    t_guard++;
    resolve_all();
    cfg.at = -1;
    cfg.fake_time = -1;
    cfg.init_pid = getpid();

    int instrument = 1;
    const char *only = getenv("FSSHIM_ONLY_EXE");
    if (only && *only) {
        char exe[PATH_MAX];
        long n = r_syscall(SYS_readlink, "/proc/self/exe", exe, (long)sizeof exe - 1);
        instrument = 0;
        if (n > 0) {
            exe[n] = 0;
            char *del = strstr(exe, " (deleted)");
            if (del && del[10] == 0) *del = 0;
            const char *base = strrchr(exe, '/');
            base = base ? base + 1 : exe;
            instrument = strcmp(base, only) == 0;
        }
    }

    const char *v;
    if (instrument) {
        /* clock */
        if ((v = getenv("FSSHIM_TIME")) && *v) cfg.fake_time = atoll(v);
        copy_env(cfg.time_file, sizeof cfg.time_file, "FSSHIM_TIME_FILE");
        cfg.tm = cfg.fake_time >= 0 || cfg.time_file[0];

        /* files */
        if ((v = getenv("FSSHIM_ROOT")) && v[0] == '/' && normalise(v, cfg.root) == 0 && strcmp(cfg.root, "/") != 0) {
            cfg.root_len = strlen(cfg.root);
            char *rp = realpath(cfg.root, NULL);
            if (rp) {
                if (strcmp(rp, cfg.root) != 0 && strlen(rp) < sizeof cfg.root_real) {
                    strcpy(cfg.root_real, rp);
                    cfg.root_real_len = strlen(rp);
                }
                free(rp);
            }
            copy_env(cfg.log, sizeof cfg.log, "FSSHIM_LOG");
            cfg.count_sync = (v = getenv("FSSHIM_COUNT_SYNC")) && atoi(v) != 0;
            cfg.log_syscalls = (v = getenv("FSSHIM_LOG_SYSCALLS")) && atoi(v) != 0;
            cfg.reads = ((v = getenv("FSSHIM_LOG_READS")) && atoi(v) != 0);

            if ((v = getenv("FSSHIM_MODE")) && *v) {
                for (int i = 0; i < 7; i++)
                    if (!strcmp(v, mode_names[i])) cfg.mode = i;
            }
            if (cfg.mode != M_NONE && (v = getenv("FSSHIM_AT")) && *v) cfg.at = atol(v);
            cfg.err = errno_parse(getenv("FSSHIM_ERRNO"));
            cfg.sig = SIGINT;
            if ((v = getenv("FSSHIM_SIGNAL")) && *v) {
                if (!strncmp(v, "SIG", 3)) v += 3;
                if (!strcmp(v, "INT")) cfg.sig = SIGINT;
                else if (!strcmp(v, "TERM")) cfg.sig = SIGTERM;
                else if (!strcmp(v, "HUP")) cfg.sig = SIGHUP;
                else if (!strcmp(v, "QUIT")) cfg.sig = SIGQUIT;
                else if (*v >= '0' && *v <= '9') cfg.sig = atoi(v);
            }
            cfg.repeat = (v = getenv("FSSHIM_REPEAT")) && atoi(v) > 0 ? atoi(v) : 1;
            copy_env(cfg.pause_flag, sizeof cfg.pause_flag, "FSSHIM_PAUSE_FLAG");
            copy_env(cfg.resume_flag, sizeof cfg.resume_flag, "FSSHIM_RESUME_FLAG");
            cfg.sched_timeout_ms = (v = getenv("FSSHIM_SCHED_TIMEOUT_MS")) && atol(v) > 0 ? atol(v) : 20000;

            const char *sd = getenv("FSSHIM_SCHED_DIR"), *pn = getenv("FSSHIM_PROC");
            if (sd && *sd && pn && *pn && strlen(sd) + strlen(pn) + 16 < PATH_MAX) {
                snprintf(cfg.sched_req, PATH_MAX, "%s/%s.req", sd, pn);
                snprintf(cfg.sched_reqtmp, PATH_MAX, "%s/%s.req.tmp", sd, pn);
                snprintf(cfg.sched_go, PATH_MAX, "%s/%s.go", sd, pn);
                snprintf(cfg.sched_done, PATH_MAX, "%s/%s.done", sd, pn);
                snprintf(cfg.sched_exit, PATH_MAX, "%s/%s.exit", sd, pn);
                snprintf(cfg.sched_free, PATH_MAX, "%s/%s.free", sd, pn);
                cfg.sched = 1;
                if ((v = getenv("FSSHIM_SCHED_READS")) && atoi(v) != 0) cfg.reads = 1;
            }
            /* one-shot settings: not for our children */
            unsetenv("FSSHIM_AT");
            unsetenv("FSSHIM_MODE");
            unsetenv("FSSHIM_SCHED_DIR");
            unsetenv("FSSHIM_PROC");
            pthread_atfork(NULL, NULL, child_after_fork);
            cfg.fs = 1;
        }
    }
    t_guard--;
    atomic_store(&g_inited, 2);
}

__attribute__((constructor)) static void fsshim_ctor(void) { init_once(); }

#define ENSURE_INIT() do { if (atomic_load_explicit(&g_inited, memory_order_acquire) != 2) init_once(); } while (0)
/* true when the file part must look at this call */
#define FS_ON() (cfg.fs && t_guard == 0 && atomic_load_explicit(&g_inited, memory_order_relaxed) == 2)

/* written when the process terminates through exit()/return from main/_exit (not when killed) */
static void write_exit_marker(void) {
    if (cfg.sched && getpid() == cfg.init_pid) {
        t_guard++;
        touch_file(cfg.sched_exit);
        t_guard--;
    }
}
__attribute__((destructor)) static void fsshim_dtor(void) { write_exit_marker(); }

void _exit(int status) {
    ENSURE_INIT();
    write_exit_marker();
    if (r__exit) r__exit(status);
    syscall(SYS_exit_group, status);
    for (;;) {}
}

/* ------------------------------------------------------------------------------------------------ */
/* log                                                                                               */

static int log_fd(void) {
    int fd = atomic_load(&g_logfd);
    if (fd >= 0 || !cfg.log[0]) return fd;
    fd = r_openat(AT_FDCWD, cfg.log, O_WRONLY | O_CREAT | O_APPEND | O_CLOEXEC, 0644);
    if (fd < 0) return -1;
    /* move it out of the way of the program's own descriptor numbers */
    int hi = r_fcntl(fd, F_DUPFD_CLOEXEC, 900);
    if (hi >= 0) {
        r_close(fd);
        fd = hi;
    }
    int expected = -1;
    if (!atomic_compare_exchange_strong(&g_logfd, &expected, fd)) {
        r_close(fd); /* lost the race */
        fd = expected;
    }
    return fd;
}

static void log_write(const char *line, size_t n) {
    int fd = log_fd();
    if (fd >= 0) {
        ssize_t r = r_write(fd, line, n);
        (void)r;
    }
}

static void append_file(const char *path, const char *line, size_t n) {
    int fd = r_openat(AT_FDCWD, path, O_WRONLY | O_CREAT | O_APPEND | O_CLOEXEC, 0644);
    if (fd >= 0) {
        ssize_t r = r_write(fd, line, n);
        (void)r;
        r_close(fd);
    }
}

static void log_note(const char *op, const char *detail) {
    char line[512];
    int n = snprintf(line, sizeof line, "- %d %s - %s => -\n", (int)getpid(), op, detail);
    if (n > 0) log_write(line, (size_t)n);
}

/* ------------------------------------------------------------------------------------------------ */
/* the event protocol                                                                                */

enum { ACT_RUN = 0, ACT_FAIL = 1, ACT_MID = 2 };

struct ev {
    const char *op;
    int counted;    /* gets a seq; fault injection applies */
    int readtype;   /* exists / openr / read: schedulable, never counted */
    int is_write;   /* kill_mid is meaningful */
    size_t wn;      /* bytes of a write */
    char p1[PATH_MAX], p2[PATH_MAX];
    int has2;
    char detail[320]; /* " k=v k=v" (leading space each) */
    long seq;
    int locked, kill_after, inj;
    char line[LINE_MAX_];
    size_t len;
};

static void ev_init(struct ev *e, const char *op, int counted) {
    e->op = op;
    e->counted = counted;
    e->readtype = 0;
    e->is_write = 0;
    e->wn = 0;
    e->p1[0] = e->p2[0] = 0;
    e->has2 = 0;
    e->detail[0] = 0;
    e->seq = -1;
    e->locked = e->kill_after = e->inj = 0;
    e->len = 0;
}

static void ev_detail(struct ev *e, const char *fmt, ...) {
    size_t l = strlen(e->detail);
    va_list ap;
    va_start(ap, fmt);
    vsnprintf(e->detail + l, sizeof e->detail - l, fmt, ap);
    va_end(ap);
}

static void ev_format_head(struct ev *e) {
    char num[48];
    e->len = 0;
    if (e->seq >= 0) snprintf(num, sizeof num, "%ld %d ", e->seq, (int)getpid());
    else snprintf(num, sizeof num, "- %d ", (int)getpid());
    put_str(e->line, LINE_MAX_ - 64, &e->len, num);
    put_str(e->line, LINE_MAX_ - 64, &e->len, e->op);
    put_str(e->line, LINE_MAX_ - 64, &e->len, " ");
    put_escaped(e->line, LINE_MAX_ / 2, &e->len, e->p1);
    if (e->has2) {
        put_str(e->line, LINE_MAX_ - 64, &e->len, " ");
        put_escaped(e->line, LINE_MAX_ - 512, &e->len, e->p2);
    }
    put_str(e->line, LINE_MAX_ - 64, &e->len, e->detail);
}

static void ev_finish_line(struct ev *e, const char *result) {
    if (e->inj) {
        put_str(e->line, LINE_MAX_ - 32, &e->len, " inj=");
        put_str(e->line, LINE_MAX_ - 32, &e->len, mode_names[e->inj]);
    }
    put_str(e->line, LINE_MAX_ - 2, &e->len, " => ");
    put_str(e->line, LINE_MAX_ - 2, &e->len, result);
    e->line[e->len++] = '\n';
    e->line[e->len] = 0;
}

/* Block until the scheduler grants this step.  Protocol (all files in FSSHIM_SCHED_DIR):
 *   process: write <name>.req (atomically, via rename) with the pending call
 *   python : create <name>.go
 *   process: delete .req, delete .go, perform the call, append the result line to <name>.done
 * A <name>.free file or a timeout releases the process for good. */
static void sched_wait(struct ev *e) {
    if (atomic_load(&g_sched_free)) return;
    if (file_exists(cfg.sched_free)) {
        atomic_store(&g_sched_free, 1);
        return;
    }
    int fd = r_openat(AT_FDCWD, cfg.sched_reqtmp, O_WRONLY | O_CREAT | O_TRUNC | O_CLOEXEC, 0644);
    if (fd < 0) {
        atomic_store(&g_sched_free, 1);
        return;
    }
    ssize_t w = r_write(fd, e->line, e->len);
    (void)w;
    w = r_write(fd, "\n", 1);
    r_close(fd);
    r_rename(cfg.sched_reqtmp, cfg.sched_req);
    long long deadline = mono_ms() + cfg.sched_timeout_ms;
    int spins = 0;
    for (;;) {
        if (file_exists(cfg.sched_go)) break;
        if ((spins & 7) == 7) {
            if (file_exists(cfg.sched_free)) {
                atomic_store(&g_sched_free, 1);
                break;
            }
            if (mono_ms() > deadline) {
                atomic_store(&g_sched_free, 1);
                append_file(cfg.sched_done, "TIMEOUT\n", 8);
                log_note("warn", "what=sched-timeout");
                break;
            }
        }
        spins++;
        sleep_us(spins < 50 ? 100 : 1000);
    }
    r_unlink(cfg.sched_req);
    r_unlink(cfg.sched_go);
}

/* Called (under the guard) before the real call.  Returns what the wrapper must do. */
static int ev_before(struct ev *e) {
    int want_sched = cfg.sched && !atomic_load(&g_sched_free) && (e->counted || e->readtype);
    if (e->counted || want_sched) {
        pthread_mutex_lock(&g_evmu);
        e->locked = 1;
    }
    if (e->counted) e->seq = atomic_fetch_add(&g_seq, 1);
    ev_format_head(e);
    if (want_sched) sched_wait(e);

    if (e->counted && cfg.at >= 0 && e->seq == cfg.at) {
        e->inj = cfg.mode;
        switch (cfg.mode) {
        case M_FAIL:
            return ACT_FAIL;
        case M_KILL_MID:
            if (e->is_write && e->wn >= 2) return ACT_MID;
            /* fall through */
        case M_KILL_BEFORE:
            e->inj = cfg.mode;
            ev_finish_line(e, "KILLED");
            log_write(e->line, e->len);
            if (cfg.sched) append_file(cfg.sched_done, e->line, e->len);
            die_now();
            break;
        case M_KILL_AFTER:
            e->kill_after = 1;
            break;
        case M_SIGNAL:
            for (int i = 0; i < cfg.repeat; i++) {
                if (i) sleep_us(2000); /* let the previous one be delivered: standard signals do not queue */
                r_syscall(SYS_kill, (long)getpid(), (long)cfg.sig);
            }
            break;
        case M_PAUSE: {
            if (cfg.pause_flag[0]) touch_file(cfg.pause_flag);
            long long deadline = mono_ms() + cfg.sched_timeout_ms;
            while (cfg.resume_flag[0] && !file_exists(cfg.resume_flag) && mono_ms() < deadline) sleep_us(5000);
            break;
        }
        default:
            break;
        }
    }
    return ACT_RUN;
}

/* Called after the real call (or instead of it, for ACT_FAIL) with its return value and errno. */
static void ev_after(struct ev *e, long ret, int err) {
    char res[32], eb[16];
    if (ret < 0) snprintf(res, sizeof res, "%s", errno_name(err, eb, sizeof eb));
    else snprintf(res, sizeof res, "%ld", ret);
    ev_finish_line(e, res);
    log_write(e->line, e->len);
    if (cfg.sched && (e->counted || e->readtype)) append_file(cfg.sched_done, e->line, e->len);
    if (e->kill_after) die_now();
    if (e->locked) pthread_mutex_unlock(&g_evmu);
}

/* ------------------------------------------------------------------------------------------------ */
/* descriptor table                                                                                  */

static void fd_track(int fd, int kind, const char *disp) {
    if (fd < 0) return;
    if (fd >= FD_MAX) {
        log_note("warn", "what=fd-beyond-table");
        return;
    }
    atomic_store(&g_fd[fd].kind, FD_BUSY);
    strncpy(g_fd[fd].path, disp, PATHLEN - 1);
    g_fd[fd].path[PATHLEN - 1] = 0;
    atomic_store(&g_fd[fd].kind, kind);
}

static inline int fd_kind(int fd) {
    if (fd < 0 || fd >= FD_MAX) return FD_NONE;
    int k = atomic_load_explicit(&g_fd[fd].kind, memory_order_acquire);
    return k == FD_BUSY ? FD_NONE : k;
}

static inline void fd_forget(int fd) {
    if (fd >= 0 && fd < FD_MAX && atomic_load_explicit(&g_fd[fd].kind, memory_order_relaxed) != FD_NONE)
        atomic_store(&g_fd[fd].kind, FD_NONE);
}

static void fd_copy(int from, int to) {
    int k = fd_kind(from);
    if (to < 0) return;
    if (k == FD_NONE) {
        fd_forget(to);
        return;
    }
    fd_track(to, k, g_fd[from].path);
}

/* ------------------------------------------------------------------------------------------------ */
/* open family                                                                                       */

static int is_write_open(int flags) {
    if ((flags & O_PATH) == O_PATH) return 0;
    if ((flags & O_ACCMODE) != O_RDONLY) return 1;
    return (flags & (O_CREAT | O_TRUNC | O_APPEND)) != 0;
}

static int open_core(int dirfd, const char *path_, int flags, mode_t mode) {
    const char *volatile path = path_; /* see header comment: nonnull attribute vs NULL probes */
    ENSURE_INIT();
    if (!r_openat) return -1;
    int wr = is_write_open(flags);
    if (!FS_ON() || !path || (!wr && !cfg.reads)) return r_openat(dirfd, path, flags, mode);
    t_guard++;
    struct ev e;
    ev_init(&e, wr ? "openw" : "openr", wr);
    e.readtype = !wr;
    if (!display_path(dirfd, path, e.p1)) {
        t_guard--;
        return r_openat(dirfd, path, flags, mode);
    }
    char fs[160];
    flags_str(flags, fs, sizeof fs);
    ev_detail(&e, " flags=%s", fs);
    if (flags & O_CREAT) ev_detail(&e, " mode=%o", (unsigned)mode);
    int ret, err;
    if (ev_before(&e) == ACT_FAIL) {
        ret = -1;
        err = cfg.err;
    } else {
        ret = r_openat(dirfd, path, flags, mode);
        err = errno;
    }
    if (ret >= 0) {
        if (wr) {
            struct stat st;
            if (fstat(ret, &st) == 0 && S_ISREG(st.st_mode)) fd_track(ret, FD_W, e.p1);
            else fd_forget(ret);
        } else if (!(flags & O_DIRECTORY))
            fd_track(ret, FD_R, e.p1);
    }
    ev_after(&e, ret, err);
    t_guard--;
    errno = err;
    return ret;
}

#define OPEN_MODE(flags, last) \
    mode_t mode = 0; \
    if (((flags) & O_CREAT) || ((flags) & O_TMPFILE) == O_TMPFILE) { \
        va_list ap; va_start(ap, last); mode = (mode_t)va_arg(ap, int); va_end(ap); \
    }

int open(const char *path, int flags, ...) { OPEN_MODE(flags, flags); return open_core(AT_FDCWD, path, flags, mode); }
int open64(const char *path, int flags, ...) { OPEN_MODE(flags, flags); return open_core(AT_FDCWD, path, flags, mode); }
int openat(int dirfd, const char *path, int flags, ...) { OPEN_MODE(flags, flags); return open_core(dirfd, path, flags, mode); }
int openat64(int dirfd, const char *path, int flags, ...) { OPEN_MODE(flags, flags); return open_core(dirfd, path, flags, mode); }
int creat(const char *path, mode_t mode) { return open_core(AT_FDCWD, path, O_CREAT | O_WRONLY | O_TRUNC, mode); }
int creat64(const char *path, mode_t mode) { return open_core(AT_FDCWD, path, O_CREAT | O_WRONLY | O_TRUNC, mode); }

int close(int fd) {
    ENSURE_INIT();
    if (cfg.fs) {
        fd_forget(fd);
        /* keep our private log descriptor alive if the program sweeps descriptors */
        if (fd >= 0 && fd == atomic_load_explicit(&g_logfd, memory_order_relaxed) && t_guard == 0) {
            errno = EBADF;
            return -1;
        }
    }
    return r_close ? r_close(fd) : (int)syscall(SYS_close, fd);
}

int dup(int fd) {
    ENSURE_INIT();
    int r = r_dup(fd);
    if (cfg.fs && r >= 0) fd_copy(fd, r);
    return r;
}
int dup2(int fd, int to) {
    ENSURE_INIT();
    int r = r_dup2(fd, to);
    if (cfg.fs && r >= 0 && r != fd) fd_copy(fd, r);
    return r;
}
int dup3(int fd, int to, int flags) {
    ENSURE_INIT();
    int r = r_dup3(fd, to, flags);
    if (cfg.fs && r >= 0) fd_copy(fd, r);
    return r;
}
static int fcntl_core(int fd, int cmd, unsigned long arg) {
    ENSURE_INIT();
    int r = r_fcntl(fd, cmd, arg);
    if (cfg.fs && r >= 0 && (cmd == F_DUPFD || cmd == F_DUPFD_CLOEXEC)) fd_copy(fd, r);
    return r;
}
int fcntl(int fd, int cmd, ...) {
    va_list ap; va_start(ap, cmd); unsigned long a = va_arg(ap, unsigned long); va_end(ap);
    return fcntl_core(fd, cmd, a);
}
int fcntl64(int fd, int cmd, ...) {
    va_list ap; va_start(ap, cmd); unsigned long a = va_arg(ap, unsigned long); va_end(ap);
    return fcntl_core(fd, cmd, a);
}

/* ------------------------------------------------------------------------------------------------ */
/* write family                                                                                      */

/* common part of all data-writing calls on a tracked descriptor.
 * kind: 0 write, 1 pwrite(off), 2 writev, 3 copy_file_range/sendfile (performed by `alt`) */
struct wr_args {
    int fd;
    const void *buf; size_t n; off_t off;
    const struct iovec *iov; int iovcnt;
    int kind;
    /* copy_file_range / sendfile */
    int in_fd; off64_t *in_off; off64_t *out_off; unsigned cfr_flags; int is_sendfile;
};

static ssize_t wr_perform(const struct wr_args *a, size_t limit /* (size_t)-1 = all */) {
    switch (a->kind) {
    case 0: return r_write(a->fd, a->buf, limit < a->n ? limit : a->n);
    case 1: return r_pwrite(a->fd, a->buf, limit < a->n ? limit : a->n, a->off);
    case 2: {
        if (limit == (size_t)-1) return r_writev(a->fd, a->iov, a->iovcnt);
        ssize_t total = 0;
        for (int i = 0; i < a->iovcnt && limit > 0; i++) {
            size_t l = a->iov[i].iov_len < limit ? a->iov[i].iov_len : limit;
            ssize_t w = r_write(a->fd, a->iov[i].iov_base, l);
            if (w < 0) return total ? total : w;
            total += w;
            limit -= (size_t)w;
            if ((size_t)w < l) break;
        }
        return total;
    }
    default:
        if (a->is_sendfile) return r_sendfile(a->fd, a->in_fd, (off_t *)a->in_off, limit < a->n ? limit : a->n);
        return r_copy_file_range(a->in_fd, a->in_off, a->fd, a->out_off, limit < a->n ? limit : a->n, a->cfr_flags);
    }
}

static ssize_t write_event(const struct wr_args *a, const char *via) {
    t_guard++;
    struct ev e;
    ev_init(&e, "write", 1);
    e.is_write = 1;
    e.wn = a->n;
    strncpy(e.p1, g_fd[a->fd].path, PATH_MAX - 1);
    e.p1[PATH_MAX - 1] = 0;
    ev_detail(&e, " n=%zu", a->n);
    if (via) ev_detail(&e, " via=%s", via);
    ssize_t ret;
    int err;
    switch (ev_before(&e)) {
    case ACT_FAIL:
        ret = -1;
        err = cfg.err;
        break;
    case ACT_MID:
        ret = wr_perform(a, a->n / 2);
        err = errno;
        e.kill_after = 1;
        break;
    default:
        ret = wr_perform(a, (size_t)-1);
        err = errno;
    }
    ev_after(&e, ret, err);
    t_guard--;
    errno = err;
    return ret;
}

ssize_t write(int fd, const void *buf, size_t n) {
    if (!r_write) { ENSURE_INIT(); if (!r_write) return syscall(SYS_write, fd, buf, n); }
    if (t_guard || !cfg.fs || fd_kind(fd) != FD_W) return r_write(fd, buf, n);
    struct wr_args a = {.fd = fd, .buf = buf, .n = n, .kind = 0};
    return write_event(&a, NULL);
}

static ssize_t pwrite_core(int fd, const void *buf, size_t n, off_t off) {
    ENSURE_INIT();
    if (t_guard || !cfg.fs || fd_kind(fd) != FD_W) return r_pwrite(fd, buf, n, off);
    struct wr_args a = {.fd = fd, .buf = buf, .n = n, .off = off, .kind = 1};
    return write_event(&a, "pwrite");
}
ssize_t pwrite(int fd, const void *buf, size_t n, off_t off) { return pwrite_core(fd, buf, n, off); }
ssize_t pwrite64(int fd, const void *buf, size_t n, off64_t off) { return pwrite_core(fd, buf, n, off); }

ssize_t writev(int fd, const struct iovec *iov, int cnt) {
    ENSURE_INIT();
    if (t_guard || !cfg.fs || fd_kind(fd) != FD_W) return r_writev(fd, iov, cnt);
    size_t total = 0;
    for (int i = 0; i < cnt; i++) total += iov[i].iov_len;
    struct wr_args a = {.fd = fd, .n = total, .iov = iov, .iovcnt = cnt, .kind = 2};
    return write_event(&a, "writev");
}

ssize_t copy_file_range(int in_fd, off64_t *in_off, int out_fd, off64_t *out_off, size_t n, unsigned flags) {
    ENSURE_INIT();
    if (!r_copy_file_range) { errno = ENOSYS; return -1; }
    if (t_guard || !cfg.fs || fd_kind(out_fd) != FD_W) return r_copy_file_range(in_fd, in_off, out_fd, out_off, n, flags);
    struct wr_args a = {.fd = out_fd, .n = n, .kind = 3, .in_fd = in_fd, .in_off = in_off, .out_off = out_off, .cfr_flags = flags};
    return write_event(&a, "copy_file_range");
}

static ssize_t sendfile_core(int out_fd, int in_fd, off_t *off, size_t n) {
    ENSURE_INIT();
    if (t_guard || !cfg.fs || fd_kind(out_fd) != FD_W) return r_sendfile(out_fd, in_fd, off, n);
    struct wr_args a = {.fd = out_fd, .n = n, .kind = 3, .in_fd = in_fd, .in_off = (off64_t *)off, .is_sendfile = 1};
    return write_event(&a, "sendfile");
}
ssize_t sendfile(int out_fd, int in_fd, off_t *off, size_t n) { return sendfile_core(out_fd, in_fd, off, n); }
ssize_t sendfile64(int out_fd, int in_fd, off64_t *off, size_t n) { return sendfile_core(out_fd, in_fd, (off_t *)off, n); }

ssize_t read(int fd, void *buf, size_t n) {
    if (!r_read) { ENSURE_INIT(); if (!r_read) return syscall(SYS_read, fd, buf, n); }
    if (t_guard || !cfg.fs || !cfg.reads || fd_kind(fd) != FD_R) return r_read(fd, buf, n);
    t_guard++;
    struct ev e;
    ev_init(&e, "read", 0);
    e.readtype = 1;
    strncpy(e.p1, g_fd[fd].path, PATH_MAX - 1);
    e.p1[PATH_MAX - 1] = 0;
    ev_detail(&e, " n=%zu", n);
    ev_before(&e);
    ssize_t ret = r_read(fd, buf, n);
    int err = errno;
    ev_after(&e, ret, err);
    t_guard--;
    errno = err;
    return ret;
}

/* ------------------------------------------------------------------------------------------------ */
/* path-mutating calls                                                                               */

/* Boilerplate shared by the wrappers below.
 *   PRE : pass-through test            BEGIN(op): start event `e` (p1/p2 must be filled first)
 *   RUN(call): perform or fail         END: log, unlock, restore errno, return */
#define PASS_IF_OFF(realcall) do { ENSURE_INIT(); if (!FS_ON()) return (realcall); } while (0)
#define RUN(call) do { if (ev_before(&e) == ACT_FAIL) { ret = -1; err = cfg.err; } else { ret = (call); err = errno; } } while (0)
#define END() do { ev_after(&e, ret, err); t_guard--; errno = err; return ret; } while (0)

static int rename_core(int fd1, const char *a_, int fd2, const char *b_, unsigned flags, int which) {
    const char *volatile a = a_;
    const char *volatile b = b_;
#define REAL_RENAME() (which == 0 ? r_rename(a, b) : which == 1 ? r_renameat(fd1, a, fd2, b) : \
                       r_renameat2 ? r_renameat2(fd1, a, fd2, b, flags) : (int)r_syscall(SYS_renameat2, (long)fd1, a, (long)fd2, b, (long)flags))
    PASS_IF_OFF(REAL_RENAME());
    if (!a || !b) return REAL_RENAME();
    t_guard++;
    struct ev e;
    ev_init(&e, "rename", 1);
    int in1 = display_path(fd1, a, e.p1), in2 = display_path(fd2, b, e.p2);
    if (!in1 && !in2) {
        t_guard--;
        return REAL_RENAME();
    }
    e.has2 = 1;
    if (flags) ev_detail(&e, " flags=%u", flags);
    int ret, err;
    RUN(REAL_RENAME());
    END();
#undef REAL_RENAME
}
int rename(const char *a, const char *b) { return rename_core(AT_FDCWD, a, AT_FDCWD, b, 0, 0); }
int renameat(int fd1, const char *a, int fd2, const char *b) { return rename_core(fd1, a, fd2, b, 0, 1); }
int renameat2(int fd1, const char *a, int fd2, const char *b, unsigned flags) { return rename_core(fd1, a, fd2, b, flags, 2); }

static int unlink_core(int dirfd, const char *p_, int flags, int which) {
    const char *volatile p = p_;
#define REAL_UNLINK() (which == 0 ? r_unlink(p) : which == 1 ? r_rmdir(p) : r_unlinkat(dirfd, p, flags))
    PASS_IF_OFF(REAL_UNLINK());
    if (!p) return REAL_UNLINK();
    t_guard++;
    struct ev e;
    ev_init(&e, (which == 1 || (which == 2 && (flags & AT_REMOVEDIR))) ? "rmdir" : "unlink", 1);
    if (!display_path(dirfd, p, e.p1)) {
        t_guard--;
        return REAL_UNLINK();
    }
    int ret, err;
    RUN(REAL_UNLINK());
    END();
#undef REAL_UNLINK
}
int unlink(const char *p) { return unlink_core(AT_FDCWD, p, 0, 0); }
int rmdir(const char *p) { return unlink_core(AT_FDCWD, p, 0, 1); }
int unlinkat(int dirfd, const char *p, int flags) { return unlink_core(dirfd, p, flags, 2); }

static int mkdir_core(int dirfd, const char *p_, mode_t mode, int which) {
    const char *volatile p = p_;
#define REAL_MKDIR() (which == 0 ? r_mkdir(p, mode) : r_mkdirat(dirfd, p, mode))
    PASS_IF_OFF(REAL_MKDIR());
    if (!p) return REAL_MKDIR();
    t_guard++;
    struct ev e;
    ev_init(&e, "mkdir", 1);
    if (!display_path(dirfd, p, e.p1)) {
        t_guard--;
        return REAL_MKDIR();
    }
    ev_detail(&e, " mode=%o", (unsigned)mode);
    int ret, err;
    RUN(REAL_MKDIR());
    END();
#undef REAL_MKDIR
}
int mkdir(const char *p, mode_t mode) { return mkdir_core(AT_FDCWD, p, mode, 0); }
int mkdirat(int dirfd, const char *p, mode_t mode) { return mkdir_core(dirfd, p, mode, 1); }

static int chmod_core(int dirfd, const char *p_, mode_t mode, int atflags, int which) {
    const char *volatile p = p_;
#define REAL_CHMOD() (which == 0 ? r_chmod(p, mode) : r_fchmodat(dirfd, p, mode, atflags))
    PASS_IF_OFF(REAL_CHMOD());
    if (!p) return REAL_CHMOD();
    t_guard++;
    struct ev e;
    ev_init(&e, "chmod", 1);
    if (!display_path(dirfd, p, e.p1)) {
        t_guard--;
        return REAL_CHMOD();
    }
    ev_detail(&e, " mode=%o", (unsigned)mode);
    int ret, err;
    RUN(REAL_CHMOD());
    END();
#undef REAL_CHMOD
}
int chmod(const char *p, mode_t mode) { return chmod_core(AT_FDCWD, p, mode, 0, 0); }
int fchmodat(int dirfd, const char *p, mode_t mode, int flags) { return chmod_core(dirfd, p, mode, flags, 1); }

/* descriptor-based calls: the path comes from the table (tracked) or from /proc/self/fd */
static int fd_event_path(int fd, char *out) {
    if (fd_kind(fd) != FD_NONE) {
        strncpy(out, g_fd[fd].path, PATH_MAX - 1);
        out[PATH_MAX - 1] = 0;
        return 1;
    }
    return display_fd(fd, out);
}

int fchmod(int fd, mode_t mode) {
    PASS_IF_OFF(r_fchmod(fd, mode));
    t_guard++;
    struct ev e;
    ev_init(&e, "chmod", 1);
    if (!fd_event_path(fd, e.p1)) {
        t_guard--;
        return r_fchmod(fd, mode);
    }
    ev_detail(&e, " mode=%o via=fchmod", (unsigned)mode);
    int ret, err;
    RUN(r_fchmod(fd, mode));
    END();
}

static int ftruncate_core(int fd, off_t len) {
    PASS_IF_OFF(r_ftruncate(fd, len));
    t_guard++;
    struct ev e;
    ev_init(&e, "truncate", 1);
    if (!fd_event_path(fd, e.p1)) {
        t_guard--;
        return r_ftruncate(fd, len);
    }
    ev_detail(&e, " n=%lld via=ftruncate", (long long)len);
    int ret, err;
    RUN(r_ftruncate(fd, len));
    END();
}
int ftruncate(int fd, off_t len) { return ftruncate_core(fd, len); }
int ftruncate64(int fd, off64_t len) { return ftruncate_core(fd, len); }

static int truncate_core(const char *p_, off_t len) {
    const char *volatile p = p_;
    PASS_IF_OFF(r_truncate(p, len));
    if (!p) return r_truncate(p, len);
    t_guard++;
    struct ev e;
    ev_init(&e, "truncate", 1);
    if (!display_path(AT_FDCWD, p, e.p1)) {
        t_guard--;
        return r_truncate(p, len);
    }
    ev_detail(&e, " n=%lld", (long long)len);
    int ret, err;
    RUN(r_truncate(p, len));
    END();
}
int truncate(const char *p, off_t len) { return truncate_core(p, len); }
int truncate64(const char *p, off64_t len) { return truncate_core(p, len); }

static int sync_core(int fd, int data) {
#define REAL_SYNC() (data ? r_fdatasync(fd) : r_fsync(fd))
    PASS_IF_OFF(REAL_SYNC());
    t_guard++;
    struct ev e;
    ev_init(&e, "fsync", cfg.count_sync);
    if (!fd_event_path(fd, e.p1)) {
        t_guard--;
        return REAL_SYNC();
    }
    if (data) ev_detail(&e, " via=fdatasync");
    int ret, err;
    RUN(REAL_SYNC());
    END();
#undef REAL_SYNC
}
int fsync(int fd) { return sync_core(fd, 0); }
int fdatasync(int fd) { return sync_core(fd, 1); }

static int symlink_core(const char *target_, int dirfd, const char *p_, int which) {
    const char *volatile target = target_;
    const char *volatile p = p_;
#define REAL_SYMLINK() (which == 0 ? r_symlink(target, p) : r_symlinkat(target, dirfd, p))
    PASS_IF_OFF(REAL_SYMLINK());
    if (!p || !target) return REAL_SYMLINK();
    t_guard++;
    struct ev e;
    ev_init(&e, "symlink", 1);
    if (!display_path(dirfd, p, e.p1)) {
        t_guard--;
        return REAL_SYMLINK();
    }
    {   /* the link target is data, not a path of ours: log it escaped as a detail */
        char esc[200];
        size_t pos = 0;
        put_escaped(esc, sizeof esc, &pos, target);
        ev_detail(&e, " target=%s", esc);
    }
    int ret, err;
    RUN(REAL_SYMLINK());
    END();
#undef REAL_SYMLINK
}
int symlink(const char *target, const char *p) { return symlink_core(target, AT_FDCWD, p, 0); }
int symlinkat(const char *target, int dirfd, const char *p) { return symlink_core(target, dirfd, p, 1); }

static int link_core(int fd1, const char *a_, int fd2, const char *b_, int flags, int which) {
    const char *volatile a = a_;
    const char *volatile b = b_;
#define REAL_LINK() (which == 0 ? r_link(a, b) : r_linkat(fd1, a, fd2, b, flags))
    PASS_IF_OFF(REAL_LINK());
    if (!a || !b) return REAL_LINK();
    t_guard++;
    struct ev e;
    ev_init(&e, "link", 1);
    int in1 = display_path(fd1, a, e.p1), in2 = display_path(fd2, b, e.p2);
    if (!in2) { /* only the created name matters */
        (void)in1;
        t_guard--;
        return REAL_LINK();
    }
    e.has2 = 1;
    int ret, err;
    RUN(REAL_LINK());
    END();
#undef REAL_LINK
}
int link(const char *a, const char *b) { return link_core(AT_FDCWD, a, AT_FDCWD, b, 0, 0); }
int linkat(int fd1, const char *a, int fd2, const char *b, int flags) { return link_core(fd1, a, fd2, b, flags, 1); }

/* ------------------------------------------------------------------------------------------------ */
/* read-type calls (existence checks): only looked at with FSSHIM_SCHED_READS / FSSHIM_LOG_READS     */

#define READS_ON() (FS_ON() && cfg.reads)

/* returns 1 if an `exists` event was started in *e (caller must finish it) */
static int exists_begin(struct ev *e, int dirfd, const char *path) {
    t_guard++;
    ev_init(e, "exists", 0);
    e->readtype = 1;
    if (!display_path(dirfd, path, e->p1)) {
        t_guard--;
        return 0;
    }
    ev_before(e);
    return 1;
}
static void exists_end(struct ev *e, long ret, int err) {
    ev_after(e, ret, err);
    t_guard--;
    errno = err;
}

#define EXISTS_WRAPPER(dirfd, path_expr, realcall) \
    ENSURE_INIT(); \
    const char *volatile vp = (path_expr); \
    if (!READS_ON() || !vp || !*vp) return (realcall); \
    struct ev e; \
    if (!exists_begin(&e, (dirfd), vp)) return (realcall); \
    int ret = (realcall); \
    int err = errno; \
    exists_end(&e, ret, err); \
    return ret;

int stat(const char *p, struct stat *st) { EXISTS_WRAPPER(AT_FDCWD, p, r_stat(p, st)) }
int lstat(const char *p, struct stat *st) { EXISTS_WRAPPER(AT_FDCWD, p, r_lstat(p, st)) }
int stat64(const char *p, struct stat64 *st) { EXISTS_WRAPPER(AT_FDCWD, p, r_stat(p, (struct stat *)st)) }
int lstat64(const char *p, struct stat64 *st) { EXISTS_WRAPPER(AT_FDCWD, p, r_lstat(p, (struct stat *)st)) }
int fstatat(int dirfd, const char *p, struct stat *st, int flags) { EXISTS_WRAPPER(dirfd, p, r_fstatat(dirfd, p, st, flags)) }
int fstatat64(int dirfd, const char *p, struct stat64 *st, int flags) { EXISTS_WRAPPER(dirfd, p, r_fstatat(dirfd, p, (struct stat *)st, flags)) }
int access(const char *p, int mode) { EXISTS_WRAPPER(AT_FDCWD, p, r_access(p, mode)) }
int faccessat(int dirfd, const char *p, int mode, int flags) { EXISTS_WRAPPER(dirfd, p, r_faccessat(dirfd, p, mode, flags)) }
int statx(int dirfd, const char *restrict p, int flags, unsigned mask, struct statx *restrict buf) {
    /* Rust std probes statx(0, NULL, 0, STATX_ALL, NULL) once and expects EFAULT: vp is read through a
     * volatile so the NULL test survives the nonnull attribute. */
    if (!r_statx) { ENSURE_INIT(); if (!r_statx) { errno = ENOSYS; return -1; } }
    EXISTS_WRAPPER(dirfd, p, r_statx(dirfd, p, flags, mask, buf))
}

/* kill(pid, 0) is the liveness probe of renamify's lock code (lock.rs::is_process_running): a
 * read-type schedulable point `kill0 - target=<pid>`; real signals are never touched. */
int kill(pid_t pid, int sig) {
    ENSURE_INIT();
    if (!r_kill) return (int)r_syscall(SYS_kill, (long)pid, (long)sig);
    if (sig != 0 || !READS_ON()) return r_kill(pid, sig);
    t_guard++;
    struct ev e;
    ev_init(&e, "kill0", 0);
    e.readtype = 1;
    strcpy(e.p1, "-");
    ev_detail(&e, " target=%d", (int)pid);
    ev_before(&e);
    int ret = r_kill(pid, sig);
    int err = errno;
    ev_after(&e, ret, err);
    t_guard--;
    errno = err;
    return ret;
}

/* flock(fd, LOCK_EX | LOCK_SH) on a descriptor of a watched path is a read-type schedulable point `flock <path>`
 * (renamify's lock code serialises its inspect-then-change sequences with it), flock(fd, LOCK_UN) is `funlock <path>`.
 * While the scheduler is in control a granted `flock` is ONE non-blocking attempt: if another process holds the
 * lock the attempt is logged as `=> EAGAIN` and the request is posted again, so the scheduler never waits for a
 * process that sleeps in the kernel; the caller still sees a blocking flock.  Without a scheduler (or once the
 * process was freed) the call blocks as usual. */
int flock(int fd, int op) {
    ENSURE_INIT();
    if (!r_flock) return (int)r_syscall(SYS_flock, (long)fd, (long)op);
    if (t_guard || !READS_ON() || fd_kind(fd) == FD_NONE) return r_flock(fd, op);
    int base = op & ~LOCK_NB;
    for (;;) {
        t_guard++;
        struct ev e;
        ev_init(&e, base == LOCK_UN ? "funlock" : "flock", 0);
        e.readtype = 1;
        strncpy(e.p1, g_fd[fd].path, PATH_MAX - 1);
        e.p1[PATH_MAX - 1] = 0;
        ev_detail(&e, " op=%s", base == LOCK_EX ? "LOCK_EX" : base == LOCK_SH ? "LOCK_SH" : "LOCK_UN");
        ev_before(&e);
        int scheduled = cfg.sched && !atomic_load(&g_sched_free);
        int ret = r_flock(fd, (scheduled && base != LOCK_UN) ? (op | LOCK_NB) : op);
        int err = errno;
        ev_after(&e, ret, err);
        t_guard--;
        if (ret != 0 && err == EWOULDBLOCK && scheduled && !(op & LOCK_NB)) continue;   /* post the request again */
        errno = err;
        return ret;
    }
}

/* ------------------------------------------------------------------------------------------------ */
/* fake wall clock                                                                                   */

static long long fake_now(void) {
    if (cfg.time_file[0]) {
        char buf[64];
        t_guard++;
        int fd = r_openat(AT_FDCWD, cfg.time_file, O_RDONLY | O_CLOEXEC, 0);
        long long v = -1;
        if (fd >= 0) {
            ssize_t n = r_read(fd, buf, sizeof buf - 1);
            r_close(fd);
            if (n > 0) {
                buf[n] = 0;
                v = atoll(buf);
            }
        }
        t_guard--;
        if (v >= 0) return v;
    }
    return cfg.fake_time;
}

int clock_gettime(clockid_t clk, struct timespec *ts_) {
    struct timespec *volatile ts = ts_;
    ENSURE_INIT();
    if (cfg.tm && ts && (clk == CLOCK_REALTIME || clk == CLOCK_REALTIME_COARSE)) {
        long long t = fake_now();
        if (t >= 0) {
            ts->tv_sec = (time_t)t;
            ts->tv_nsec = 0;
            return 0;
        }
    }
    if (r_clock_gettime) return r_clock_gettime(clk, ts);
    return (int)syscall(SYS_clock_gettime, clk, ts);
}

int gettimeofday(struct timeval *restrict tv_, void *restrict tz) {
    struct timeval *volatile tv = tv_;
    ENSURE_INIT();
    if (cfg.tm && tv) {
        long long t = fake_now();
        if (t >= 0) {
            tv->tv_sec = (time_t)t;
            tv->tv_usec = 0;
            return 0;
        }
    }
    return r_gettimeofday(tv, tz);
}

time_t time(time_t *out_) {
    time_t *volatile out = out_;
    ENSURE_INIT();
    if (cfg.tm) {
        long long t = fake_now();
        if (t >= 0) {
            if (out) *out = (time_t)t;
            return (time_t)t;
        }
    }
    return r_time(out);
}

/* ------------------------------------------------------------------------------------------------ */
/* variadic syscall(2): Rust std and some crates issue a few calls this way                          */

long syscall(long nr, ...) {
    va_list ap;
    va_start(ap, nr);
    long a1 = va_arg(ap, long), a2 = va_arg(ap, long), a3 = va_arg(ap, long), a4 = va_arg(ap, long),
         a5 = va_arg(ap, long), a6 = va_arg(ap, long);
    va_end(ap);
    ENSURE_INIT();
    if (!r_syscall) { errno = ENOSYS; return -1; }
    if (t_guard == 0 && cfg.fs && cfg.log_syscalls && nr >= 0 && nr < 512) {
        unsigned char bit = (unsigned char)(1u << (nr & 7));
        if (!(atomic_fetch_or(&g_seen_sys[nr >> 3], bit) & bit)) {
            char d[32];
            snprintf(d, sizeof d, "nr=%ld", nr);
            t_guard++;
            log_note("rawsyscall", d);
            t_guard--;
        }
    }
    if (t_guard == 0 && (cfg.fs || cfg.tm)) {
        switch (nr) {
        case SYS_open: return open((const char *)a1, (int)a2, (mode_t)a3);
        case SYS_openat: return openat((int)a1, (const char *)a2, (int)a3, (mode_t)a4);
        case SYS_creat: return creat((const char *)a1, (mode_t)a2);
        case SYS_close: return close((int)a1);
        case SYS_write: return write((int)a1, (const void *)a2, (size_t)a3);
        case SYS_pwrite64: return pwrite64((int)a1, (const void *)a2, (size_t)a3, (off64_t)a4);
        case SYS_writev: return writev((int)a1, (const struct iovec *)a2, (int)a3);
        case SYS_read: return read((int)a1, (void *)a2, (size_t)a3);
        case SYS_copy_file_range: return copy_file_range((int)a1, (off64_t *)a2, (int)a3, (off64_t *)a4, (size_t)a5, (unsigned)a6);
        case SYS_sendfile: return sendfile64((int)a1, (int)a2, (off64_t *)a3, (size_t)a4);
        case SYS_rename: return rename((const char *)a1, (const char *)a2);
        case SYS_renameat: return renameat((int)a1, (const char *)a2, (int)a3, (const char *)a4);
        case SYS_renameat2: return renameat2((int)a1, (const char *)a2, (int)a3, (const char *)a4, (unsigned)a5);
        case SYS_unlink: return unlink((const char *)a1);
        case SYS_unlinkat: return unlinkat((int)a1, (const char *)a2, (int)a3);
        case SYS_rmdir: return rmdir((const char *)a1);
        case SYS_mkdir: return mkdir((const char *)a1, (mode_t)a2);
        case SYS_mkdirat: return mkdirat((int)a1, (const char *)a2, (mode_t)a3);
        case SYS_chmod: return chmod((const char *)a1, (mode_t)a2);
        case SYS_fchmod: return fchmod((int)a1, (mode_t)a2);
        case SYS_fchmodat: return fchmodat((int)a1, (const char *)a2, (mode_t)a3, 0);
        case SYS_symlink: return symlink((const char *)a1, (const char *)a2);
        case SYS_symlinkat: return symlinkat((const char *)a1, (int)a2, (const char *)a3);
        case SYS_link: return link((const char *)a1, (const char *)a2);
        case SYS_linkat: return linkat((int)a1, (const char *)a2, (int)a3, (const char *)a4, (int)a5);
        case SYS_truncate: return truncate64((const char *)a1, (off64_t)a2);
        case SYS_ftruncate: return ftruncate64((int)a1, (off64_t)a2);
        case SYS_fsync: return fsync((int)a1);
        case SYS_fdatasync: return fdatasync((int)a1);
        case SYS_clock_gettime: return clock_gettime((clockid_t)a1, (struct timespec *)a2);
        case SYS_gettimeofday: return gettimeofday((struct timeval *)a1, (void *)a2);
        case SYS_time: return time((time_t *)a1);
        case SYS_kill: return kill((pid_t)a1, (int)a2);
        case SYS_statx: return statx((int)a1, (const char *)a2, (int)a3, (unsigned)a4, (struct statx *)a5);
        /* the remaining stat-like raw syscalls: an `exists` event around the untouched raw call */
        case SYS_stat: case SYS_lstat: case SYS_access: {
            EXISTS_WRAPPER(AT_FDCWD, (const char *)a1, (int)r_syscall(nr, a1, a2, a3, a4, a5, a6))
        }
        case SYS_newfstatat: case SYS_faccessat:
#ifdef SYS_faccessat2
        case SYS_faccessat2:
#endif
        {
            EXISTS_WRAPPER((int)a1, (const char *)a2, (int)r_syscall(nr, a1, a2, a3, a4, a5, a6))
        }
        default: break;
        }
    }
    return r_syscall(nr, a1, a2, a3, a4, a5, a6);
}
