"""Gen/LineTables.lean: the data tables of the one-line pipeline (C06, C07):
   * `Style::constraints` of case_constraints.rs  (style -> case pattern, separator),  ALL_SEPARATORS
   * DEFAULT_PRECEDENCE of ambiguity/resolver.rs
   * the three further "default style" lists of scanner.rs (variant map: 7, compound pass: 6, plan header: 5)
   * the meta characters `regex::escape` puts a backslash in front of (regex-syntax `is_meta_character`), taken from the
     vendored crate source when it can be found, otherwise the documented list (recorded in the file).
A table that can no longer be parsed raises (broken tie)."""
import glob, os, re
from checks import common
from translate.acronyms import STYLE_LEAN, style_list

CASE_LEAN = {"AllUppercase": "allUppercase", "AllLowercase": "allLowercase", "TitlePattern": "titlePattern",
             "CamelPattern": "camelPattern", "PascalPattern": "pascalPattern", "TitleWordsPattern": "titleWordsPattern"}
DOC_META = "\\.+*?()|[]{}^$#&-~"


def lst(names):
    return "[" + ", ".join("." + STYLE_LEAN[n] for n in names) + "]"


def char_code(lit):
    """Rust char literal body -> byte"""
    if lit.startswith("\\"):
        m = {"\\\\": "\\", "\\'": "'", "\\n": "\n", "\\t": "\t"}
        if lit not in m:
            raise RuntimeError(f"translate/linetables: char literal {lit!r}")
        lit = m[lit]
    if len(lit.encode()) != 1:
        raise RuntimeError(f"translate/linetables: non-ASCII char literal {lit!r}")
    return lit.encode()[0]


def regex_meta():
    """the set of bytes regex::escape escapes"""
    pats = glob.glob(os.path.expanduser("~/.cargo/registry/src/*/regex-syntax-*/src/lib.rs"))
    lock = ""
    for cand in (os.path.join(common.REPO, "Cargo.lock"), os.path.join(common.HARNESS, "Cargo.lock"), "/repo/Cargo.lock"):
        if os.path.exists(cand):        # Cargo.lock is untracked: a fresh worktree of the repository has none
            lock = open(cand).read()
            break
    m = re.search(r'name = "regex-syntax"\nversion = "([^"]+)"', lock)
    want = m.group(1) if m else None
    for p in sorted(pats):
        if want and f"regex-syntax-{want}/" not in p:
            continue
        src = open(p).read()
        mm = re.search(r"pub fn is_meta_character\(c: char\) -> bool \{\s*match c \{(.*?)=> true", src, re.S)
        if mm:
            chars = re.findall(r"'((?:\\.|[^'\\]))'", mm.group(1))
            return sorted(set(char_code(c) for c in chars)), f"regex-syntax {want} is_meta_character"
    return sorted(set(DOC_META.encode())), "documented list (crate source not found)"


def run():
    repo = common.REPO
    cc = open(os.path.join(repo, "renamify-core/src/case_constraints.rs")).read()
    m = re.search(r"pub const fn constraints\(self\) -> StyleConstraints \{\s*match self \{(.*?)\n        \}\n    \}", cc, re.S)
    if not m:
        raise RuntimeError("translate/linetables: Style::constraints not found")
    body = re.sub(r"//[^\n]*", "", m.group(1))
    table = {}
    for arm in re.finditer(r"((?:Self::\w+\s*\|?\s*)+)=>\s*StyleConstraints\s*\{\s*case:\s*CaseConstraint::(\w+),\s*"
                           r"separator:\s*(None|Some\('((?:\\.|[^'\\]))'\)),?\s*\}", body):
        styles = re.findall(r"Self::(\w+)", arm.group(1))
        case = arm.group(2)
        if case not in CASE_LEAN:
            raise RuntimeError(f"translate/linetables: unknown CaseConstraint {case}")
        sep = None if arm.group(3) == "None" else char_code(arm.group(4))
        for s in styles:
            if s not in STYLE_LEAN or s in table:
                raise RuntimeError(f"translate/linetables: bad/duplicate style {s} in constraints()")
            table[s] = (case, sep)
    if sorted(table) != sorted(STYLE_LEAN):
        raise RuntimeError(f"translate/linetables: constraints() covers {sorted(table)}")
    m = re.search(r"const ALL_SEPARATORS: &\[char\] = &\[(.*?)\];", cc)
    if not m:
        raise RuntimeError("translate/linetables: ALL_SEPARATORS not found")
    seps = [char_code(c) for c in re.findall(r"'((?:\\.|[^'\\]))'", m.group(1))]

    rs = open(os.path.join(repo, "renamify-core/src/ambiguity/resolver.rs")).read()
    prec = style_list(rs, "const DEFAULT_PRECEDENCE", "DEFAULT_PRECEDENCE")
    sc = open(os.path.join(repo, "renamify-core/src/scanner.rs")).read()
    i = sc.find("fn generate_variant_map_with_acronyms")
    if i < 0:
        raise RuntimeError("translate/linetables: generate_variant_map_with_acronyms not found")
    vm7 = style_list(sc[i:], "let default_styles = [", "scanner variant-map default list")
    cp6 = style_list(sc, "let default_styles = vec![", "scanner compound default list")
    hd5 = style_list(sc, "styles: options.styles.clone().unwrap_or_else", "plan header default list")
    # which list build_styles_list starts from (both copies)
    for f in ("operations/plan.rs", "operations/rename.rs"):
        src = open(os.path.join(repo, "renamify-core/src", f)).read()
        j = src.find("fn build_styles_list")
        if j < 0 or "Style::default_styles()" not in src[j:j + 900]:
            raise RuntimeError(f"translate/linetables: build_styles_list of {f} no longer starts from Style::default_styles()")
    meta, meta_src = regex_meta()
    # two behavioural switches that proposed repairs flip (the model follows the source):
    #  * does an all-excluded style selection reach the scanner as an empty list (`Some(vec![])`) instead of `None`?
    flags = []
    for f in ("operations/plan.rs", "operations/rename.rs"):
        src = open(os.path.join(repo, "renamify-core/src", f)).read()
        m2 = re.search(r"let styles\s*=(.*?);", src, re.S)
        if not m2 or "build_styles_list(" not in m2.group(1):
            raise RuntimeError(f"translate/linetables: call site of build_styles_list not found in {f}")
        flags.append(".unwrap_or_default()" in m2.group(1) or "unwrap_or_else(Vec::new)" in m2.group(1))
    if flags[0] != flags[1]:
        raise RuntimeError("translate/linetables: plan.rs and rename.rs treat an all-excluded style selection differently")
    exclude_all_empty = flags[0]
    #  * does `skip_exact_match` also require the typed search term to tokenize to a single word?
    cs = open(os.path.join(repo, "renamify-core/src/compound_scanner.rs")).read()
    m3 = re.search(r"let is_single_word_search\s*=(.*?);", cs, re.S)
    if not m3 or "let skip_exact_match = is_single_word_search && is_single_style_search;" not in cs:
        raise RuntimeError("translate/linetables: skip_exact_match of find_enhanced_matches not found")
    skip_uses_tokens = "parse_to_tokens(search)" in m3.group(1)
    #  * where does generate_hunks take the coercion context of a match: at the match's own column, or at the FIRST place
    #    its text occurs in the line (`line_string.find(&content)`)?
    sc = re.sub(r"//[^\n]*", "", open(os.path.join(repo, "renamify-core/src/scanner.rs")).read())
    i0 = sc.find("options.coerce_separators == CoercionMode::Auto")
    i1 = sc.find("extract_immediate_context(&line_string", i0)
    if i0 < 0 or i1 < 0:
        raise RuntimeError("translate/linetables: the coercion block of generate_hunks not found")
    seg = sc[i0:i1]
    if "line_string.find(&content)" not in seg:
        raise RuntimeError("translate/linetables: generate_hunks no longer locates the match text in the decoded line")
    at_column = bool(re.search(r"\.get\(\s*\.\.\s*m\.column\s*\)", seg)) and "starts_with(&content)" in seg and ".or_else(" in seg
    if ("m.column" in seg) != at_column:
        raise RuntimeError("translate/linetables: generate_hunks locates the coercion context in a way the model has no variant for")

    def arm(s):
        case, sep = table[s]
        return f"  | .{STYLE_LEAN[s]} => (.{CASE_LEAN[case]}, {'none' if sep is None else 'some ' + str(sep)})"
    out = ["import RModel.Model.CaseModel", "import RModel.Model.CaseConstraint",
           "/- GENERATED by translate/linetables.py from case_constraints.rs, ambiguity/resolver.rs, scanner.rs — do not edit -/",
           "namespace Gen", "open CaseModel", "",
           "/-- `Style::constraints`: (case pattern, separator byte) -/",
           "def styleConstraints : Style → CaseConstraint × Option UInt8"]
    out += [arm(s) for s in STYLE_LEAN]
    out += ["",
            f"def allSeparators : List UInt8 := [{', '.join(str(b) for b in seps)}]",
            f"def defaultPrecedence : List Style := {lst(prec)}",
            f"def scannerVariantDefaultStyles : List Style := {lst(vm7)}",
            f"def scannerCompoundDefaultStyles : List Style := {lst(cp6)}",
            f"def planHeaderDefaultStyles : List Style := {lst(hd5)}",
            f"/-- bytes `regex::escape` escapes ({meta_src}) -/",
            f"def regexMeta : List UInt8 := [{', '.join(str(b) for b in meta)}]",
            "/-- operations/{plan,rename}.rs hand the scanner `Some(vec![])` (not `None`) when every style is excluded -/",
            f"def excludeAllYieldsEmpty : Bool := {'true' if exclude_all_empty else 'false'}",
            "/-- compound_scanner.rs: the `single word search` test also requires the typed term to tokenize to one word -/",
            f"def skipExactUsesTokens : Bool := {'true' if skip_uses_tokens else 'false'}",
            "/-- scanner.rs::generate_hunks takes the coercion context of an exact match at the match's own column (falling back to",
            "    the first place its text occurs in the line only if the text is not there) -/",
            f"def coercionContextAtColumn : Bool := {'true' if at_column else 'false'}",
            "", "end Gen", ""]
    path = os.path.join(common.LEAN, "RModel/Gen/LineTables.lean")
    return [("Gen/LineTables.lean", common.write_if_changed(path, "\n".join(out)))]
