"""Gen/Bindings.lean: the published TypeScript types and what the wrappers expect the stdout document to be.

Extracted (syntactically):
  * every `declare type X = …;` of the ts-rs declarations REGENERATED from the current Rust source on every run:
    renamify-core/bindings/ is a git-ignored artifact of the test suite (absent in a fresh worktree, stale after a change to
    a `#[derive(TS)]` type), so it is never read.  `regenerate()` runs the ts-rs export tests with TS_RS_EXPORT_DIR pointing
    into <verif>/.cache/c19_bindings/ (`cargo test -p renamify-core --lib export_bindings_`, cwd harness/, the harness's
    target dir, under the cargo build lock) and does the conversion of renamify-core/convert-ts-bindings-to-ambient.js here
    (drop `import type` lines, `export type` -> `declare type`; no formatter).  A failure raises: no fallback.
  * the type aliases of renamify-vscode/extension/src/{cliService,types}.ts and renamify-mcp/src/renamify-service.ts that the
    result types mention (VersionInfo, Status, SearchResult),
  * per wrapper method that passes `'--output', 'json'`: the CLI command (first argv literal), the declared return type
    `Promise<T | null>` and how the method turns stdout into that value:
       `JSON.parse(x) as T` / `return JSON.parse(x)`      -> the whole document is a T
       `const parsed = JSON.parse(x) … return parsed.f`   -> the document is `{ f: T }` (f required: the method throws on a falsy f)
       `parsed.a || parsed.b?.c` (rename)                  -> the first alternative is taken as the required member (ASSUMED)
       no value built from stdout (apply/undo/redo)        -> `any`
Type language: string | number | boolean | null | any | "literal" | Array<T> | T[] | [T, U] | Record<string, V> | { a: T, b?: U } | A | B | Name.
Anything else makes the translator raise.
"""
import os, re
from checks import common

VSCODE = "renamify-vscode/extension/src"
MCP = "renamify-mcp/src/renamify-service.ts"
COMMANDS = ["plan", "search", "rename", "replace", "apply", "undo", "redo", "history", "status", "version"]


class TsError(RuntimeError):
    pass


def strip_ts_comments(s):
    s = re.sub(r"/\*.*?\*/", "", s, flags=re.S)
    out, i, n = [], 0, len(s)
    while i < n:                      # drop // comments outside string literals
        c = s[i]
        if c in "'\"`":
            j = i + 1
            while j < n and s[j] != c:
                j += 2 if s[j] == "\\" else 1
            out.append(s[i:j + 1]); i = j + 1
        elif s.startswith("//", i):
            j = s.find("\n", i)
            i = n if j < 0 else j
        else:
            out.append(c); i += 1
    return "".join(out)


class P:
    """recursive-descent parser of the TS type fragment; produces tuples:
       ('str',) ('num',) ('bool',) ('null',) ('any',) ('lit', s) ('arr', t) ('tuple', [t]) ('record', v)
       ('obj', [(name, optional, t)]) ('union', [t]) ('ref', name)"""

    def __init__(self, text):
        self.t = text
        self.i = 0

    def ws(self):
        while self.i < len(self.t) and self.t[self.i] in " \t\r\n":
            self.i += 1

    def peek(self, s):
        self.ws()
        return self.t.startswith(s, self.i)

    def eat(self, s):
        self.ws()
        if not self.t.startswith(s, self.i):
            raise TsError(f"expected {s!r} at …{self.t[self.i:self.i + 40]!r}")
        self.i += len(s)

    def ident(self):
        self.ws()
        m = re.match(r"[A-Za-z_$][\w$]*", self.t[self.i:])
        if not m:
            raise TsError(f"identifier expected at …{self.t[self.i:self.i + 40]!r}")
        self.i += m.end()
        return m.group(0)

    def string(self):
        self.ws()
        q = self.t[self.i]
        j = self.t.index(q, self.i + 1)
        s = self.t[self.i + 1:j]
        self.i = j + 1
        return s

    def type(self):
        self.ws()
        if self.peek("|"):
            self.eat("|")
        alts = [self.postfix()]
        while self.peek("|"):
            self.eat("|")
            alts.append(self.postfix())
        if self.peek("&"):
            raise TsError("intersection types are not supported")
        return alts[0] if len(alts) == 1 else ("union", alts)

    def postfix(self):
        t = self.primary()
        while self.peek("["):
            save = self.i
            self.eat("[")
            if self.peek("]"):
                self.eat("]")
                t = ("arr", t)
            else:
                self.i = save
                break
        return t

    def primary(self):
        self.ws()
        c = self.t[self.i:self.i + 1]
        if c in "'\"":
            return ("lit", self.string())
        if c == "{":
            return self.obj()
        if c == "[":
            self.eat("[")
            items = []
            while not self.peek("]"):
                items.append(self.type())
                if self.peek(","):
                    self.eat(",")
            self.eat("]")
            return ("tuple", items)
        if c == "(":
            self.eat("(")
            t = self.type()
            self.eat(")")
            return t
        name = self.ident()
        if name == "string":
            return ("str",)
        if name == "number":
            return ("num",)
        if name == "boolean":
            return ("bool",)
        if name in ("null",):
            return ("null",)
        if name in ("undefined", "void"):
            return ("undef",)
        if name in ("any", "unknown"):
            return ("any",)
        if name == "Array":
            self.eat("<"); t = self.type(); self.eat(">")
            return ("arr", t)
        if name == "Record":
            self.eat("<"); k = self.type(); self.eat(","); v = self.type(); self.eat(">")
            if k != ("str",):
                raise TsError("Record key type other than string")
            return ("record", v)
        if name == "Promise":
            self.eat("<"); t = self.type(); self.eat(">")
            return ("promise", t)
        if self.peek("<"):
            raise TsError(f"generic type {name}<…> is not supported")
        return ("ref", name)

    def obj(self):
        self.eat("{")
        fields = []
        while not self.peek("}"):
            self.ws()
            if self.t[self.i] in "'\"":
                name = self.string()
            else:
                name = self.ident()
            opt = False
            if self.peek("?"):
                self.eat("?"); opt = True
            self.eat(":")
            fields.append((name, opt, self.type()))
            if self.peek(",") or self.peek(";"):
                self.i += 1
        self.eat("}")
        return ("obj", fields)


def parse_aliases(text, require=False):
    """all `[declare|export] type X = T;` of a file"""
    text = strip_ts_comments(text)
    res = {}
    for m in re.finditer(r"(?:^|\n)\s*(?:export\s+|declare\s+)?type\s+(\w+)\s*=", text):
        p = P(text)
        p.i = m.end()
        try:
            res[m.group(1)] = p.type()
        except TsError:
            if require:
                raise
            res[m.group(1)] = None           # an alias we cannot express (only an error if something refers to it)
    return res


def drop_null(t):
    if t[0] == "promise":
        t = t[1]
    if t[0] == "union":
        alts = [a for a in t[1] if a[0] not in ("null", "undef")]
        if not alts:
            return ("any",)
        return alts[0] if len(alts) == 1 else ("union", alts)
    if t[0] in ("undef",):
        return ("any",)
    return t


def methods_of(text):
    """[(name, return type text, body)] of the class methods of a TS service file"""
    text = strip_ts_comments(text)
    res = []
    for m in re.finditer(r"\n\s*(?:public\s+|private\s+)?(?:async\s+)?(\w+)\s*\(", text):
        name = m.group(1)
        if name in ("if", "for", "while", "switch", "catch", "function", "constructor", "return"):
            continue
        # parameter list
        depth, k = 0, m.end() - 1
        while k < len(text):
            if text[k] == "(":
                depth += 1
            elif text[k] == ")":
                depth -= 1
                if depth == 0:
                    break
            k += 1
        rest = text[k + 1:]
        mm = re.match(r"\s*:\s*", rest)
        if not mm:
            continue
        # return type up to the `{` that opens the body (balanced <> and {} inside the type)
        j = k + 1 + mm.end()
        start = j
        ang = br = 0
        while j < len(text):
            c = text[j]
            if c == "<":
                ang += 1
            elif c == ">":
                ang -= 1
            elif c == "{":
                if ang == 0 and br == 0 and text[start:j].strip():
                    break
                br += 1
            elif c == "}":
                br -= 1
            elif c in ";=" and ang == 0 and br == 0:
                break
            j += 1
        if j >= len(text) or text[j] != "{":
            continue
        ret = text[start:j].strip()
        depth, e = 0, j
        while e < len(text):
            if text[e] == "{":
                depth += 1
            elif text[e] == "}":
                depth -= 1
                if depth == 0:
                    break
            e += 1
        res.append((name, ret, text[j + 1:e]))
    return res


def wrapper_expectations(text, where):
    """-> [(command, 'where.method', expected type of the whole stdout document, how)]"""
    out = []
    for name, ret, body in methods_of(text):
        m = re.search(r"\[\s*'(\w+)'\s*,(?:[^\]]*?,)?\s*'--output'\s*,\s*'json'", body)
        if not m:
            continue
        cmd = m.group(1)
        try:
            rt = drop_null(P(ret).type())
        except TsError as ex:
            raise TsError(f"{where}.{name}: return type {ret!r}: {ex}")
        cast = re.search(r"JSON\.parse\(\s*[\w.]+\s*\)\s+as\s+(\w+)", body)
        if cast:
            out.append((cmd, f"{where}.{name}", ("ref", cast.group(1)), "JSON.parse(stdout) as T"))
            continue
        if re.search(r"return\s+JSON\.parse\(\s*[\w.]+\s*\)\s*;", body):
            out.append((cmd, f"{where}.{name}", rt, "return JSON.parse(stdout)"))
            continue
        pv = re.search(r"const\s+(\w+)\s*=\s*JSON\.parse\(", body)
        if pv:
            v = pv.group(1)
            proj = re.search(r"return\s+" + v + r"\.(\w+)\s*;", body)
            if proj:
                f = proj.group(1)
                if not re.search(r"if\s*\(\s*!\s*" + v + r"\." + f + r"\s*\)", body):
                    raise TsError(f"{where}.{name}: projection {v}.{f} without the falsy check the model assumes")
                out.append((cmd, f"{where}.{name}", ("obj", [(f, False, rt)]), f"return JSON.parse(stdout).{f}"))
                continue
            alt = re.search(r"=\s*" + v + r"\.(\w+)\s*\|\|\s*" + v + r"\.(\w+)\?\.(\w+)\s*;", body)
            if alt:
                out.append((cmd, f"{where}.{name}", ("obj", [(alt.group(1), False, ("str",))]),
                            f"{v}.{alt.group(1)} || {v}.{alt.group(2)}?.{alt.group(3)} (first alternative assumed required)"))
                continue
            raise TsError(f"{where}.{name}: cannot tell how the parsed document is used")
        out.append((cmd, f"{where}.{name}", ("any",), "stdout only tested for emptiness"))
    return out


_REGENERATED = {}


def regenerate(repo):
    """ts-rs declarations of the CURRENT source of `repo`, as ambient .d.ts files in a scratch directory -> that directory"""
    import hashlib
    import shutil
    import subprocess
    repo = os.path.realpath(repo)
    if repo in _REGENERATED:
        return _REGENERATED[repo]
    out = os.path.join(common.CACHE, "c19_bindings", hashlib.sha1(repo.encode()).hexdigest()[:12])
    with common.build_lock("cargo"):
        shutil.rmtree(out, ignore_errors=True)
        os.makedirs(out)
        lock = os.path.join(common.HARNESS, "Cargo.lock")
        if not os.path.exists(lock):
            shutil.copy(os.path.join(repo, "Cargo.lock"), lock)
        env = dict(common.BASE_ENV)
        env["TS_RS_EXPORT_DIR"] = out
        cmd = ["cargo", "test", "--offline", "--manifest-path", os.path.join(repo, "Cargo.toml"), "-p", "renamify-core", "--lib",
               "export_bindings_"]
        p = subprocess.run(cmd, cwd=common.HARNESS, env=env, stdout=subprocess.PIPE, stderr=subprocess.STDOUT, timeout=3600)
        log = p.stdout.decode("utf-8", "replace")
        if p.returncode != 0:
            raise TsError("regenerating the ts-rs declarations failed (cargo test … export_bindings_):\n" + log[-1500:])
        m = re.search(r"test result: ok\. (\d+) passed", log)
        if not m or int(m.group(1)) == 0:
            raise TsError("no ts-rs export test ran (`export_bindings_*`): the declarations cannot be regenerated\n" + log[-600:])
        n = 0
        for dp, dn, fns in os.walk(out):
            for fn in sorted(fns):
                if fn.endswith(".ts") and not fn.endswith(".d.ts"):
                    src = os.path.join(dp, fn)
                    text = open(src).read()
                    lines = [re.sub(r"^export type", "declare type", l) for l in text.split("\n") if not l.startswith("import type")]
                    with open(os.path.join(out, fn[:-3] + ".d.ts"), "w") as fh:
                        fh.write("\n".join(lines))
                    os.unlink(src)
                    n += 1
        if n != int(m.group(1)):
            raise TsError(f"{m.group(1)} export tests ran but {n} declaration files were written to {out}")
    _REGENERATED[repo] = out
    return out


def load(repo=None):
    """-> (decls: {name: type}, expectations: [(cmd, label, type, how)], mcp_json_cmds)"""
    repo = repo or common.REPO
    decls = {}
    bdir = regenerate(repo)
    files = sorted(f for f in os.listdir(bdir) if f.endswith(".d.ts"))
    if not files:
        raise TsError("no bindings found")
    for f in files:
        got = parse_aliases(open(os.path.join(bdir, f)).read(), require=True)
        if not got:
            raise TsError(f"{f}: no type alias found")
        decls.update(got)
    vs_cli = open(os.path.join(repo, VSCODE, "cliService.ts")).read()
    vs_types = open(os.path.join(repo, VSCODE, "types.ts")).read()
    mcp = open(os.path.join(repo, MCP)).read()
    local = {}
    local.update(parse_aliases(vs_types))
    local.update(parse_aliases(vs_cli))
    mcp_alias = parse_aliases(mcp)
    exps = wrapper_expectations(vs_cli, "vscode") + wrapper_expectations(mcp, "mcp")
    if not exps:
        raise TsError("no wrapper method passes --output json")
    # pull in the aliases the expectations refer to (transitively)
    todo = []

    def refs(t, acc):
        if t is None:
            return
        if t[0] == "ref":
            acc.append(t[1])
        elif t[0] in ("arr", "record", "promise"):
            refs(t[1], acc)
        elif t[0] in ("tuple", "union"):
            for x in t[1]:
                refs(x, acc)
        elif t[0] == "obj":
            for _, _, x in t[1]:
                refs(x, acc)
    for _, label, t, _ in exps:
        refs(t, todo)
    for t in list(decls.values()):
        refs(t, todo)
    seen = set()
    while todo:
        n = todo.pop()
        if n in seen:
            continue
        seen.add(n)
        if n not in decls:
            src = local if n in local else mcp_alias
            if n not in src or src[n] is None:
                raise TsError(f"type {n} is referenced by a wrapper but not declared in the bindings or the wrapper sources")
            if n in local and n in mcp_alias and mcp_alias[n] is not None and local[n] != mcp_alias[n]:
                raise TsError(f"type {n} is declared differently by the two wrappers")
            decls[n] = src[n]
        refs(decls[n], todo)
    return decls, exps


# ---- Lean rendering ---------------------------------------------------------------------------------

def nm(s):
    if not re.fullmatch(r"[\x20-\x7e]*", s) or '"' in s or "\\" in s:
        raise TsError(f"name {s!r} cannot be rendered")
    return f'n!"{s}"'


def lean_ts(t):
    k = t[0]
    if k in ("str", "num", "bool", "null", "any"):
        return "." + k
    if k == "undef":
        return ".null"   # never produced by JSON; only appears inside unions we already dropped
    if k == "lit":
        return f"(.lit {nm(t[1])})"
    if k == "arr":
        return f"(.arr {lean_ts(t[1])})"
    if k == "record":
        return f"(.record {lean_ts(t[1])})"
    if k == "tuple":
        return "(.tuple [" + ", ".join(lean_ts(x) for x in t[1]) + "])"
    if k == "union":
        return "(.union [" + ", ".join(lean_ts(x) for x in t[1]) + "])"
    if k == "obj":
        return "(.obj [" + ", ".join(f"({nm(n)}, {'true' if o else 'false'}, {lean_ts(x)})" for n, o, x in t[1]) + "])"
    if k == "ref":
        return f"(.ref {nm(t[1])})"
    raise TsError(f"cannot render {t!r}")


def run():
    decls, exps = load()
    out = ["import RModel.Model.OutputTypes",
           "/- GENERATED by translate/bindings.py from the ts-rs declarations regenerated from renamify-core/src (TS_RS_EXPORT_DIR), renamify-vscode/extension/src/{cliService,types}.ts",
           "   and renamify-mcp/src/renamify-service.ts — do not edit -/",
           "namespace Gen", "open Output", "",
           "/-- published type declarations (ts-rs bindings + the wrapper-local aliases the result types mention) -/",
           "def tsDecls : List (Name × TsType) := ["]
    names = sorted(decls)
    out += [f"  ({nm(n)}, {lean_ts(decls[n])})" + ("," if i + 1 < len(names) else "") for i, n in enumerate(names)]
    out += ["]", "",
            "/-- (command, wrapper method, type the wrapper expects the whole stdout document to have) -/",
            "def wrapperExpect : List (Cmd × Name × TsType) := ["]
    for c, l, _, _ in exps:
        if c not in COMMANDS:
            raise TsError(f"{l} passes --output json to the command {c!r}, which the model does not know")
    out += [f"  (.{c}, {nm(l)}, {lean_ts(t)})" + ("," if i + 1 < len(exps) else "") + f"  -- {how}"
            for i, (c, l, t, how) in enumerate(exps)]
    # what the VS Code wrapper does with `history` / `status` (the two consumer-side shapes that were wrong at the snapshot)
    hist = [t for c, l, t, _ in exps if c == "history" and l.startswith("vscode.")]
    unwraps = bool(hist) and all(t[0] == "obj" and [n for n, _, _ in t[1]] == ["entries"] for t in hist)
    stat = decls.get("Status")
    declares = bool(stat) and stat[0] == "obj" and "pending_plan" in [n for n, _, _ in stat[1]]
    out += ["]", "",
            "/-- cliService.history returns `JSON.parse(stdout).entries` (not the whole document) -/",
            f"def vscodeHistoryUnwrapsEntries : Bool := {'true' if unwraps else 'false'}",
            "/-- the wrapper's `Status` type declares the `pending_plan` member of StatusResult (not `current_plan?: Plan`) -/",
            f"def vscodeStatusDeclaresPendingPlan : Bool := {'true' if declares else 'false'}",
            "", "end Gen", ""]
    return [("Gen/Bindings.lean", common.write_if_changed(os.path.join(common.LEAN, "RModel/Gen/Bindings.lean"), "\n".join(out)))]
