"""Gen/ResolverShape.lean: the facts about the ambiguity resolver's context levels that the model (Model/Resolver.lean) takes
from the source instead of repeating them:
   * every `AmbiguityContext { … }` built outside the resolver's own tests has `project_root: None`
     (scanner.rs::generate_hunks, rename.rs) -> `projectRootAlwaysNone`; with it the cross-file level can never answer
   * `resolve_with_styles` asks language heuristics, file context, cross-file context in this order -> `levelOrder`
   * `FileContextAnalyzer::default()`: min_identifiers_threshold, medium_confidence_ratio (as a fraction)
   * the extension table of `LanguageHeuristics::suggest_style` (extension -> language module)
A source that can no longer be parsed raises (broken tie)."""
import os, re
from fractions import Fraction
from checks import common

MODULES = ["ruby", "python", "javascript", "go", "rust", "java", "c_cpp", "css", "html", "shell", "yaml", "config"]


def blit(s):
    return "[" + ", ".join(str(b) for b in s.encode()) + "]"


def struct_literals(src, name):
    """bodies of `name { … }` literals (brace matched), skipping `struct name {` declarations"""
    out = []
    for m in re.finditer(r"(?<![\w])" + name + r"\s*\{", src):
        head = src[max(0, m.start() - 12):m.start()]
        if re.search(r"struct\s+$", head):
            continue
        depth, i = 0, m.end() - 1
        while i < len(src):
            if src[i] == "{":
                depth += 1
            elif src[i] == "}":
                depth -= 1
                if depth == 0:
                    break
            i += 1
        out.append(src[m.end():i])
    return out


def run():
    core = os.path.join(common.REPO, "renamify-core/src")
    # ---- project_root ------------------------------------------------------------------------------------------------
    sites, all_none, shapes = [], True, []
    for root, _, files in os.walk(core):
        for f in sorted(files):
            if not f.endswith(".rs"):
                continue
            p = os.path.join(root, f)
            src = open(p).read()
            if p.endswith("ambiguity/resolver.rs"):
                src = src.split("#[cfg(test)]")[0]          # the resolver's unit tests build contexts of their own
            src = re.sub(r"//[^\n]*", "", src)
            for body in struct_literals(src, "AmbiguityContext"):
                m = re.search(r"project_root\s*:\s*([^,}]+)", body)
                rel = os.path.relpath(p, core)
                if m:
                    val = m.group(1).strip()
                elif re.search(r"\.\.\s*Default::default\(\)|\.\.\s*AmbiguityContext::default\(\)", body):
                    val = "None"                              # #[derive(Default)]: Option fields default to None
                else:
                    raise RuntimeError(f"translate/resolvershape: AmbiguityContext literal without project_root in {rel}")
                sites.append((rel, val))
                all_none = all_none and val == "None"
                shape = []
                for field in ("file_path", "file_content", "line_content", "match_position", "project_root"):
                    fm = re.search(field + r"\s*:\s*(None|Some\()", body)
                    if not fm:
                        if re.search(r"\.\.\s*(Default|AmbiguityContext)::default\(\)", body):
                            shape.append(False)
                            continue
                        raise RuntimeError(f"translate/resolvershape: field {field} of the AmbiguityContext in {rel} is neither None nor Some(..)")
                    shape.append(fm.group(1) != "None")
                shapes.append((rel, shape))
    if not any(rel == "scanner.rs" for rel, _ in sites):
        raise RuntimeError("translate/resolvershape: scanner.rs builds no AmbiguityContext")
    # ---- level order -------------------------------------------------------------------------------------------------
    rs = open(os.path.join(core, "ambiguity/resolver.rs")).read()
    m = re.search(r"pub fn resolve_with_styles\(.*?\n    \}\n", rs, re.S)
    if not m:
        raise RuntimeError("translate/resolvershape: resolve_with_styles not found")
    calls = re.findall(r"(try_language_heuristics|try_file_context|try_cross_file_context|try_replacement_preference)\(", m.group(0))
    order = [{"try_language_heuristics": "language", "try_file_context": "file", "try_cross_file_context": "cross",
              "try_replacement_preference": "fallback"}[c] for c in calls]
    if sorted(order) != ["cross", "fallback", "file", "language"]:
        raise RuntimeError(f"translate/resolvershape: resolve_with_styles calls {calls}")
    cross = re.search(r"fn try_cross_file_context\(.*?\) -> Option<ResolvedStyle> \{\s*(.*?);", rs, re.S)
    if not cross:
        raise RuntimeError("translate/resolvershape: try_cross_file_context not found")
    first_stmt_is_root = bool(re.fullmatch(r"let project_root = context\.project_root\.as_ref\(\)\?", cross.group(1).strip()))
    # ---- file context constants ------------------------------------------------------------------------------------------
    fc = open(os.path.join(core, "ambiguity/file_context.rs")).read()
    m1 = re.search(r"min_identifiers_threshold:\s*(\d+)\s*,", fc)
    m2 = re.search(r"medium_confidence_ratio:\s*([0-9.]+)\s*,", fc)
    if not m1 or not m2:
        raise RuntimeError("translate/resolvershape: FileContextAnalyzer::default not found")
    ratio = Fraction(m2.group(1))
    # does the file-context level walk the counted styles in a FIXED order (Style::all_styles()) or in the HashMap's own
    # (per-process) order?  Two places: the `max_by_key` of calculate_dominance and the stable sort of suggest_style.
    fc_code = re.sub(r"//[^\n]*", "", fc.split("#[cfg(test)]")[0])
    hash_iter = bool(re.search(r"style_counts\s*\.\s*(?:iter|into_iter)\(\)", fc_code.replace("style_counts.get(", "")))
    canon = bool(re.search(r"fn in_canonical_order\(.*?Style::all_styles\(\)", fc_code, re.S)) \
        and len(re.findall(r"Self::in_canonical_order\(", fc_code)) >= 2
    if canon == hash_iter:
        raise RuntimeError("translate/resolvershape: cannot tell in which order FileContextAnalyzer walks the style counts "
                           f"(canonical helper used twice: {canon}, direct HashMap iteration: {hash_iter})")
    # ---- extension table ---------------------------------------------------------------------------------------------
    lh = open(os.path.join(core, "ambiguity/language_heuristics.rs")).read().split("#[cfg(test)]")[0]
    mm = re.search(r"match extension \{(.*?)\n            _ => None,", lh, re.S)
    if not mm:
        raise RuntimeError("translate/resolvershape: extension table not found")
    body = re.sub(r"//[^\n]*", "", mm.group(1))
    rows = []
    for arm in re.finditer(r'((?:"[^"]*"\s*\|?\s*)+)=>\s*\{?\s*languages::(\w+)::suggest_style\(context, possible_styles\)', body):
        exts = re.findall(r'"([^"]*)"', arm.group(1))
        if arm.group(2) not in MODULES:
            raise RuntimeError(f"translate/resolvershape: unknown language module {arm.group(2)}")
        rows.append((exts, arm.group(2)))
    if sorted(r[1] for r in rows) != sorted(MODULES) or body.count("=>") != len(rows):
        raise RuntimeError(f"translate/resolvershape: extension table covers {[r[1] for r in rows]} in {body.count('=>')} arms")
    listed = sorted(f[:-3] for f in os.listdir(os.path.join(core, "ambiguity/languages")) if f.endswith(".rs") and f != "mod.rs")
    if listed != sorted(MODULES):
        raise RuntimeError(f"translate/resolvershape: language modules on disk: {listed}")

    L = ["import RModel.Base.Bytes",
         "/- GENERATED by translate/resolvershape.py from renamify-core/src/{scanner,rename}.rs, ambiguity/{resolver,file_context,"
         "language_heuristics}.rs — do not edit -/", "namespace Gen", "",
         "/-- every `AmbiguityContext` literal outside the resolver's tests has `project_root: None`: "
         + "; ".join(f"{rel}: {val}" for rel, val in sites) + " -/",
         f"def projectRootAlwaysNone : Bool := {'true' if all_none else 'false'}",
         "/-- the `AmbiguityContext` literals: (source file, which of file_path, file_content, line_content, match_position, "
         "project_root are `Some(..)`) -/",
         "def ambiguityContextSites : List (Bytes × List Bool) := ["
         + ", ".join(f"({blit(rel)}, [{', '.join('true' if b else 'false' for b in sh)}])" for rel, sh in sorted(shapes)) + "]",
         "/-- the first statement of `try_cross_file_context` is `let project_root = context.project_root.as_ref()?` -/",
         f"def crossFileNeedsProjectRoot : Bool := {'true' if first_stmt_is_root else 'false'}",
         "/-- the levels of `resolve_with_styles` in call order (UTF-8 bytes of: " + ", ".join(order) + ") -/",
         "def resolverLevelOrder : List Bytes := [" + ", ".join(blit(o) for o in order) + "]",
         "/-- the file-context level walks the counted styles in the order of `Style::all_styles()` (repo commit after the finding "
         "`file_context_tie_hash_order`), not in the per-process iteration order of its `HashMap` -/",
         f"def fileContextCanonicalOrder : Bool := {'true' if canon else 'false'}",
         f"def fileContextMinIdentifiers : Nat := {m1.group(1)}",
         f"/-- `medium_confidence_ratio` = {m2.group(1)} -/",
         f"def fileContextMediumNum : Nat := {ratio.numerator}",
         f"def fileContextMediumDen : Nat := {ratio.denominator}",
         "/-- `match extension { … }` of `LanguageHeuristics::suggest_style`: (extensions, language module) -/",
         "def languageExtensions : List (List Bytes × Bytes) := ["]
    for k, (exts, mod) in enumerate(rows):
        L.append(f"  ([{', '.join(blit(e) for e in exts)}], {blit(mod)}){',' if k + 1 < len(rows) else ''}  -- {' '.join(exts)} => {mod}")
    L += ["]", "", "end Gen", ""]
    path = os.path.join(common.LEAN, "RModel", "Gen", "ResolverShape.lean")
    return [(path, common.write_if_changed(path, "\n".join(L)))]
