"""clap derive definitions of renamify-cli  ->  lean/RModel/Gen/CliGrammar.lean   (C20)

Reads `renamify-cli/src/cli/args.rs` and `cli/types.rs` and extracts, for the top-level parser and every
subcommand (hidden ones included): positionals with arity, long/short names and aliases, action
(flag / counter / single value / appended values), value type (`value_enum` variants kebab-cased, integers,
paths, strings), `value_delimiter`, `conflicts_with*`, `requires`, `global`, defaults.
Anything it does not understand raises `GrammarError` (a broken tie, DESIGN.md 2.2).
"""
import json
import os
import re

from checks import common

OUT = os.path.join(common.LEAN, "RModel", "Gen", "CliGrammar.lean")


class GrammarError(Exception):
    pass


# clap features that are extracted as data but that `RModel.Model.Cli` does not model (or that this translator
# does not know at all).  They do not stop the translation: the grammar is still written, the real parser is
# still compared with the model on every argv and the oracle still runs; `run()` reports them afterwards
# (a weakened tie), `extract()["problems"]` lists them.
PROBLEMS = []


def problem(where, text):
    PROBLEMS.append(f"{where}: {text}")


# ---------------------------------------------------------------------------------------------------
# small Rust reader

def strip_comments(src):
    """remove // and /// comments (not inside string literals)"""
    out, i, n = [], 0, len(src)
    while i < n:
        c = src[i]
        if c == '"':
            j = i + 1
            while j < n and src[j] != '"':
                j += 2 if src[j] == "\\" else 1
            out.append(src[i:j + 1]); i = j + 1
        elif c == "'" and i + 2 < n and (src[i + 2] == "'" or (src[i + 1] == "\\" and src[i + 3] == "'")):
            j = i + (3 if src[i + 2] == "'" else 4)
            out.append(src[i:j]); i = j
        elif src.startswith("//", i):
            j = src.find("\n", i)
            i = n if j < 0 else j
        elif src.startswith("/*", i):
            j = src.find("*/", i)
            i = n if j < 0 else j + 2
        else:
            out.append(c); i += 1
    return "".join(out)


def match_close(s, i, open_ch, close_ch):
    """index of the bracket closing the one at s[i]"""
    depth, j, n = 0, i, len(s)
    while j < n:
        c = s[j]
        if c == '"':
            j += 1
            while j < n and s[j] != '"':
                j += 2 if s[j] == "\\" else 1
        elif c == "'" and j + 2 < n and s[j + 2] == "'":
            j += 2
        elif c == open_ch:
            depth += 1
        elif c == close_ch:
            depth -= 1
            if depth == 0:
                return j
        j += 1
    raise GrammarError(f"unbalanced {open_ch}{close_ch} at offset {i}")


def split_top(s, sep=","):
    """split on `sep` outside brackets / strings"""
    parts, depth, cur, i, n = [], 0, [], 0, len(s)
    while i < n:
        c = s[i]
        if c == '"':
            j = i + 1
            while j < n and s[j] != '"':
                j += 2 if s[j] == "\\" else 1
            cur.append(s[i:j + 1]); i = j + 1; continue
        if c == "'" and i + 2 < n and s[i + 2] == "'":
            cur.append(s[i:i + 3]); i += 3; continue
        if c in "([{<":
            depth += 1
        elif c in ")]}>":
            depth -= 1
        if c == sep and depth == 0:
            parts.append("".join(cur)); cur = []
        else:
            cur.append(c)
        i += 1
    if "".join(cur).strip():
        parts.append("".join(cur))
    return [p.strip() for p in parts]


def parse_attrs(text):
    """`#[name(...)]` attributes at the start of `text` -> ([(name, inner)], rest)"""
    attrs = []
    text = text.lstrip()
    while text.startswith("#["):
        end = match_close(text, 1, "[", "]")
        body = text[2:end].strip()
        m = re.match(r"(\w+)\s*(?:\((.*)\))?\s*$", body, re.S)
        if not m:
            raise GrammarError(f"attribute not understood: #[{body}]")
        attrs.append((m.group(1), m.group(2)))
        text = text[end + 1:].lstrip()
    return attrs, text


def kv_list(inner):
    """`a, b = "x", c = [..]` -> ordered list of (key, value-or-None)"""
    out = []
    for part in split_top(inner or ""):
        if not part:
            continue
        m = re.match(r"([\w:]+)\s*(?:=\s*(.*))?$", part, re.S)
        if not m:
            raise GrammarError(f"attribute item not understood: {part!r}")
        out.append((m.group(1), m.group(2).strip() if m.group(2) is not None else None))
    return out


def str_lit(v, what):
    m = re.match(r'"((?:[^"\\]|\\.)*)"$', v or "")
    if not m:
        raise GrammarError(f"{what}: expected a string literal, got {v!r}")
    s = m.group(1)
    if "\\" in s:
        raise GrammarError(f"{what}: escapes in {v!r} not supported")
    return s


def char_lit(v, what):
    m = re.match(r"'(.)'$", v or "")
    if not m:
        raise GrammarError(f"{what}: expected a char literal, got {v!r}")
    return m.group(1)


def str_list(v, what):
    m = re.match(r"\[(.*)\]$", v or "", re.S)
    if not m:
        raise GrammarError(f"{what}: expected [\"..\", ..], got {v!r}")
    return [str_lit(x, what) for x in split_top(m.group(1)) if x]


def kebab(name):
    """heck::ToKebabCase for identifiers (snake_case fields, CamelCase variants)"""
    words, cur = [], ""
    chars = list(name)
    for i, c in enumerate(chars):
        if c in "_-":
            if cur:
                words.append(cur); cur = ""
            continue
        if cur and c.isupper():
            prev = chars[i - 1]
            nxt = chars[i + 1] if i + 1 < len(chars) else ""
            if prev.islower() or prev.isdigit() or (prev.isupper() and nxt.islower()):
                words.append(cur); cur = ""
        cur += c
    if cur:
        words.append(cur)
    return "-".join(w.lower() for w in words)


# ---------------------------------------------------------------------------------------------------
# items

def items(src):
    """top-level `struct`/`enum` items with their attributes: (kind, name, attrs, body)"""
    out = []
    for m in re.finditer(r"((?:#\[[^\]]*\]\s*)*)pub\s+(struct|enum)\s+(\w+)\s*\{", src):
        attrs, _ = parse_attrs(m.group(1))
        start = m.end() - 1
        end = match_close(src, start, "{", "}")
        out.append((m.group(2), m.group(3), attrs, src[start + 1:end]))
    return out


def derives(attrs):
    d = []
    for name, inner in attrs:
        if name == "derive":
            d += [x.strip() for x in (inner or "").split(",")]
    return d


def fields_of(body):
    """`#[..] pub name: Type,` items of a struct body / struct-variant body -> [(attrs, name, type)]"""
    res = []
    for part in split_top(body):
        if not part:
            continue
        attrs, rest = parse_attrs(part)
        m = re.match(r"(?:pub(?:\([^)]*\))?\s+)?(\w+)\s*:\s*(.+)$", rest, re.S)
        if not m:
            raise GrammarError(f"field not understood: {rest[:80]!r}")
        res.append((attrs, m.group(1), re.sub(r"\s+", "", m.group(2))))
    return res


def variants_of(body):
    """enum body -> [(attrs, name, struct-body or None)]"""
    res = []
    for part in split_top(body):
        if not part:
            continue
        attrs, rest = parse_attrs(part)
        m = re.match(r"(\w+)\s*(\{.*\})?\s*$", rest, re.S)
        if not m:
            raise GrammarError(f"enum variant not understood: {rest[:80]!r}")
        res.append((attrs, m.group(1), m.group(2)[1:-1] if m.group(2) else None))
    return res


INT_BITS = {"u8": 8, "u16": 16, "u32": 32, "u64": 64, "usize": 64}
IGNORED_ARG_KEYS = {"help", "long_help", "value_name", "verbatim_doc_comment", "hide", "help_heading", "display_order",
                    "next_line_help", "hide_possible_values", "hide_default_value"}
IGNORED_CMD_KEYS = {"name", "author", "about", "long_about", "after_help", "before_help", "bin_name", "display_name",
                    "next_help_heading", "styles", "term_width", "max_term_width"}


def value_enum(name, enums):
    if name not in enums:
        raise GrammarError(f"value type {name} is neither a known scalar nor a ValueEnum of types.rs")
    return enums[name]


def parse_value_enums(src):
    enums = {}
    for kind, name, attrs, body in items(src):
        if kind != "enum" or "ValueEnum" not in derives(attrs):
            continue
        rename_all = None
        for an, inner in attrs:
            if an in ("value", "clap"):
                for k, v in kv_list(inner):
                    if k == "rename_all":
                        rename_all = str_lit(v, f"{name} rename_all")
                    else:
                        raise GrammarError(f"enum {name}: #[{an}({k})] not understood")
        if rename_all not in (None, "kebab-case"):
            raise GrammarError(f"enum {name}: rename_all = {rename_all!r} not supported")
        vals = []
        for vattrs, vname, vbody in variants_of(body):
            if vbody is not None:
                raise GrammarError(f"ValueEnum {name}::{vname} has fields")
            names, skip = [kebab(vname)], False
            for an, inner in vattrs:
                if an == "doc":
                    continue
                if an not in ("value", "clap"):
                    raise GrammarError(f"{name}::{vname}: attribute #[{an}] not understood")
                for k, v in kv_list(inner):
                    if k == "name":
                        names[0] = str_lit(v, f"{name}::{vname} name")
                    elif k in ("alias", "visible_alias"):
                        names.append(str_lit(v, f"{name}::{vname} alias"))
                    elif k in ("aliases", "visible_aliases"):
                        names += str_list(v, f"{name}::{vname} aliases")
                    elif k == "skip":
                        skip = True
                    elif k in ("help", "hide"):
                        pass
                    else:
                        raise GrammarError(f"{name}::{vname}: #[value({k})] not understood")
            if not skip:
                vals.append(names)
        enums[name] = vals
    return enums


def parse_arg(owner, attrs, fname, ftype, enums):
    """one field -> arg dict, or ('flatten', TypeName), or ('subcommand', TypeName)"""
    a = {"id": fname, "long": None, "aliases": [], "short": None, "action": None, "positional": False,
         "required": False, "delim": None, "vtype": ("str",), "default": None, "conflicts": [], "requires": [],
         "global": False, "env": None, "trailingVarArg": False, "allowHyphen": False, "last": False, "extra": {}}
    kv = []
    for an, inner in attrs:
        if an == "doc":
            continue
        if an == "command" or (an == "clap" and inner and re.match(r"\s*(flatten|subcommand)\s*$", inner)):
            keys = kv_list(inner)
            if keys == [("flatten", None)]:
                return ("flatten", ftype)
            if keys == [("subcommand", None)]:
                return ("subcommand", ftype)
            raise GrammarError(f"{owner}.{fname}: #[command({inner})] not understood")
        if an in ("arg", "clap"):
            kv += kv_list(inner)
        else:
            raise GrammarError(f"{owner}.{fname}: attribute #[{an}] not understood")
    # type
    opt = vec = False
    base = ftype
    m = re.match(r"Option<(.+)>$", ftype)
    if m:
        opt, base = True, m.group(1)
    m = re.match(r"Vec<(.+)>$", base)
    if m:
        if opt:
            raise GrammarError(f"{owner}.{fname}: Option<Vec<..>> not supported")
        vec, base = True, m.group(1)
    if "<" in base:
        raise GrammarError(f"{owner}.{fname}: type {ftype} not supported")
    count = has_value_enum = False
    default = None
    for k, v in kv:
        where = f"{owner}.{fname}: {k}"
        if k in IGNORED_ARG_KEYS:
            continue
        if k == "long":
            a["long"] = kebab(fname) if v is None else str_lit(v, where)
        elif k == "short":
            a["short"] = fname[0] if v is None else char_lit(v, where)
        elif k in ("alias", "visible_alias"):
            a["aliases"].append(str_lit(v, where))
        elif k in ("aliases", "visible_aliases"):
            a["aliases"] += str_list(v, where)
        elif k == "global":
            if v not in ("true", "false"):
                raise GrammarError(f"{where} = {v!r}")
            a["global"] = v == "true"
        elif k == "env":
            a["env"] = str_lit(v, where)
        elif k == "action":
            act = (v or "").split("::")[-1]
            if act == "Count":
                count = True
            elif act in ("SetTrue", "Set", "Append"):
                a["action"] = {"SetTrue": "setTrue", "Set": "set", "Append": "append"}[act]
            else:
                raise GrammarError(f"{where} = {v!r} not supported")
        elif k == "value_enum":
            has_value_enum = True
        elif k == "value_delimiter":
            a["delim"] = char_lit(v, where)
        elif k == "conflicts_with":
            a["conflicts"].append(str_lit(v, where))
        elif k == "conflicts_with_all":
            a["conflicts"] += str_list(v, where)
        elif k == "requires":
            a["requires"].append(str_lit(v, where))
        elif k == "required":
            if v not in ("true", "false"):
                raise GrammarError(f"{where} = {v!r}")
            a["required"] = v == "true"
        elif k == "default_value":
            default = str_lit(v, where)
        elif k == "default_value_t":
            if v in ("true", "false") or re.match(r"\d+$", v or ""):
                default = v
            else:
                raise GrammarError(f"{where} = {v!r}: only bool/integer literals supported")
        elif k in ("trailing_var_arg", "allow_hyphen_values", "last"):
            if v not in ("true", "false"):
                raise GrammarError(f"{where} = {v!r}")
            a[{"trailing_var_arg": "trailingVarArg", "allow_hyphen_values": "allowHyphen", "last": "last"}[k]] = v == "true"
        elif k == "num_args":
            a["extra"][k] = v
            if v != "1":
                problem(where, f"num_args = {v}: only the default arity is modelled")
        else:
            # value_parser, default_missing_value, require_equals, overrides_with, exclusive, group,
            # required_unless*, requires_if*, allow_negative_numbers, ...: kept as data, not modelled
            a["extra"][k] = v
            problem(where, f"clap attribute `{k}{'' if v is None else ' = ' + v}` is not modelled")
    positional = a["long"] is None and a["short"] is None
    a["positional"] = positional
    if base == "bool":
        if opt or vec or positional:
            raise GrammarError(f"{owner}.{fname}: bool must be a plain named flag")
        a["action"] = a["action"] or "setTrue"
        if a["action"] != "setTrue":
            raise GrammarError(f"{owner}.{fname}: bool with action {a['action']}")
        if default not in (None, "true", "false"):
            raise GrammarError(f"{owner}.{fname}: bool default {default!r}")
        a["default"] = "true" if default == "true" else None
        return a
    if count:
        if base not in INT_BITS or opt or vec or positional:
            raise GrammarError(f"{owner}.{fname}: ArgAction::Count needs a plain integer flag")
        a["action"] = "count"
        return a
    if base == "String":
        a["vtype"] = ("str",)
    elif base == "PathBuf":
        a["vtype"] = ("path",)
    elif base in INT_BITS:
        a["vtype"] = ("nat", INT_BITS[base])
    else:
        if not has_value_enum:
            raise GrammarError(f"{owner}.{fname}: type {base} without value_enum / value_parser")
        a["vtype"] = ("enum", value_enum(base, enums), base)
    if has_value_enum and a["vtype"][0] != "enum":
        raise GrammarError(f"{owner}.{fname}: value_enum on {base}")
    a["action"] = a["action"] or ("append" if vec else "set")
    if vec != (a["action"] == "append"):
        raise GrammarError(f"{owner}.{fname}: action {a['action']} on type {ftype}")
    a["default"] = default
    if not opt and not vec and default is None:
        a["required"] = True
    return a


_seen_struct_attrs = set()


def expand_fields(owner, body, structs, enums, seen=()):
    """field list with `flatten` expanded in place -> (args, subcommand type or None)"""
    args, sub = [], None
    for attrs, fname, ftype in fields_of(body):
        r = parse_arg(owner, attrs, fname, ftype, enums)
        if isinstance(r, tuple):
            if r[0] == "flatten":
                if r[1] not in structs:
                    raise GrammarError(f"{owner}.{fname}: flatten of unknown struct {r[1]}")
                if r[1] in seen:
                    raise GrammarError(f"recursive flatten of {r[1]}")
                sattrs, sbody = structs[r[1]]
                if "Args" not in derives(sattrs):
                    raise GrammarError(f"{r[1]} is flattened but does not derive Args")
                for an, inner in sattrs:
                    if an not in ("derive", "doc") and (r[1], an) not in _seen_struct_attrs:
                        _seen_struct_attrs.add((r[1], an))
                        problem(r[1], f"struct attribute #[{an}({inner or ''})] is not modelled")
                inner, s2 = expand_fields(r[1], sbody, structs, enums, seen + (r[1],))
                if s2:
                    raise GrammarError(f"{r[1]}: subcommand inside a flattened struct")
                args += inner
            else:
                if sub:
                    raise GrammarError(f"{owner}: two subcommand fields")
                if r[1].startswith("Option<"):
                    sub = (r[1][7:-1], False)
                else:
                    sub = (r[1], True)
        else:
            args.append(r)
    return args, sub


def check_cmd(owner, args):
    ids = [a["id"] for a in args]
    if len(set(ids)) != len(ids):
        raise GrammarError(f"{owner}: duplicate argument ids {sorted(i for i in ids if ids.count(i) > 1)}")
    longs = [l for a in args for l in ([a["long"]] if a["long"] else []) + a["aliases"]]
    if len(set(longs)) != len(longs) or "help" in longs:
        raise GrammarError(f"{owner}: duplicate or reserved long names")
    shorts = [a["short"] for a in args if a["short"]]
    if len(set(shorts)) != len(shorts) or "h" in shorts:
        raise GrammarError(f"{owner}: duplicate or reserved short names")
    pos = [a for a in args if a["positional"]]
    for i, a in enumerate(pos):
        if a["action"] == "append" and i != len(pos) - 1:
            problem(f"{owner}.{a['id']}", "a Vec positional that is not last is not modelled")
        if (a["trailingVarArg"] or a["last"]) and i != len(pos) - 1:
            problem(f"{owner}.{a['id']}", "trailing_var_arg / last on a positional that is not the last one is not modelled")
        if a["required"] and any(not b["required"] for b in pos[:i]):
            raise GrammarError(f"{owner}.{a['id']}: required positional after an optional one")
        if a["delim"]:
            problem(f"{owner}.{a['id']}", "value_delimiter on a positional is not modelled")
    for a in args:
        if (a["trailingVarArg"] or a["last"]) and not a["positional"]:
            problem(f"{owner}.{a['id']}", "trailing_var_arg / last on a named argument is not modelled")
    for a in args:
        for ref in a["conflicts"] + a["requires"]:
            if ref not in ids:
                raise GrammarError(f"{owner}.{a['id']}: refers to unknown argument id {ref!r}")


def extract():
    del PROBLEMS[:]
    _seen_struct_attrs.clear()
    cli_dir = os.path.join(common.REPO, "renamify-cli", "src", "cli")
    args_src = strip_comments(open(os.path.join(cli_dir, "args.rs")).read())
    types_src = strip_comments(open(os.path.join(cli_dir, "types.rs")).read())
    enums = parse_value_enums(types_src)
    enums.update(parse_value_enums(args_src))
    structs, parser, subenums = {}, None, {}
    for kind, name, attrs, body in items(args_src):
        d = derives(attrs)
        if kind == "struct":
            structs[name] = (attrs, body)
            if "Parser" in d:
                if parser:
                    raise GrammarError("two #[derive(Parser)] structs")
                parser = name
        elif "Subcommand" in d:
            subenums[name] = (attrs, body)
        elif "ValueEnum" not in d:
            raise GrammarError(f"enum {name}: neither Subcommand nor ValueEnum")
    if not parser:
        raise GrammarError("no #[derive(Parser)] struct in args.rs")
    pattrs, pbody = structs[parser]
    version = False
    for an, inner in pattrs:
        if an == "command":
            for k, v in kv_list(inner):
                if k == "version":
                    version = True
                elif k == "propagate_version":
                    raise GrammarError("propagate_version is not modelled")
                elif k not in IGNORED_CMD_KEYS:
                    raise GrammarError(f"{parser}: #[command({k})] not understood")
        elif an not in ("derive", "doc"):
            raise GrammarError(f"{parser}: attribute #[{an}] not understood")
    top, sub = expand_fields(parser, pbody, structs, enums)
    if not sub or sub[0] not in subenums:
        raise GrammarError(f"{parser}: no #[command(subcommand)] field of a Subcommand enum")
    if not sub[1]:
        raise GrammarError("optional subcommand is not modelled")
    if any(a["positional"] for a in top):
        raise GrammarError("top-level positionals are not modelled")
    if any(a["short"] == "V" or a["long"] == "version" for a in top):
        raise GrammarError("top-level argument collides with the generated --version/-V")
    check_cmd(parser, top)
    sattrs, sbody = subenums[sub[0]]
    for an, inner in sattrs:
        if an not in ("derive", "doc"):
            raise GrammarError(f"{sub[0]}: attribute #[{an}] not understood")
    cmds = []
    for vattrs, vname, vbody in variants_of(sbody):
        c = {"name": kebab(vname), "aliases": [], "hidden": False, "variant": vname}
        for an, inner in vattrs:
            if an == "doc":
                continue
            if an != "command":
                raise GrammarError(f"{vname}: attribute #[{an}] not understood")
            for k, v in kv_list(inner):
                if k == "hide":
                    c["hidden"] = v == "true"
                elif k == "name":
                    c["name"] = str_lit(v, f"{vname} name")
                elif k in ("alias", "visible_alias"):
                    c["aliases"].append(str_lit(v, f"{vname} alias"))
                elif k in ("aliases", "visible_aliases"):
                    c["aliases"] += str_list(v, f"{vname} aliases")
                elif k not in IGNORED_CMD_KEYS:
                    raise GrammarError(f"{vname}: #[command({k})] not understood")
        if vbody is None:
            c["args"] = []
        else:
            c["args"], s2 = expand_fields(vname, vbody, structs, enums)
            if s2:
                raise GrammarError(f"{vname}: nested subcommands are not modelled")
        check_cmd(vname, c["args"])
        cmds.append(c)
    names = [n for c in cmds for n in [c["name"]] + c["aliases"]]
    if len(set(names)) != len(names) or "help" in names:
        raise GrammarError("duplicate or reserved subcommand names")
    return {"top": top, "subs": cmds, "version": version, "subRequired": True, "enums": enums,
            "problems": list(PROBLEMS)}


# ---------------------------------------------------------------------------------------------------
# Lean rendering

def lean_bytes(s):
    if re.match(r"^[A-Za-z0-9 _.,:/*+=<>\-\[\](){}?!@#$%^&|~;']*$", s) and s != "":
        return f't!"{s}"'
    return "([" + ", ".join(str(b) for b in s.encode()) + "] : Cli.Str)"


def lean_opt(x, f):
    return "none" if x is None else f"some {f(x)}"


def lean_list(xs, f):
    return "[" + ", ".join(f(x) for x in xs) + "]"


def lean_vtype(v):
    if v[0] == "str":
        return ".str"
    if v[0] == "path":
        return ".path"
    if v[0] == "nat":
        return f".nat {v[1]}"
    return f".enum enum_{v[2]}"


def lean_arg(a):
    parts = [f"id := {lean_bytes(a['id'])}", f"action := .{a['action']}"]
    if a["long"] is not None:
        parts.append(f"long := some {lean_bytes(a['long'])}")
    if a["aliases"]:
        parts.append(f"aliases := {lean_list(a['aliases'], lean_bytes)}")
    if a["short"] is not None:
        parts.append(f"short := some {ord(a['short'])}")
    if a["positional"]:
        parts.append("positional := true")
    if a["required"]:
        parts.append("required := true")
    if a["delim"] is not None:
        parts.append(f"delim := some {ord(a['delim'])}")
    if a["vtype"] != ("str",):
        parts.append(f"vtype := {lean_vtype(a['vtype'])}")
    if a["default"] is not None:
        parts.append(f"default := some {lean_bytes(a['default'])}")
    if a["conflicts"]:
        parts.append(f"conflicts := {lean_list(a['conflicts'], lean_bytes)}")
    if a["requires"]:
        parts.append(f"requires := {lean_list(a['requires'], lean_bytes)}")
    if a["global"]:
        parts.append("global := true")
    if a["trailingVarArg"]:
        parts.append("trailingVarArg := true")
    if a["allowHyphen"]:
        parts.append("allowHyphen := true")
    if a["last"]:
        parts.append("last := true")
    return "{ " + ", ".join(parts) + " }"


def render(g):
    L = ["import RModel.Model.CliLit",
         "/- GENERATED by translate/cli_grammar.py from renamify-cli/src/cli/{args,types}.rs — do not edit. -/",
         "namespace Gen.CliGrammar", "open Cli", ""]
    used = sorted({a["vtype"][2] for c in [{"args": g["top"]}] + g["subs"] for a in c["args"] if a["vtype"][0] == "enum"})
    for name in used:
        L.append(f"/-- `#[derive(ValueEnum)] enum {name}`: accepted names per variant -/")
        L.append(f"def enum_{name} : List (List Str) :=\n  "
                 + lean_list(g["enums"][name], lambda names: lean_list(names, lean_bytes)) + "\n")
    L.append("def topArgs : List Arg :=\n  [ " + ",\n    ".join(lean_arg(a) for a in g["top"]) + " ]\n")
    for c in g["subs"]:
        body = ",\n      ".join(lean_arg(a) for a in c["args"])
        L.append(f"def cmd_{c['variant']} : Cmd :=\n  {{ name := {lean_bytes(c['name'])}, "
                 f"aliases := {lean_list(c['aliases'], lean_bytes)}, hidden := {'true' if c['hidden'] else 'false'},\n"
                 f"    args :=\n    [ {body} ] }}\n")
    L.append("def grammar : Grammar :=\n  { top := topArgs,\n    subs := ["
             + ", ".join(f"cmd_{c['variant']}" for c in g["subs"]) + "],\n"
             f"    version := {'true' if g['version'] else 'false'}, subRequired := {'true' if g['subRequired'] else 'false'} }}\n")
    envs = sorted({a["env"] for a in g["top"] for _ in [0] if a["env"]}
                  | {a["env"] for c in g["subs"] for a in c["args"] if a["env"]})
    L.append("/-- environment variables clap consults (`env = ..`); the model and the harness run with them unset -/")
    L.append("def envVars : List String := " + lean_list(envs, lambda e: f'"{e}"'))
    L.append("/-- clap features present in the sources that `RModel.Model.Cli` does not model (kept as data only) -/")
    L.append("def unmodelled : List String := " + lean_list(g.get("problems", []), lambda e: json.dumps(e, ensure_ascii=True)))
    L.append("\nend Gen.CliGrammar\n")
    return "\n".join(L)


def write(g):
    return [(OUT, common.write_if_changed(OUT, render(g)))]


def run():
    g = extract()
    res = write(g)
    if g["problems"]:
        raise GrammarError("grammar written, but the model does not cover: " + "; ".join(g["problems"]))
    return res


if __name__ == "__main__":
    import json
    import sys
    sys.path.insert(0, common.ROOT)
    g = extract()
    print(json.dumps(g, indent=1)[:3000])
    print(run())
