"""Small helpers for the translators that read Rust source text syntactically."""
import re


class Shape(RuntimeError):
    pass


def blank(src):
    """same length text with comments, string and char literals replaced by spaces (newlines kept)"""
    out = list(src)
    i, n = 0, len(src)

    def fill(a, b):
        for j in range(a, b):
            if out[j] != "\n":
                out[j] = " "
    while i < n:
        c = src[i]
        if src.startswith("//", i):
            j = src.find("\n", i)
            j = n if j < 0 else j
            fill(i, j)
            i = j
        elif src.startswith("/*", i):
            j = src.find("*/", i + 2)
            j = n if j < 0 else j + 2
            fill(i, j)
            i = j
        elif c == '"':
            j = i + 1
            while j < n and src[j] != '"':
                j += 2 if src[j] == "\\" else 1
            fill(i + 1, min(j, n))
            i = j + 1
        elif c == "'" and i + 2 < n and (src[i + 2] == "'" or (src[i + 1] == "\\" and src.find("'", i + 2) - i <= 5)):
            j = src.find("'", i + 2 if src[i + 1] == "\\" else i + 1)
            if src[i + 1] != "\\":
                j = i + 2
            fill(i + 1, j)
            i = j + 1
        else:
            i += 1
    return "".join(out)


def match_brace(text, open_idx):
    """index of the `}` / `)` matching the bracket at open_idx"""
    pairs = {"{": "}", "(": ")", "[": "]"}
    o = text[open_idx]
    c = pairs[o]
    depth = 0
    for j in range(open_idx, len(text)):
        if text[j] == o:
            depth += 1
        elif text[j] == c:
            depth -= 1
            if depth == 0:
                return j
    raise Shape("unbalanced bracket")


def fn_body(text, name_re, what):
    """(start, end) of the body of the first `fn <name>` matching name_re in blanked text"""
    m = re.search(r"\bfn\s+" + name_re + r"\s*(?:<[^>]*>)?\s*\(", text)
    if not m:
        raise Shape(f"{what}: fn not found")
    close = match_brace(text, m.end() - 1)
    o = text.find("{", close)
    if o < 0:
        raise Shape(f"{what}: no body")
    return o + 1, match_brace(text, o)


def split_top_level(args):
    """split an argument list at depth-0 commas"""
    out, depth, cur = [], 0, []
    for ch in args:
        if ch in "([{":
            depth += 1
        elif ch in ")]}":
            depth -= 1
        if ch == "," and depth == 0:
            out.append("".join(cur))
            cur = []
        else:
            cur.append(ch)
    if "".join(cur).strip():
        out.append("".join(cur))
    return out
