"""Small syntactic helpers over Rust source for the C19 translators (not a translator itself: leading underscore).

Everything here is purely lexical: comments and the *contents* of string/char literals are blanked (offsets are
preserved, so positions in the blanked text index the original text), braces/parens are matched, and a function body
is turned into an ordered list of guarded events (stdout/stderr emissions, returns, `?` exits, calls of interest).
A construct the walker does not understand around an event makes the consumer raise: a translator must fail loudly.
"""
import re


class ParseError(RuntimeError):
    pass


def _ident_before(src, i):
    return i > 0 and (src[i - 1].isalnum() or src[i - 1] == "_")


def decomment(src):
    """Blank comments only (string literals stay), keeping length and newlines."""
    return blank(src, keep_strings=True)


def blank(src, keep_strings=False):
    """Blank comments and string/char literal contents, keeping length and newlines."""
    out = list(src)
    i, n = 0, len(src)

    def fill(a, b, comment=False):
        if keep_strings and not comment:
            return
        for k in range(a, min(b, n)):
            if out[k] != "\n":
                out[k] = " "
    while i < n:
        c = src[i]
        if src.startswith("//", i):
            j = src.find("\n", i)
            j = n if j < 0 else j
            fill(i, j, comment=True)
            i = j
        elif src.startswith("/*", i):
            depth, j = 1, i + 2
            while j < n and depth:
                if src.startswith("/*", j):
                    depth += 1; j += 2
                elif src.startswith("*/", j):
                    depth -= 1; j += 2
                else:
                    j += 1
            fill(i, j, comment=True)
            i = j
        elif c == "r" and not _ident_before(src, i) and re.match(r'r#*"', src[i:i + 8]):
            m = re.match(r'r(#*)"', src[i:])
            close = '"' + m.group(1)
            j = src.find(close, i + len(m.group(0)))
            if j < 0:
                raise ParseError("unterminated raw string")
            fill(i + len(m.group(0)), j)
            i = j + len(close)
        elif c == '"':
            j = i + 1
            while j < n and src[j] != '"':
                j += 2 if src[j] == "\\" else 1
            fill(i + 1, j)
            i = j + 1
        elif c == "'":
            m = re.match(r"'(\\.[^']*|[^'\\])'", src[i:i + 12])
            if m:  # char literal (not a lifetime)
                fill(i + 1, i + len(m.group(0)) - 1)
                i += len(m.group(0))
            else:
                i += 1
        else:
            i += 1
    return "".join(out)


def match_close(b, i):
    """b: blanked text, i: index of an opening ( [ {  -> index of the matching closer"""
    pairs = {"(": ")", "[": "]", "{": "}"}
    stack = []
    for k in range(i, len(b)):
        c = b[k]
        if c in pairs:
            stack.append(pairs[c])
        elif c in ")]}":
            if not stack or stack.pop() != c:
                raise ParseError(f"unbalanced {c!r} at {k}")
            if not stack:
                return k
    raise ParseError("no closing bracket")


def strip_cfg_test(b):
    """blank `#[cfg(test)] mod … { … }` blocks of an already blanked text"""
    out_b = b
    for m in list(re.finditer(r"#\[cfg\(test\)\]\s*(?:pub\s+)?mod\s+\w+\s*\{", b)):
        op = m.end() - 1
        cl = match_close(b, op)
        out_b = out_b[:m.start()] + re.sub(r"[^\n]", " ", out_b[m.start():cl + 1]) + out_b[cl + 1:]
    return out_b


def split_top(b, src, a, e, sep=",", angles=False):
    """split src[a:e] at top-level `sep` (bracket depth 0 in the blanked text; with angles=True also outside <…>)"""
    parts, depth, ang, start = [], 0, 0, a
    for k in range(a, e):
        c = b[k]
        if c in "([{":
            depth += 1
        elif c in ")]}":
            depth -= 1
        elif angles and c == "<":
            ang += 1
        elif angles and c == ">" and b[k - 1] not in "-=" and ang:
            ang -= 1
        elif c == sep and depth == 0 and ang == 0:
            parts.append(src[start:k])
            start = k + 1
    tail = src[start:e]
    if b[start:e].strip():          # a trailing comment is not an element
        parts.append(tail)
    return [p.strip() for p in parts]


def find_fn(src, b, name):
    """-> (params:[(name, type)], ret_type, body_open, body_close) of `fn name(`"""
    m = re.search(r"\bfn\s+" + re.escape(name) + r"\s*(?:<[^>]*>)?\s*\(", b)
    if not m:
        raise ParseError(f"fn {name} not found")
    po = m.end() - 1
    pc = match_close(b, po)
    ps = []
    for p in split_top(b, src, po + 1, pc, angles=True):
        p = re.sub(r"//[^\n]*", "", p).strip()
        if not p or p in ("&self", "self", "&mut self"):
            continue
        nm, _, ty = p.partition(":")
        nm = nm.strip()
        if nm.startswith("mut "):
            nm = nm[4:].strip()
        ps.append((nm, ty.strip()))
    bo = b.find("{", pc)
    ret = norm(src[pc + 1:bo]).removeprefix("->").strip()
    return ps, ret, bo, match_close(b, bo)


def norm(s):
    return re.sub(r"\s+", " ", s).strip()


STDOUT_RE = re.compile(r"\b(println!|print!)\s*\(")
STDERR_RE = re.compile(r"\b(eprintln!|eprint!)\s*\(")
STDOUT_WRITE_RE = re.compile(r"\b(?:write!|writeln!)\s*\(\s*(?:&mut\s+)?(?:std::)?(?:io::)?stdout\b"
                             r"|\bto_writer(?:_pretty)?\s*\(\s*(?:&mut\s+)?(?:std::)?(?:io::)?stdout")
KEYWORDS = {"let", "if", "match", "return", "Ok", "Some", "Err", "while", "for", "in", "mut", "else", "None"}


def header_of(b, src, brace, lo):
    """text of the construct that owns the `{` at `brace`: back to the previous ; { } or top-level , (paren depth 0)"""
    depth = 0
    k = brace - 1
    while k >= lo:
        c = b[k]
        if c in ")]":
            depth += 1
        elif c in "([":
            if depth == 0:
                break
            depth -= 1
        elif depth == 0 and c in ";{},":
            break
        k -= 1
    return k + 1, norm(src[k + 1:brace])


def events(src, b, lo, hi, calls=()):
    """Ordered guarded events of the block src[lo:hi] (exclusive of its braces).

    Returns a list of dicts {guard:[(text, positive)], pos, kind, …}:
      kind 'out'   macro, args (original text), newline
      kind 'err'
      kind 'ret'   value (text of the returned expression, normalised, truncated)
      kind 'fail'  via ('?' | 'return Err'), callee | text
      kind 'call'  name (only names listed in `calls`)
    The guard is the chain of enclosing `if`/`else`/`match … { arm => }` headers (original text, normalised).
    Closure bodies, struct literals and plain blocks are transparent.
    """
    out = []

    def scan_text(a, e, guard):
        """events in the straight-line text b[a:e] (contains no `{` that opens a construct)"""
        found = []
        for m in STDOUT_RE.finditer(b, a, e):
            cl = match_close(b, m.end() - 1)
            # ordered by the END of the macro call: its arguments (which may contain a `?`) are evaluated before it prints
            found.append((cl, {"kind": "out", "macro": m.group(1), "args": norm(src[m.end():cl]),
                               "newline": m.group(1) == "println!"}))
        for m in STDOUT_WRITE_RE.finditer(b, a, e):
            found.append((m.start(), {"kind": "out", "macro": "write", "args": norm(src[m.start():m.end() + 40]), "newline": False}))
        for m in STDERR_RE.finditer(b, a, e):
            found.append((m.start(), {"kind": "err"}))
        for m in re.compile(r"\breturn\b").finditer(b, a, e):
            # expression up to the terminating `;` at bracket depth 0 (may run past e through a struct literal)
            depth, q = 0, m.end()
            while q < len(b):
                ch = b[q]
                if ch in "([{":
                    depth += 1
                elif ch in ")]}":
                    if depth == 0:
                        break
                    depth -= 1
                elif ch == ";" and depth == 0:
                    break
                q += 1
            val = norm(src[m.end():q])
            if val.startswith("Err"):
                found.append((m.start(), {"kind": "fail", "via": "return Err", "text": val[:100]}))
            else:
                found.append((m.start(), {"kind": "ret", "value": val[:60]}))
        for m in re.compile(r"\?").finditer(b, a, e):
            p = m.start()
            before = b[:p].rstrip()
            prev = before[-1:] if before else ""
            if prev not in (")", "]") and not (prev.isalnum() or prev == "_"):
                continue
            if b[p + 1:p + 2].isalpha():      # `?Sized`
                continue
            stmt_lo = max(b.rfind(";", a, p), b.rfind("{", a, p), b.rfind("}", a, p), a - 1) + 1
            stmt_b = b[stmt_lo:p]
            cm = [c for c in re.findall(r"([A-Za-z_][\w:]*)\s*(?:\(\s*\)\s*\.\s*\w+\s*)*\(", stmt_b) if c not in KEYWORDS]
            callee = cm[0] if cm else norm(src[stmt_lo:p])[:40]
            found.append((p, {"kind": "fail", "via": "?", "callee": callee}))
        for m in re.compile(r"\b(?:std::)?process::exit\s*\(\s*([^)]*?)\s*\)").finditer(b, a, e):
            found.append((m.start(), {"kind": "exit", "code": norm(src[m.start(1):m.end(1)])}))
        for nm in calls:
            for m in re.compile(r"(?<![\w.])" + re.escape(nm) + r"\s*\(").finditer(b, a, e):
                found.append((m.start(), {"kind": "call", "name": nm}))
        found.sort(key=lambda t: t[0])
        for pos, ev in found:
            ev["guard"] = list(guard)
            ev["pos"] = pos
            out.append(ev)

    def walk(a, e, guard):
        k = a
        seg = a
        chain = []          # conditions of the current if / else-if chain
        while k < e:
            if b[k] == "{":
                cl = match_close(b, k)
                hstart, h = header_of(b, src, k, seg)
                scan_text(seg, k, guard)      # text before the construct and its header belong to the outer guard
                if h.startswith("else if "):
                    cond = h[len("else if "):]
                    walk(k + 1, cl, guard + [(c0, False) for c0 in chain] + [(cond, True)])
                    chain = chain + [cond]
                elif h == "else":
                    walk(k + 1, cl, guard + [(c0, False) for c0 in chain])
                    chain = []
                elif re.match(r"(?:let\s+[^=]+=\s*|return\s+|[\w.]+\s*=\s*)?if\s", h):
                    cond = re.sub(r"^(?:let\s+[^=]+=\s*|return\s+|[\w.]+\s*=\s*)?if\s+", "", h)
                    walk(k + 1, cl, guard + [(cond, True)])
                    chain = [cond]
                elif re.search(r"\bmatch\s+(.+)$", h) and not h.endswith("=>"):
                    walk_match(k + 1, cl, guard, re.search(r"\bmatch\s+(.+)$", h).group(1))
                    chain = []
                elif h.endswith("=>"):
                    walk(k + 1, cl, guard + [("arm " + h[:-2].strip(), True)])
                    chain = []
                elif re.match(r"(for|while|loop)\b", h):
                    walk(k + 1, cl, guard + [("loop " + h, True)])
                    chain = []
                else:
                    walk(k + 1, cl, guard)        # closure body, struct literal, plain block: transparent
                    chain = []
                k = cl + 1
                seg = k
                if not re.match(r"\s*else\b", b[k:k + 12]):
                    chain = []
                continue
            k += 1
        scan_text(seg, e, guard)

    def walk_match(a, e, guard, scrut):
        k = a
        while k < e:
            # next `=>` at depth 0 relative to k
            depth, q, arrow = 0, k, -1
            while q < e - 1:
                ch = b[q]
                if ch in "([{":
                    depth += 1
                elif ch in ")]}":
                    depth -= 1
                elif depth == 0 and ch == "=" and b[q + 1] == ">":
                    arrow = q
                    break
                q += 1
            if arrow < 0:
                break
            pat = norm(src[k:arrow]).lstrip(",").strip()
            body = arrow + 2
            while body < e and b[body] in " \n\t":
                body += 1
            g = guard + [(f"match {scrut}: {pat}", True)]
            if body < e and b[body] == "{":
                cl = match_close(b, body)
                walk(body + 1, cl, g)
                k = cl + 1
            else:
                depth, q = 0, body
                while q < e:
                    ch = b[q]
                    if ch in "([{":
                        depth += 1
                    elif ch in ")]}":
                        depth -= 1
                    elif ch == "," and depth == 0:
                        break
                    q += 1
                walk(body, q, g)
                k = q
            while k < e and b[k] in " \n\t,":
                k += 1

    walk(lo, hi, [])
    out.sort(key=lambda ev: ev["pos"])
    return out
