"""Gen/HistoryFlags.lean: which of the history-safety checks the code has today, read from the bodies of
apply.rs::apply_plan, undo.rs::undo_renaming and undo.rs::redo_renaming.  `RModel/Model/History.lean` builds
`Cfg.current` from these flags, so the model of C10 follows the code:

  earlyDupCheck    apply_plan looks the plan id up in the history (`find_entry(&plan.id)`) before `ApplyState::new`
  redoOnce         redo_renaming scans for an existing `redo-<id>-` entry (`starts_with(&redo_prefix)`) before `apply_plan(`
  undoPrevalidate  undo_renaming calls `check_single_patch(` (the non-writing variant of apply_single_patch) on the
                   patches before its first `fs::rename(`, and returns an error when one does not apply
  redoPrevalidate  redo_renaming compares every hunk's recorded text at its recorded offsets
                   (`.get(hunk.start..hunk.end)`) before `apply_plan(`, and returns an error on a mismatch

  planBeforeEntry  apply_plan writes plans/<id>.json BEFORE `history.add_entry` (6667a82: the entry is the commit point; the
                   stored plan is removed again when the entry cannot be recorded); false = entry first, then the plan
  revertIdOfRoot   undo_renaming builds the revert id on something else than `entry.id` — recognised: `root_plan_id(&entry.id)`
                   (the plan id with the `redo-…-<ts>` wrapping stripped); an unrecognised expression is reported in
                   `unrecognised` (evidence) and treated as `entry.id`: the CLI-vs-model comparison then decides

A wrong flag shows up as a disagreement between the CLI and `histrun` in checks/c10.py.  Anchors the model relies on
(`history.add_entry` at the end of apply_plan, the `revert_of` scans, `apply_single_patch`, `apply_plan(` in redo) must be
present, otherwise the translator raises.
"""
import os
import re

from checks import common

OUT = os.path.join(common.LEAN, "RModel", "Gen", "HistoryFlags.lean")


def fn_body(src, signature_re, what):
    m = re.search(signature_re, src, re.S)
    if not m:
        raise RuntimeError(f"translate/history_flags: {what} not found")
    i = src.index("{", m.end() - 1)
    depth, j = 0, i
    while j < len(src):
        ch = src[j]
        if ch == "{":
            depth += 1
        elif ch == "}":
            depth -= 1
            if depth == 0:
                return src[i:j + 1]
        j += 1
    raise RuntimeError(f"translate/history_flags: unbalanced braces in {what}")


def strip_comments(s):
    return re.sub(r"//[^\n]*", "", s)


def pos(body, pattern):
    m = re.search(pattern, body, re.S)
    return m.start() if m else None


def need(body, pattern, what):
    p = pos(body, pattern)
    if p is None:
        raise RuntimeError(f"translate/history_flags: {what}: the model of C10 no longer describes this code")
    return p


def flags(repo):
    rd = lambda p: open(os.path.join(repo, "renamify-core/src", p)).read()
    undo_src = rd("undo.rs")
    apply_b = strip_comments(fn_body(rd("apply.rs"), r"pub fn apply_plan\(plan: &mut Plan, options: &ApplyOptions\)\s*->\s*Result<\(\)>\s*\{", "apply_plan"))
    undo_b = strip_comments(fn_body(undo_src, r"pub fn undo_renaming\(id: &str, renamify_dir: &Path\)\s*->\s*Result<\(\)>\s*\{", "undo_renaming"))
    redo_b = strip_comments(fn_body(undo_src, r"pub fn redo_renaming\(id: &str, renamify_dir: &Path\)\s*->\s*Result<\(\)>\s*\{", "redo_renaming"))
    # anchors
    state_new = need(apply_b, r"ApplyState::new\(", "apply_plan without ApplyState::new")
    add_entry = need(apply_b, r"history\.add_entry\(", "apply_plan no longer records the operation with history.add_entry")
    store_plan = need(apply_b, r'plans_dir\.join\(format!\("\{\}\.json", plan\.id\)\)', "apply_plan no longer stores the plan under plans/<id>.json")
    plan_first = store_plan < add_entry
    if plan_first and not re.search(r"if let Err\(\w+\) = history\.add_entry\(history_entry\)\s*\{[^}]*remove_file\(&plan_path\)", apply_b, re.S):
        raise RuntimeError("translate/history_flags: apply_plan stores the plan before the history entry but does not remove it "
                           "when the entry cannot be recorded: the model of C10 does not describe this code")
    need(undo_b, r"revert_of\.as_ref\(\)\s*==\s*Some\(&entry\.id\)", "undo_renaming without the `revert_of == id` scan")
    need(undo_b, r"revert_of\.is_some\(\)", "undo_renaming no longer refuses revert entries")
    first_rename = need(undo_b, r"fs::rename\(", "undo_renaming without fs::rename")
    need(undo_b, r"apply_single_patch\(", "undo_renaming without apply_single_patch")
    need(undo_b, r"history\.add_entry\(revert_entry\)", "undo_renaming no longer records a revert entry")
    need(redo_b, r"revert_of\.as_ref\(\)\s*==\s*Some\(&entry\.id\)", "redo_renaming without the `revert_of == id` scan")
    redo_apply = need(redo_b, r"apply_plan\(&mut plan", "redo_renaming no longer goes through apply_plan")
    unrecognised = []
    m = re.search(r'plan\.id\s*=\s*format!\(\s*"redo-\{\}-\{\}"\s*,\s*(.+?)\s*,\s*chrono::Local::now\(\)\.timestamp\(\)\s*,?\s*\)', redo_b, re.S)
    if not m:
        raise RuntimeError("translate/history_flags: redo_renaming no longer names the redo `redo-<id>-<unix seconds>`")
    if re.sub(r"\s+", "", m.group(1)) != "id":
        unrecognised.append("redo id built on `%s`" % re.sub(r"\s+", " ", m.group(1)))
    m = re.search(r'format!\(\s*"revert-\{\}-\{\}"\s*,\s*(.+?)\s*,\s*chrono::Local::now\(\)\.timestamp\(\)\s*,?\s*\)', undo_b, re.S)
    if not m:
        raise RuntimeError("translate/history_flags: undo_renaming no longer names the revert `revert-<id>-<unix seconds>`")
    rexpr = re.sub(r"\s+", "", m.group(1))
    revert_root = rexpr == "root_plan_id(&entry.id)"
    if not revert_root and rexpr != "entry.id":
        unrecognised.append("revert id built on `%s`" % re.sub(r"\s+", " ", m.group(1)))

    dup = pos(apply_b, r"find_entry\(&plan\.id\)\s*\.is_some\(\)")
    early = dup is not None and dup < state_new and "return Err" in apply_b[dup:state_new]

    once = pos(redo_b, r"starts_with\(&redo_prefix\)")
    redo_once = once is not None and once < redo_apply and "return Err" in redo_b[once:redo_apply]

    chk = pos(undo_b, r"check_single_patch\(")
    undo_pre = False
    if chk is not None and chk < first_rename and "return Err" in undo_b[chk:first_rename]:
        chk_b = strip_comments(fn_body(undo_src, r"fn check_single_patch\(.{0,120}?\)\s*->\s*Result<\(\)>\s*\{", "check_single_patch"))
        if not re.search(r"patch_file\(\s*file_path\s*,\s*patch_content\s*,\s*false\s*\)", chk_b):
            raise RuntimeError("translate/history_flags: check_single_patch is not the non-writing variant of patch_file")
        undo_pre = True

    val = pos(redo_b, r"\.get\(\s*hunk\.start\s*\.\.\s*hunk\.end\s*\)")
    redo_pre = val is not None and val < redo_apply and "return Err" in redo_b[val:redo_apply]
    other = pos(redo_b, r"verify_checksums\(")
    if not redo_pre and other is not None and other < redo_apply:
        unrecognised.append("redo pre-check by History::verify_checksums(...) instead of the stored hunks (modelled as: no pre-validation)")
    return {"earlyDupCheck": early, "redoOnce": redo_once, "undoPrevalidate": undo_pre, "redoPrevalidate": redo_pre,
            "planBeforeEntry": plan_first, "revertIdOfRoot": revert_root, "unrecognised": unrecognised}


def render(fl):
    b = lambda v: "true" if v else "false"
    return ("/- GENERATED by translate/history_flags.py from renamify-core/src/apply.rs and undo.rs — do not edit.\n"
            "   Which history-safety checks the code has today; `History.Cfg.current` is built from these. -/\n"
            "namespace Gen.HistoryFlags\n\n"
            + "".join(f"def {k} : Bool := {b(v)}\n" for k, v in fl.items() if isinstance(v, bool))
            + "\nend Gen.HistoryFlags\n")


def run():
    return [(OUT, common.write_if_changed(OUT, render(flags(common.REPO))))]
