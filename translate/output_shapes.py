"""Gen/OutputShapes.lean: what every command can write to stdout under which conditions, and the JSON shape of it.

EXTRACTED syntactically from /repo (a construct the extractor does not understand makes it raise):
  * serde shape of every struct/enum reachable from a result type: field names, types, `#[serde(…)]` attributes
    (`skip_serializing_if`, `rename`, `rename_all`, `skip*`), from renamify-core/src/{output,scanner,case_model}.rs;
  * the document built by each `impl OutputFormatter for T { fn format_json }`: the `json!({…})` literal (keys, `self.f`
    members, literals, `if … { "a" } else { "b" }`, locals bound by `serde_json::to_value(&self.f).unwrap_or(Value::Null)`),
    or `serde_json::to_string(self)`;
  * main.rs: `match cli.command` dispatch (command -> handler fn, with the literal arguments `""`/`true` bound to the
    handler's `replace`/`dry_run` parameters), the `Ok`/`Err` exit-code mapping (Ok: one unconditional literal code plus
    the code(s) under the interrupted flag; Err: its own `exit_code` chain, never conditioned on the flag), every `process::exit` before the
    dispatch, stdout sites of `main`/`check_and_auto_init`/`do_init`/`prompt_for_init_with_input`;
  * per handler fn: the ordered list of events (stdout / stderr emission sites, `return`, `?`/`return Err` exits, calls
    of the effectful operations) each with the chain of enclosing `if`/`match output` conditions; the condition TEXT is
    mapped to model atoms by the fixed dictionary GUARDS below (unknown text around an event -> raise);
  * whether the preview format is forced to `None` under `--output json` (text test per handler / dispatch arm);
  * every `Command::new` of the non-test core + CLI sources with the way the child is run (output / status / spawn, stdout
    redirected or inherited); every call of the error-document emitter that is not directly followed by the exit;
  * every stdout emission site of renamify-core/src (non-test): file, enclosing fn, guard texts; sites under an
    `env::var("RENAMIFY_DEBUG_…")` guard are counted separately.
ASSUMED (stated in Model/Output.lean, validated by the CLI grid of checks/c19.py):
  * an operation that returns Ok has had its effect; the two stdout sites inside `rename_operation` are modelled by hand
    from the extracted fingerprint (theorem `core_sites_as_modelled` pins it);
  * clap rejects an invalid argv before any handler runs (exit 2, stderr only).
"""
import os, re
from checks import common
from translate import _rs
from translate._rs import ParseError, norm

CORE = "renamify-core/src"
CLI = "renamify-cli/src"
STRUCT_FILES = ["output.rs", "scanner.rs", "case_model.rs", "history.rs", "atomic.rs"]
OPERATIONS = ["plan_operation", "rename_operation", "apply_operation", "undo_operation", "redo_operation",
              "history_operation", "status_operation", "create_simple_plan", "apply_plan", "commit_changes"]
COMMANDS = ["plan", "search", "rename", "replace", "apply", "undo", "redo", "history", "status", "version"]


def read(repo, rel):
    """-> (text with comments blanked, text with comments + literal contents + #[cfg(test)] modules blanked); same offsets"""
    with open(os.path.join(repo, rel)) as fh:
        raw = fh.read()
    return _rs.decomment(raw), _rs.strip_cfg_test(_rs.blank(raw))


# ---------------------------------------------------------------------------------------------------
# 1. serde shapes

NUM = {"u8", "u16", "u32", "u64", "u128", "usize", "i8", "i16", "i32", "i64", "i128", "isize", "f32", "f64"}
STR = {"String", "PathBuf", "str", "&str", "Path"}


def parse_attrs(text):
    """serde attributes of an attribute block: dict key -> value|True"""
    res = {}
    for m in re.finditer(r"#\[\s*serde\s*\((.*?)\)\s*\]", text, re.S):
        for item in re.findall(r"(\w+)\s*(?:=\s*\"([^\"]*)\")?", m.group(1)):
            res[item[0]] = item[1] if item[1] != "" or re.search(item[0] + r"\s*=", m.group(1)) else True
    return res


def rust_type(t):
    """-> shape tuple in the JsonShape language (refs by last path segment)"""
    t = norm(t)
    t = re.sub(r"^&\s*(?:'\w+\s+)?(?:mut\s+)?", "", t)
    if t in STR:
        return ("str",)
    if t in NUM:
        return ("num",)
    if t == "bool":
        return ("bool",)
    m = re.fullmatch(r"(?:[\w:]*::)?(\w+)\s*<(.*)>", t)
    if m:
        head, inner = m.group(1), m.group(2)
        args = _rs.split_top(inner, inner, 0, len(inner), angles=True)
        if head == "Option":
            return ("option", rust_type(args[0]))
        if head in ("Vec", "HashSet", "BTreeSet", "VecDeque"):
            return ("arr", rust_type(args[0]))
        if head in ("HashMap", "BTreeMap"):
            if rust_type(args[0]) != ("str",):
                raise ParseError(f"map with non-string key: {t}")
            return ("map", rust_type(args[1]))
        if head == "Box":
            return rust_type(args[0])
        raise ParseError(f"unsupported generic type {t}")
    if t.startswith("(") and t.endswith(")"):
        inner = t[1:-1]
        return ("tuple", [rust_type(x) for x in _rs.split_top(inner, inner, 0, len(inner), angles=True)])
    if re.fullmatch(r"[\w:]+", t):
        return ("ref", t.split("::")[-1])
    raise ParseError(f"unsupported type {t!r}")


def rename_all(name, rule):
    if rule == "lowercase":
        return name.lower()
    if rule == "UPPERCASE":
        return name.upper()
    if rule == "snake_case":
        return re.sub(r"(?<!^)(?=[A-Z])", "_", name).lower()
    if rule == "kebab-case":
        return re.sub(r"(?<!^)(?=[A-Z])", "-", name).lower()
    if rule == "camelCase":
        return name[:1].lower() + name[1:]
    raise ParseError(f"unsupported rename_all = {rule!r}")


SKIP_FNS = {"Option::is_none": "ifSome", "String::is_empty": "ifNonEmpty", "is_empty_path": "ifNonEmpty",
            "Vec::is_empty": "ifNonEmpty", "str::is_empty": "ifNonEmpty"}


class Types:
    def __init__(self, repo):
        self.repo = repo
        self.some_cache, self.some_sites = {}, {}
        self.sources = []
        for f in STRUCT_FILES:
            p = os.path.join(repo, CORE, f)
            if os.path.exists(p):
                self.sources.append((f,) + read(repo, os.path.join(CORE, f)))
        self.cache = {}

    def locate(self, name):
        for f, src, b in self.sources:
            m = re.search(r"\bpub\s+(struct|enum)\s+" + re.escape(name) + r"\b[^{;]*\{", b)
            if m:
                return f, src, b, m
        raise ParseError(f"type {name} not found in {STRUCT_FILES}")

    def shape_of(self, name):
        """('obj', [(json name, presence, shape)]) for a struct, ('oneOf', [('lit', v)…]) for a unit enum"""
        if name in self.cache:
            return self.cache[name]
        f, src, b, m = self.locate(name)
        op = m.end() - 1
        cl = _rs.match_close(b, op)
        # container attributes: the attribute lines directly above the item
        head = src[:m.start()]
        hm = re.search(r"((?:\s*(?:#\[[^\]]*\]|///[^\n]*|//[^\n]*)\s*\n)*)\s*$", head)
        cattrs = parse_attrs(hm.group(1)) if hm else {}
        for bad in ("tag", "untagged", "content", "transparent", "into", "from"):
            if bad in cattrs:
                raise ParseError(f"{name}: serde container attribute {bad} is not supported")
        body_items = _rs.split_top(b, src, op + 1, cl, angles=True)
        if m.group(1) == "enum":
            vals = []
            for it in body_items:
                attrs = parse_attrs(it)
                it_b = re.sub(r"#\[[^\]]*\]", "", _rs.blank(it)).strip()
                if not it_b:
                    continue
                vm = re.fullmatch(r"(\w+)", it_b)
                if not vm:
                    raise ParseError(f"enum {name}: non-unit variant {norm(it_b)[:40]!r} is not supported")
                v = vm.group(1)
                if attrs.get("skip") or attrs.get("skip_serializing"):
                    continue
                v = attrs["rename"] if isinstance(attrs.get("rename"), str) else (
                    rename_all(v, cattrs["rename_all"]) if "rename_all" in cattrs else v)
                vals.append(("lit", v))
            res = ("oneOf", vals)
        else:
            fields = []
            for it in body_items:
                attrs = parse_attrs(it)
                it_b = re.sub(r"#\[[^\]]*\]", "", _rs.blank(it)).strip()
                if not it_b:
                    continue
                fm = re.fullmatch(r"(?:pub(?:\([^)]*\))?\s+)?(\w+)\s*:\s*(.+)", it_b, re.S)
                if not fm:
                    raise ParseError(f"struct {name}: cannot parse field {norm(it_b)[:60]!r}")
                fname, ftype = fm.group(1), rust_type(fm.group(2))
                if "flatten" in attrs or "with" in attrs or "serialize_with" in attrs:
                    raise ParseError(f"{name}.{fname}: serde attribute flatten/with is not supported")
                if attrs.get("skip") or attrs.get("skip_serializing"):
                    continue
                jname = attrs["rename"] if isinstance(attrs.get("rename"), str) else (
                    rename_all(fname, cattrs["rename_all"]) if "rename_all" in cattrs else fname)
                presence = "always"
                if "skip_serializing_if" in attrs:
                    fn = attrs["skip_serializing_if"]
                    if fn not in SKIP_FNS:
                        raise ParseError(f"{name}.{fname}: unknown skip_serializing_if = {fn!r}")
                    presence = SKIP_FNS[fn]
                    if presence == "ifSome":
                        if ftype[0] != "option":
                            raise ParseError(f"{name}.{fname}: Option::is_none on a non-Option field")
                        ftype = ftype[1]
                fields.append((jname, presence, self.resolve(ftype)))
            res = ("obj", fields)
        self.cache[name] = res
        return res

    def resolve(self, t):
        """option -> oneOf[T, null]; refs stay refs (and get loaded)"""
        k = t[0]
        if k == "option":
            return ("oneOf", [self.resolve(t[1]), ("null",)])
        if k in ("arr", "map"):
            return (k, self.resolve(t[1]))
        if k == "tuple":
            return ("tuple", [self.resolve(x) for x in t[1]])
        if k == "ref":
            self.shape_of(t[1])
            return t
        return t

    def always_some(self, struct, field):
        """every struct literal `struct { … field: Some(…) … }` in the non-test core sources sets the member to Some"""
        key = (struct, field)
        if key in self.some_cache:
            return self.some_cache[key]
        sites, ok = 0, True
        root = os.path.join(self.repo, CORE)
        for dp, dn, fns in os.walk(root):
            dn.sort()
            for f in sorted(fns):
                if not f.endswith(".rs"):
                    continue
                raw = open(os.path.join(dp, f)).read()
                if struct not in raw:
                    continue
                src, b = _rs.decomment(raw), _rs.strip_cfg_test(_rs.blank(raw))
                for m in re.finditer(r"(?<![\w:])(?:[\w:]*::)?" + re.escape(struct) + r"\s*\{", b):
                    before = b[max(0, m.start() - 40):m.start()]
                    if re.search(r"\b(struct|enum|for|impl)\s+$", before):
                        continue
                    op = m.end() - 1
                    cl = _rs.match_close(b, op)
                    items = _rs.split_top(b, src, op + 1, cl)
                    vals = [it.split(":", 1)[1].strip() for it in items if re.match(r"\s*" + field + r"\s*:", it)]
                    sites += 1
                    if len(vals) != 1 or not vals[0].startswith("Some("):
                        ok = False
        res = ok and sites > 0
        self.some_cache[key] = res
        self.some_sites[key] = sites
        return res

    def field_type(self, struct, field):
        """declared Rust type of struct.field as an unresolved type tuple"""
        f, src, b, m = self.locate(struct)
        op = m.end() - 1
        cl = _rs.match_close(b, op)
        for it in _rs.split_top(b, src, op + 1, cl, angles=True):
            it_b = re.sub(r"#\[[^\]]*\]", "", _rs.blank(it)).strip()
            fm = re.fullmatch(r"(?:pub(?:\([^)]*\))?\s+)?(\w+)\s*:\s*(.+)", it_b, re.S)
            if fm and fm.group(1) == field:
                return rust_type(fm.group(2))
        raise ParseError(f"{struct} has no field {field}")


# ---------------------------------------------------------------------------------------------------
# 2. format_json

def json_macro_shape(types, struct, src, b, op, cl):
    """shape of the `{ "k": v, … }` at src[op..cl] inside json!( … )"""
    fields = []
    for it in _rs.split_top(b, src, op + 1, cl):
        km = re.match(r'\s*"([^"]+)"\s*:\s*', it, re.S)
        if not km:
            raise ParseError(f"{struct}::format_json: cannot parse json! member {norm(it)[:50]!r}")
        key, val = km.group(1), it[km.end():].strip()
        fields.append((key, "always", json_value_shape(types, struct, val)))
    return ("obj", fields)


def json_value_shape(types, struct, val):
    val = val.strip()
    if val in ("true", "false"):
        return ("bool",)
    if re.fullmatch(r'"[^"]*"', val):
        return ("lit", val[1:-1])
    if re.fullmatch(r"-?\d+(\.\d+)?", val):
        return ("num",)
    if types is None:
        if re.fullmatch(r"format!\(.*\)", val, re.S) or re.fullmatch(r"\w+", val) or re.fullmatch(r"\w+\.to_string\(\)", val):
            return ("str",)          # main.rs error document: the members are message strings
        raise ParseError(f"{struct}: unsupported json! value {val[:60]!r}")
    m = re.fullmatch(r"self\.(\w+)", val)
    if m:
        ft = types.field_type(struct, m.group(1))
        if ft[0] == "option" and types.always_some(struct, m.group(1)):
            return types.resolve(ft[1])      # `Some(…)` at every construction site of the struct: never null
        return types.resolve(ft)
    if re.fullmatch(r"\w+", val) and val in getattr(types, "json_locals", {}):
        field = types.json_locals[val]
        ft = types.field_type(struct, field)
        inner = types.resolve(ft[1]) if ft[0] == "option" and types.always_some(struct, field) else types.resolve(ft)
        return ("fallible", inner)
    if val.startswith("{"):
        vb = _rs.blank(val)
        cl = _rs.match_close(vb, 0)
        if cl != len(val) - 1:
            raise ParseError(f"{struct}::format_json: trailing text after object {val[:40]!r}")
        return json_macro_shape(types, struct, val, vb, 0, cl)
    m = re.fullmatch(r'if\s+.+?\{\s*("[^"]*")\s*\}\s*else\s*\{\s*("[^"]*")\s*\}', val, re.S)
    if m:
        return ("oneOf", [("lit", m.group(1)[1:-1]), ("lit", m.group(2)[1:-1])])
    raise ParseError(f"{struct}::format_json: unsupported json! value {val[:60]!r}")


def format_json_shapes(repo, types):
    src, b = read(repo, os.path.join(CORE, "output.rs"))
    res = {}
    for m in re.finditer(r"\bimpl\s+OutputFormatter\s+for\s+(\w+)\s*\{", b):
        struct = m.group(1)
        iop = m.end() - 1
        icl = _rs.match_close(b, iop)
        fm = re.compile(r"\bfn\s+format_json\s*\(\s*&self\s*\)\s*->\s*String\s*\{").search(b, iop, icl)
        if not fm:
            raise ParseError(f"impl OutputFormatter for {struct}: no format_json")
        fop = fm.end() - 1
        fcl = _rs.match_close(b, fop)
        body = norm(src[fop + 1:fcl])
        jm = re.compile(r"\bjson!\s*\(\s*\{").search(b, fop, fcl)
        if jm:
            # optional prelude: `let x = serde_json::to_value(&self.f).unwrap_or(serde_json::Value::Null);` (a member whose
            # serialisation can fail is rendered as null instead of making json! panic)
            locals_ = {}
            rest = body
            while True:
                lm = re.match(r"let\s+(\w+)\s*=\s*serde_json::to_value\s*\(\s*&\s*self\.(\w+)\s*\)\s*\.unwrap_or\s*\(\s*"
                              r"(?:serde_json::)?Value::Null\s*\)\s*;\s*", rest)
                if not lm:
                    break
                locals_[lm.group(1)] = lm.group(2)
                rest = rest[lm.end():]
            if not re.match(r"serde_json::to_string\s*\(\s*&\s*json!", rest):
                raise ParseError(f"{struct}::format_json: json! literal not passed directly to serde_json::to_string "
                                 f"(after {len(locals_)} recognised `let … = to_value(&self.…).unwrap_or(Null)` bindings): {rest[:60]!r}")
            oop = jm.end() - 1
            types.json_locals = locals_
            res[struct] = (json_macro_shape(types, struct, src, b, oop, _rs.match_close(b, oop)), "json!")
            types.json_locals = {}
        elif re.match(r"serde_json::to_string\s*\(\s*&?\s*self\s*\)", body):
            types.shape_of(struct)
            res[struct] = (("ref", struct), "serde")
        else:
            raise ParseError(f"{struct}::format_json: unrecognised body {body[:80]!r}")
        if ".unwrap_or_default()" not in body and ".unwrap()" not in body and ".expect(" not in body:
            raise ParseError(f"{struct}::format_json: unexpected error handling {body[-60:]!r}")
    if not res:
        raise ParseError("no OutputFormatter impl found")
    return res


# ---------------------------------------------------------------------------------------------------
# 3./4. handlers

# condition text (normalised) -> list of (atom, polarity) it stands for when the branch is taken
GUARDS = {
    "match output: OutputFormat::Json": [("json", True)],
    "match output: OutputFormat::Summary": [("json", False)],
    "match output: OutputFormat::Summary if quiet": [("json", False), ("quiet", True)],
    "!quiet": [("quiet", False)],
    "json": [("json", True)],                       # only with `let json = output == OutputFormat::Json;` (checked)
    "!quiet && !json": [("quiet", False), ("json", False)],
    "quiet": [("quiet", True)],
    "dry_run": [("dryRun", True)],
    "!yes": [("yes", False)],
    "commit": [("commit", True)],
    "no_regex": [("noRegex", True)],
    "!large && !yes": [("large", False), ("yes", False)],
    "total_files > 500 || total_renames > 100": [("tooLarge", True)],
    "plan.matches.is_empty() && plan.paths.is_empty()": [("planEmpty", True)],
    "let Some(preview) = preview_content": [("previewSome", True)],
    '!response.trim().eq_ignore_ascii_case("y")': [("declined", True)],
    "!renamify_dir.exists()": [("dirMissing", True)],
    "preview.is_some() && preview != Some(Preview::None) && output == OutputFormat::Json": [("previewWithJson", True)],
    "fixed_table_width && preview.is_some() && preview != Some(Preview::Table)": [("fixedWidthMisuse", True)],
}
# negation is only defined for single-atom conditions (an `else` of a conjunction would be a disjunction)
# arms / conditions that never contain events are ignored wholesale


def map_guard(guard, where):
    lits = []
    for text, pos in guard:
        if text.startswith("match output: _"):
            raise ParseError(f"{where}: event under the wildcard arm of `match output`")
        if text not in GUARDS:
            raise ParseError(f"{where}: event under a condition the model has no atom for: {text!r}")
        atoms = GUARDS[text]
        if pos:
            lits += atoms
        else:
            if len(atoms) != 1:
                raise ParseError(f"{where}: event in the else-branch of the compound condition {text!r}")
            lits.append((atoms[0][0], not atoms[0][1]))
    return lits


def classify_payload(ev, fn_src, result_types, where):
    """payload of a stdout site: list of (extra guard lits, payload) (a value defined by `match output` is split)"""
    args = ev["args"]
    fmt = re.match(r'"((?:[^"\\]|\\.)*)"\s*(?:,\s*(.*))?$', args, re.S)
    if not fmt:
        raise ParseError(f"{where}: cannot parse print arguments {args[:60]!r}")
    template, rest = fmt.group(1), (fmt.group(2) or "").strip()
    if template != "{}":
        return [([], ("text", template[:40]))]
    m = re.fullmatch(r"(\w+)\.format_(json|summary)\(\)", rest)
    if m:
        var, kind = m.group(1), m.group(2)
        if var not in result_types:
            raise ParseError(f"{where}: type of `{var}` unknown")
        return [([], ("jsonOf" if kind == "json" else "summaryOf", result_types[var]))]
    dm = re.fullmatch(r"serde_json::to_string(_pretty)?\s*\(\s*&\s*(\w+)\s*\)\s*\??", rest)
    if dm:
        if dm.group(2) not in result_types:
            raise ParseError(f"{where}: type of `{dm.group(2)}` unknown")
        return [([], ("pretty", result_types[dm.group(2)]))]
    if re.fullmatch(r"\w+", rest):
        var = rest
        # defined by `let var = match output { Json => x.format_json(), Summary => x.format_summary() };`
        dm = re.search(r"let\s+" + var + r"\s*=\s*match\s+output\s*\{(.*?)\}\s*;", fn_src, re.S)
        if dm:
            arms = dm.group(1)
            ja = re.search(r"OutputFormat::Json\s*=>\s*(\w+)\.format_json\(\)", arms)
            sa = re.search(r"OutputFormat::Summary\s*=>\s*(\w+)\.format_summary\(\)", arms)
            if not (ja and sa and ja.group(1) == sa.group(1) and ja.group(1) in result_types):
                raise ParseError(f"{where}: `{var}` is not defined by the expected match on output")
            t = result_types[ja.group(1)]
            return [([("json", True)], ("jsonOf", t)), ([("json", False)], ("summaryOf", t))]
        dm = re.search(r"let\s+" + var + r"\s*=\s*serde_json::to_string(_pretty)?\s*\(\s*&\s*(\w+)\s*\)", fn_src)
        if dm:
            if dm.group(2) not in result_types:
                raise ParseError(f"{where}: type of `{dm.group(2)}` unknown")
            return [([], ("pretty", result_types[dm.group(2)]))]
        if re.search(r"let\s+" + var + r"\s*=\s*renamify_core::render_plan\s*\(", fn_src) or var == "preview":
            return [([], ("preview", ""))]
    raise ParseError(f"{where}: cannot classify what is printed: {args[:80]!r}")


def operation_result_type(repo, opname):
    """the T of `pub fn op(...) -> Result<T>` / `Result<(T, …)>` in renamify-core/src/**"""
    for dp, dn, fn in os.walk(os.path.join(repo, CORE)):
        for f in sorted(fn):
            if not f.endswith(".rs"):
                continue
            raw = open(os.path.join(dp, f)).read()
            if not re.search(r"\bfn\s+" + opname + r"\b", raw):
                continue
            src, b = _rs.decomment(raw), _rs.strip_cfg_test(_rs.blank(raw))
            if not re.search(r"\bpub\s+fn\s+" + opname + r"\b", b):
                continue
            _, ret, _, _ = _rs.find_fn(src, b, opname)
            m = re.match(r"Result\s*<\s*\(?\s*([\w:]+)", ret)
            if not m:
                raise ParseError(f"{opname}: unexpected return type {ret!r}")
            return m.group(1).split("::")[-1]
    raise ParseError(f"operation {opname} not found in renamify-core")


def handler_events(repo, file_rel, fn_name):
    src, b = read(repo, file_rel)
    params, ret, bo, bc = _rs.find_fn(src, b, fn_name)
    fn_src = src[bo:bc + 1]
    where = f"{os.path.basename(file_rel)}::{fn_name}"
    # types of the local result variables
    result_types = {}
    for m in re.finditer(r"let\s+(?:\(\s*)?(?:mut\s+)?(\w+)(?:\s*,\s*\w+\s*\))?\s*=\s*(?:if\s+\w+\s*\{\s*(?://[^\n]*\s*)*)?(\w+)\s*\(", _rs.blank(fn_src)):
        var, callee = m.group(1), m.group(2)
        if callee in OPERATIONS:
            result_types[var] = operation_result_type(repo, callee)
    for m in re.finditer(r"let\s+(\w+)\s*=\s*(\w+)\s*\{", _rs.blank(fn_src)):
        if re.fullmatch(r"[A-Z]\w*Result", m.group(2)):
            result_types[m.group(1)] = m.group(2)
    evs = _rs.events(src, b, bo + 1, bc, calls=OPERATIONS)
    if any(t == "json" or "!json" in t for ev in evs for t, _ in ev["guard"]) and \
            not re.search(r"let\s+json\s*=\s*output\s*==\s*OutputFormat::Json\s*;", fn_src):
        raise ParseError(f"{where}: a condition mentions `json`, which is not `let json = output == OutputFormat::Json;`")
    out = []
    site = 0
    for ev in evs:
        k = ev["kind"]
        if k == "call" and ev["name"] not in OPERATIONS:
            continue
        lits = map_guard(ev["guard"], where)
        if k == "out":
            for extra, payload in classify_payload(ev, fn_src, result_types, where):
                out.append((lits + extra, ("out", payload, ev["newline"])))
        elif k == "err":
            out.append((lits, ("err",)))
        elif k == "ret":
            if ev["value"] != "Ok(())":
                raise ParseError(f"{where}: unexpected return value {ev['value']!r}")
            out.append((lits, ("ret",)))
        elif k == "fail":
            label = ev.get("callee") or ev.get("text")
            out.append((lits, ("fail", site, label)))
            site += 1
        elif k == "call":
            out.append((lits, ("call", ev["name"])))
        elif k == "exit":
            raise ParseError(f"{where}: process::exit inside a handler")
    # the function must end by returning Ok(()) as its tail expression
    if not re.search(r"Ok\(\(\)\)\s*\}\s*$", fn_src):
        raise ParseError(f"{where}: tail expression is not Ok(())")
    forced_none = bool(re.search(r"let\s+preview_format\s*=\s*if\s+output\s*==\s*OutputFormat::Json\s*\{\s*None", re.sub(r"//[^\n]*", "", fn_src)))
    return out, [p[0] for p in params], forced_none


def parse_main(repo):
    rel = os.path.join(CLI, "main.rs")
    src, b = read(repo, rel)
    _, _, bo, bc = _rs.find_fn(src, b, "main")
    mods = set(re.findall(r"^mod\s+(\w+);", b, re.M))
    m = re.compile(r"let\s+result\s*=\s*match\s+cli\.command\s*\{").search(b, bo, bc)
    if not m:
        raise ParseError("main.rs: `let result = match cli.command {` not found")
    mo = m.end() - 1
    mc = _rs.match_close(b, mo)
    dispatch = {}
    k = mo + 1
    arm_re = re.compile(r"Commands::(\w+)\s*(\{)?")
    while True:
        am = arm_re.search(b, k, mc)
        if not am:
            break
        p = am.end()
        if am.group(2):
            p = _rs.match_close(b, am.end() - 1) + 1
        ar = re.compile(r"\s*=>\s*").match(b, p)
        if not ar:
            raise ParseError(f"main.rs: arm Commands::{am.group(1)} without =>")
        body = ar.end()
        if b[body] == "{":
            be = _rs.match_close(b, body)
        else:
            depth, be = 0, body
            while be < mc:
                ch = b[be]
                if ch in "([{":
                    depth += 1
                elif ch in ")]}":
                    depth -= 1
                elif ch == "," and depth == 0:
                    break
                be += 1
        cm = re.compile(r"\b(?:(\w+)::)?(handle_\w+)\s*\(").search(b, body, be + 1)
        if not cm:
            raise ParseError(f"main.rs: arm Commands::{am.group(1)} calls no handler")
        # stdout/exit sites inside the arm itself
        for ev in _rs.events(src, b, body, be + 1):
            if ev["kind"] in ("out", "exit"):
                raise ParseError(f"main.rs: arm Commands::{am.group(1)} writes to stdout / exits by itself")
        cop = cm.end() - 1
        ccl = _rs.match_close(b, cop)
        args = _rs.split_top(b, src, cop + 1, ccl)
        args = [norm(re.sub(r"//[^\n]*", "", a)) for a in args]
        arm_src = re.sub(r"//[^\n]*", "", src[body:be + 1])
        fmt_none = bool(re.search(r"let\s+format\s*=\s*if\s+output\s*==\s*OutputFormat::Json\s*\{\s*None", arm_src))
        dispatch[am.group(1)] = {"module": cm.group(1), "fn": cm.group(2), "args": args, "format_none_under_json": fmt_none}
        k = be + 1
    for mod in {d["module"] for d in dispatch.values() if d["module"]}:
        if mod not in mods:
            raise ParseError(f"main.rs: handler module {mod} is not declared")
    # exit mapping
    rm = re.compile(r"match\s+result\s*\{").search(b, mc, bc)
    if not rm:
        raise ParseError("main.rs: `match result {` not found")
    ro = rm.end() - 1
    rc = _rs.match_close(b, ro)
    rtext = src[ro:rc + 1]
    # the arms of `match result`: every exit with the conditions it sits under, stdout / stderr sites per arm
    INTERRUPT = {"was_interrupted", "interrupted.load(Ordering::SeqCst)"}
    arm_events = _rs.events(src, b, rm.start(), rc + 1)

    def arm_of(ev):
        g = [t for t, _ in ev["guard"]]
        if not g or not g[0].startswith("match result: "):
            raise ParseError(f"main.rs: event of `match result` outside its arms: {ev}")
        return g[0][len("match result: "):], ev["guard"][1:]
    ok_exits, ok_out, ok_err, err_exits, err_out, err_err = [], 0, 0, [], [], []
    for ev in arm_events:
        if ev["kind"] not in ("exit", "out", "err"):
            continue
        arm, inner = arm_of(ev)
        if arm == "Ok(())":
            if ev["kind"] == "out":
                ok_out += 1
            elif ev["kind"] == "err":
                ok_err += 1
            else:
                if not re.fullmatch(r"\d+", ev["code"]):
                    raise ParseError(f"main.rs: Ok arm exits with a non-literal code {ev['code']!r}")
                conds = []
                for t, pos in inner:
                    if t not in INTERRUPT or not pos:
                        raise ParseError(f"main.rs: Ok arm exits under a condition the model does not know: {t!r}")
                    conds.append(t)
                ok_exits.append((bool(conds), int(ev["code"])))
        elif arm == "Err(e)":
            if ev["kind"] == "out":
                err_out.append(ev)
            elif ev["kind"] == "err":
                err_err.append(ev)
            else:
                err_exits.append((ev["code"], [t for t, _ in inner]))
        else:
            raise ParseError(f"main.rs: unexpected arm of `match result`: {arm!r}")
    plain = [c for i, c in ok_exits if not i]
    if len(plain) != 1:
        raise ParseError(f"main.rs: Ok arm does not end in exactly one unconditional exit with a literal code: {ok_exits}")
    ok_interrupted = [c for i, c in ok_exits if i]
    if "was_interrupted" in rtext and not re.search(r"let\s+was_interrupted\s*=\s*interrupted\.load\(Ordering::SeqCst\)\s*;", src[mc:ro]):
        raise ParseError("main.rs: `was_interrupted` is not the interrupted flag read before `match result`")
    # an interrupted-flag check between the dispatch and `match result` (the shape before 279b830) pre-empts both arms
    for ev in _rs.events(src, b, mc + 1, rm.start()):
        if ev["kind"] == "exit":
            g = [t for t, _ in ev["guard"]]
            if len(g) != 1 or g[0] not in INTERRUPT or not re.fullmatch(r"\d+", ev["code"]):
                raise ParseError(f"main.rs: unexpected exit between the dispatch and `match result`: {ev}")
            ok_interrupted.append(int(ev["code"]))
        elif ev["kind"] == "out":
            raise ParseError("main.rs: stdout emission between the dispatch and `match result`")
    if [e for e in err_exits if e != ("exit_code", [])]:
        raise ParseError(f"main.rs: Err arm does not simply exit with its own exit_code: {err_exits}")
    if not err_exits:
        raise ParseError("main.rs: Err arm does not exit")
    chain = re.search(r"let\s+exit_code\s*=\s*(.*?);\s*(?:std::)?process::exit\(exit_code\)", rtext, re.S)
    if not chain:
        raise ParseError("main.rs: exit_code chain not found")
    rules = []
    ctext = re.sub(r"//[^\n]*", "", chain.group(1))
    parts = re.findall(r"if\s+(.*?)\{\s*(\d+)\s*\}", ctext, re.S)
    dm = re.search(r"else\s*\{\s*(\d+)\s*\}\s*$", ctext.strip(), re.S)
    if not parts or not dm:
        raise ParseError("main.rs: cannot parse the exit_code chain")
    for cond, code in parts:
        needles = re.findall(r'e\.to_string\(\)\.contains\("([^"]*)"\)', cond)
        if not needles or "&&" in cond:
            raise ParseError(f"main.rs: unsupported exit condition {norm(cond)!r}")
        rules.append((needles, int(code)))
    # the error-document emitter, if main.rs has one:
    #   fn emit_json_error(json_output: bool, message: &str) { if json_output { println!("{}", serde_json::json!({…})); } }
    EMIT = "emit_json_error"
    emitter = None
    if re.search(r"\bfn\s+" + EMIT + r"\b", b):
        eps, _, eo, ec = _rs.find_fn(src, b, EMIT)
        eevs = [e for e in _rs.events(src, b, eo + 1, ec) if e["kind"] in ("out", "exit", "fail", "ret")]
        if len(eevs) != 1 or eevs[0]["kind"] != "out" or [t for t, p in eevs[0]["guard"] if p] != [eps[0][0]] or not eevs[0]["newline"]:
            raise ParseError(f"main.rs: {EMIT} is not `if <first parameter> {{ println!(…) }}`: {eevs}")
        am = re.fullmatch(r'"\{\}"\s*,\s*(?:serde_json::)?json!\s*\((\{.*\})\s*\)\s*,?', eevs[0]["args"], re.S)
        if not am:
            raise ParseError(f"main.rs: {EMIT} does not print a json! literal: {eevs[0]['args'][:80]!r}")
        lit = am.group(1)
        lb = _rs.blank(lit)
        emitter = {"shape": json_macro_shape(None, EMIT, lit, lb, 0, _rs.match_close(lb, 0)), "flag_param": eps[0][0]}
        # the flag every call site passes must be `--output json` of the parsed command line
        if not re.search(r"let\s+json_output\s*=\s*wants_json\s*\(\s*&\s*cli\.command\s*\)\s*;", src[bo:mo]):
            raise ParseError("main.rs: `let json_output = wants_json(&cli.command);` not found before the dispatch")
        _, _, wo, wc = _rs.find_fn(src, b, "wants_json")
        wtext = norm(src[wo:wc])
        for Cap in (c.capitalize() for c in COMMANDS):
            if not re.search(r"Commands::" + Cap + r"\s*\{\s*output:\s*OutputFormat::Json\s*,?\s*(?:\.\.)?\s*,?\s*\}", wtext):
                raise ParseError(f"main.rs: wants_json does not test `output: OutputFormat::Json` of Commands::{Cap}")

    def with_emit_flags(evs, label, keep_guard):
        """(fn, code, guards, preceded by emit_json_error(json_output, …) under the same conditions) for every exit"""
        res, last_call = [], None
        for ev in evs:
            if ev["kind"] == "call" and ev["name"] == EMIT:
                last_call = ev
            elif ev["kind"] == "exit":
                flagged = bool(last_call) and last_call["guard"] == ev["guard"]
                if flagged:
                    arg0 = norm(src[last_call["pos"]:last_call["pos"] + 200]).split("(", 1)[1].split(",", 1)[0].strip()
                    if arg0 != "json_output":
                        raise ParseError(f"main.rs: {EMIT} is called with {arg0!r} instead of json_output")
                res.append((label, ev["code"], keep_guard([t for t, _ in ev["guard"]]), flagged))
                last_call = None
        return res
    calls = (EMIT,) if emitter else ()
    # exits before the dispatch (in main and in the init helpers it calls)
    pre_evs = _rs.events(src, b, bo + 1, mo, calls=calls)
    for ev in pre_evs:
        if ev["kind"] == "out":
            raise ParseError("main.rs: stdout emission before the dispatch")
    pre = with_emit_flags(pre_evs, "main", lambda g: g)
    helper_out = {}
    for fn in ("check_and_auto_init", "do_init", "prompt_for_init_with_input", "prompt_for_init", "is_renamify_ignored",
               "find_git_dir", "get_global_excludes_path", "is_in_git_repo", "is_file_tracked"):
        _, _, ho, hc = _rs.find_fn(src, b, fn)
        evs = _rs.events(src, b, ho + 1, hc, calls=calls)
        helper_out[fn] = len([e for e in evs if e["kind"] == "out"])
        pre += with_emit_flags(evs, fn, lambda g: g[-1:])
    err_arm_doc = False
    if emitter:
        ecalls = [e for e in _rs.events(src, b, rm.start(), rc + 1, calls=calls) if e["kind"] == "call" and e["name"] == EMIT]
        in_err = [e for e in ecalls if [t for t, _ in e["guard"]] == ["match result: Err(e)"]]
        if len(ecalls) != len(in_err) or len(in_err) > 1:
            raise ParseError(f"main.rs: {EMIT} is called in `match result` other than once, unconditionally, in the Err arm")
        err_arm_doc = len(in_err) == 1
        if err_arm_doc and "json_output" not in norm(src[in_err[0]["pos"]:in_err[0]["pos"] + 60]).split(",")[0]:
            raise ParseError(f"main.rs: the Err arm does not pass json_output to {EMIT}")
    # clap rejecting the argv: `Cli::parse()` exits by itself; `Cli::try_parse().unwrap_or_else(|e| { … emit_json_error(…) … e.exit() })`
    # may print the error document first
    clap_doc = False
    cm = re.compile(r"Cli::try_parse\(\)\s*\.unwrap_or_else\s*\(").search(b, bo, mo)
    if cm:
        cc = _rs.match_close(b, cm.end() - 1)
        clap_doc = bool(emitter) and EMIT + "(" in re.sub(r"\s+", "", src[cm.end():cc]) and "e.exit()" in re.sub(r"\s+", "", src[cm.end():cc])
    elif not re.compile(r"Cli::parse\(\)").search(b, bo, mo):
        raise ParseError("main.rs: neither Cli::parse() nor Cli::try_parse().unwrap_or_else(…) found")
    # every call of the emitter anywhere in main.rs must be directly followed, under the same conditions, by the exit of the
    # process (`process::exit`, or clap's `e.exit()` inside the try_parse closure): a call whose function then RETURNS lets a
    # caller report the same failure again — two documents
    unpaired = []
    if emitter:
        clap_range = (cm.end(), cc) if cm else (0, 0)
        for fm in re.finditer(r"\bfn\s+(\w+)\s*(?:<[^>]*>)?\s*\(", b):
            fname = fm.group(1)
            if fname == EMIT:
                continue
            pc = _rs.match_close(b, fm.end() - 1)
            fo = b.find("{", pc)
            semi = b.find(";", pc)
            if fo < 0 or (0 <= semi < fo):
                continue
            fc = _rs.match_close(b, fo)
            evs = [e for e in _rs.events(src, b, fo + 1, fc, calls=(EMIT,)) if e["kind"] in ("call", "exit", "out", "ret", "fail")]
            for i, e in enumerate(evs):
                if e["kind"] != "call" or e["name"] != EMIT:
                    continue
                if clap_range[0] <= e["pos"] < clap_range[1]:
                    continue                      # followed by clap's own e.exit() (checked above: clap_doc)
                nxt = [x for x in evs[i + 1:] if x["guard"][:len(e["guard"])] == e["guard"]]
                # the `?`/fail events of the arguments of the call itself sit before it; the next event must be the exit
                if not nxt or nxt[0]["kind"] != "exit" or nxt[0]["guard"] != e["guard"]:
                    unpaired.append((fname, (e["guard"][-1][0] if e["guard"] else "")))
    return {"unpaired_emit": unpaired,
            "dispatch": dispatch, "ok_code": plain[0], "ok_interrupted": ok_interrupted, "ok_arm_stdout": ok_out,
            "rules": rules, "default": int(dm.group(1)),
            "err_arm_stdout": len(err_out), "err_arm_stderr": len(err_err), "pre_exits": pre,
            "helper_stdout": helper_out, "emitter": emitter, "err_arm_doc": err_arm_doc, "clap_doc": clap_doc}


def child_process_sites(repo):
    """every `Command::new(…)` of the non-test core + CLI sources: (file, fn, program, how it is run, stdout redirected)
    how = output (captured) | status | spawn (both inherit our stdout unless `.stdout(…)` is set) | unknown"""
    res = []
    for base in (CORE, CLI):
        root = os.path.join(repo, base)
        test_mods = set()
        for top in ("main.rs", "lib.rs"):
            p = os.path.join(root, top)
            if os.path.exists(p):
                test_mods |= set(re.findall(r"#\[cfg\(test\)\]\s*(?:pub\s+)?mod\s+(\w+)\s*;", open(p).read()))
        for dp, dn, fns in os.walk(root):
            dn.sort()
            for fnm in sorted(fns):
                if not fnm.endswith(".rs") or fnm[:-3] in test_mods:
                    continue
                raw = open(os.path.join(dp, fnm)).read()
                if "Command::new" not in raw:
                    continue
                src, b = _rs.decomment(raw), _rs.strip_cfg_test(_rs.blank(raw))
                rel = os.path.relpath(os.path.join(dp, fnm), os.path.join(repo))
                fn_starts = [(m.start(), m.group(1)) for m in re.finditer(r"\bfn\s+(\w+)", b)]
                for m in re.finditer(r"\bCommand::new\s*\(", b):
                    cl = _rs.match_close(b, m.end() - 1)
                    prog = norm(src[m.end():cl])[:30]
                    depth, q = 0, cl + 1
                    while q < len(b):
                        ch = b[q]
                        if ch in "([{":
                            depth += 1
                        elif ch in ")]}":
                            if depth == 0:
                                break
                            depth -= 1
                        elif ch == ";" and depth == 0:
                            break
                        q += 1
                    chain = re.sub(r"\s+", "", b[cl:q])
                    how = "output" if ".output()" in chain else "status" if ".status()" in chain else "spawn" if ".spawn()" in chain else "unknown"
                    owner = [n for p0, n in fn_starts if p0 < m.start()]
                    res.append((rel, owner[-1] if owner else "?", prog, how, ".stdout(" in chain))
    return res


def core_stdout_sites(repo):
    sites, debug = [], 0
    root = os.path.join(repo, CORE)
    for dp, dn, fns in os.walk(root):
        dn.sort()
        for f in sorted(fns):
            if not f.endswith(".rs") or f.endswith("_tests.rs") or f == "tests.rs":
                continue
            rel = os.path.relpath(os.path.join(dp, f), root)
            raw = open(os.path.join(dp, f)).read()
            src, b = _rs.decomment(raw), _rs.strip_cfg_test(_rs.blank(raw))
            if not (_rs.STDOUT_RE.search(b) or _rs.STDOUT_WRITE_RE.search(b)):
                continue
            for fm in re.finditer(r"\bfn\s+(\w+)\s*(?:<[^>]*>)?\s*\(", b):
                pc = _rs.match_close(b, fm.end() - 1)
                bo = b.find("{", pc)
                semi = b.find(";", pc)
                if bo < 0 or (0 <= semi < bo):
                    continue
                bc = _rs.match_close(b, bo)
                for ev in _rs.events(src, b, bo + 1, bc):
                    if ev["kind"] != "out":
                        continue
                    # skip sites that belong to a nested fn (they are reported with that fn)
                    inner = [m2 for m2 in re.finditer(r"\bfn\s+\w+", b[bo + 1:ev["pos"]])]
                    if inner:
                        nested = False
                        for m2 in inner:
                            nb = b.find("{", bo + 1 + m2.end())
                            if nb >= 0 and nb < ev["pos"] <= _rs.match_close(b, nb):
                                nested = True
                        if nested:
                            continue
                    guards = [("" if pos else "not ") + t for t, pos in ev["guard"]]
                    if any("env::var(" in g and "DEBUG" in g for g in guards):
                        debug += 1
                    else:
                        sites.append((rel, fm.group(1), guards, ev["macro"]))
    # how many call sites each emitting fn has in the non-test sources of the core and the CLI
    texts = []
    for base in (CORE, CLI):
        for dp, dn, fns in os.walk(os.path.join(repo, base)):
            dn.sort()
            for f in sorted(fns):
                if f.endswith(".rs"):
                    texts.append(_rs.strip_cfg_test(_rs.blank(open(os.path.join(dp, f)).read())))
    counted = []
    for rel, fn, guards, macro in sites:
        calls = sum(len(re.findall(r"(?<!fn )(?<![\w])" + re.escape(fn) + r"\s*\(", t)) for t in texts)
        counted.append((rel, fn, guards, macro, calls))
    return counted, debug


# ---------------------------------------------------------------------------------------------------
# rendering

def nm(s):
    s = s.replace("\\", "/").replace('"', "'")
    s = "".join(ch if 32 <= ord(ch) < 127 else "?" for ch in s)
    return f'n!"{s}"'


def lean_shape(t):
    k = t[0]
    if k in ("str", "num", "bool", "null", "any"):
        return "." + k
    if k == "lit":
        return f"(.lit {nm(t[1])})"
    if k in ("arr", "map", "fallible"):
        return f"(.{k} {lean_shape(t[1])})"
    if k in ("tuple", "oneOf"):
        return f"(.{k} [" + ", ".join(lean_shape(x) for x in t[1]) + "])"
    if k == "obj":
        return "(.obj [" + ", ".join(f"({nm(n)}, .{p}, {lean_shape(x)})" for n, p, x in t[1]) + "])"
    if k == "ref":
        return f"(.ref {nm(t[1])})"
    raise ParseError(f"cannot render shape {t!r}")


def lean_lits(lits):
    return "[" + ", ".join(f"⟨.{a}, {'true' if p else 'false'}⟩" for a, p in lits) + "]"


def lean_ev(ev):
    k = ev[0]
    if k == "out":
        kind, arg = ev[1]
        pl = {"jsonOf": f"(.jsonOf {nm(arg)})", "pretty": f"(.pretty {nm(arg)})", "summaryOf": f"(.summaryOf {nm(arg)})",
              "preview": ".preview", "text": ".text"}[kind]
        return f".out {pl} {'true' if ev[2] else 'false'}"
    if k == "err":
        return ".err"
    if k == "ret":
        return ".ret"
    if k == "fail":
        return f".fail {ev[1]} {nm(ev[2][:48])}"
    if k == "call":
        return f".call {nm(ev[1])}"
    raise ParseError(f"cannot render event {ev!r}")


def extract(repo=None):
    repo = repo or common.REPO
    types = Types(repo)
    fj = format_json_shapes(repo, types)
    main = parse_main(repo)
    cmd_of = {c.capitalize(): c for c in COMMANDS}
    missing = [c for c in cmd_of if c not in main["dispatch"]]
    if missing:
        raise ParseError(f"main.rs: no dispatch arm for {missing}")
    handlers = {}
    rows = []
    for Cap, cmd in cmd_of.items():
        d = main["dispatch"][Cap]
        file_rel = os.path.join(CLI, (d["module"] + ".rs") if d["module"] else "main.rs")
        key = (d["module"] or "main") + "::" + d["fn"]
        if key not in handlers:
            evs, params, forced_none = handler_events(repo, file_rel, d["fn"])
            handlers[key] = {"events": evs, "params": params, "preview_none_under_json": forced_none}
        h = handlers[key]
        if len(d["args"]) != len(h["params"]):
            raise ParseError(f"main.rs: {key} called with {len(d['args'])} arguments, declared {len(h['params'])}")
        bind = dict(zip(h["params"], d["args"]))
        replace_empty = bind.get("replace") == '""' or bind.get("replacement") == '""'
        forced_dry = bind.get("dry_run") == "true"
        for p in ("output", "quiet"):
            if p in h["params"] and bind[p] != p:
                raise ParseError(f"main.rs: {key}: parameter {p} is bound to {bind[p]!r}, not to the CLI flag")
        if "dry_run" in h["params"] and bind["dry_run"] not in ("dry_run", "true"):
            raise ParseError(f"main.rs: {key}: dry_run bound to {bind['dry_run']!r}")
        rows.append((cmd, key, replace_empty, forced_dry, d["format_none_under_json"] or h["preview_none_under_json"]))
    # every Plan-carrying result type must be loaded
    for t in ("Plan",):
        types.shape_of(t)
    sites, debug = core_stdout_sites(repo)
    children = child_process_sites(repo)
    return {"children": children,"types": types.cache, "format_json": fj, "main": main, "handlers": handlers, "rows": rows,
            "core_sites": sites, "core_debug_sites": debug, "always_some": types.some_cache, "some_sites": types.some_sites}


def run():
    x = extract()
    L = ["import RModel.Model.OutputTypes",
         "/- GENERATED by translate/output_shapes.py from renamify-core/src/{output,scanner,case_model}.rs, renamify-cli/src/*.rs",
         "   and the stdout sites of renamify-core/src — do not edit -/",
         "namespace Gen", "open Output", "",
         "/-- serde shape of every struct / enum reachable from a result type -/",
         "def rustShapes : List (Name × JsonShape) := ["]
    names = sorted(x["types"])
    L += [f"  ({nm(n)}, {lean_shape(x['types'][n])})" + ("," if i + 1 < len(names) else "") for i, n in enumerate(names)]
    L += ["]", "", "/-- the document `T::format_json()` builds (from the `json!` literal, or T's own serde shape) -/",
          "def formatJsonShapes : List (Name × JsonShape) := ["]
    if x["main"]["emitter"]:
        x["format_json"]["main::emit_json_error"] = (x["main"]["emitter"]["shape"], "json! in main.rs::emit_json_error, printed if --output json")
    fj = sorted(x["format_json"])
    L += [f"  ({nm(n)}, {lean_shape(x['format_json'][n][0])})" + ("," if i + 1 < len(fj) else "") + f"  -- {x['format_json'][n][1]}"
          for i, n in enumerate(fj)]
    somes = sorted(k for k, v in x["always_some"].items() if v)
    L += ["]", "",
          "/-- Option-typed members that are `Some(…)` at every construction site of the struct (so `json!` never renders them null):",
          "    (struct, member, number of construction sites) -/",
          "def alwaysSome : List (Name × Name × Nat) := [" + ", ".join(
              f"({nm(s)}, {nm(f)}, {x['some_sites'][(s, f)]})" for s, f in somes) + "]", "",
          "/-- main.rs dispatch: (command, handler, replacement bound to \"\", dry_run bound to true, preview forced to None under --output json) -/",
          "def dispatch : List (Cmd × Name × Bool × Bool × Bool) := ["]
    L += [f"  (.{c}, {nm(h)}, {'true' if re_ else 'false'}, {'true' if fd else 'false'}, {'true' if pn else 'false'})"
          + ("," if i + 1 < len(x["rows"]) else "") for i, (c, h, re_, fd, pn) in enumerate(x["rows"])]
    L += ["]", "", "/-- ordered guarded events of each handler body -/",
          "def handlerEvents : List (Name × List GEv) := ["]
    hs = sorted(x["handlers"])
    for i, h in enumerate(hs):
        evs = x["handlers"][h]["events"]
        L.append(f"  ({nm(h)}, [")
        L += [f"    ⟨{lean_lits(g)}, {lean_ev(ev)}⟩" + ("," if j + 1 < len(evs) else "") for j, (g, ev) in enumerate(evs)]
        L.append("  ])" + ("," if i + 1 < len(hs) else ""))
    m = x["main"]
    L += ["]", "",
          "/-- main.rs `match result`: exit code of the Ok arm; Err arm: (substrings of the message, code) in order, default code;",
          "    number of stdout / stderr emission sites in the Err arm -/",
          f"def exitOk : Nat := {m['ok_code']}",
          "/-- codes with which main leaves after a command that returned Ok when the interrupted flag is set (SIGINT/SIGTERM",
          "    arrived meanwhile); a command that returned Err always reports its own code (checked by the translator) -/",
          "def exitOkInterrupted : List Nat := [" + ", ".join(str(c) for c in m["ok_interrupted"]) + "]",
          f"def okArmStdoutSites : Nat := {m['ok_arm_stdout']}",
          "def exitRules : List (List Name × Nat) := [" + ", ".join(
              "([" + ", ".join(nm(n) for n in needles) + f"], {code})" for needles, code in m["rules"]) + "]",
          f"def exitDefault : Nat := {m['default']}",
          f"def errArmStdoutSites : Nat := {m['err_arm_stdout']}",
          f"def errArmStderrSites : Nat := {m['err_arm_stderr']}",
          "/-- the Err arm calls `emit_json_error(json_output, …)`: under --output json a failing command prints the error document",
          "    `main::emit_json_error` (see formatJsonShapes) on stdout, besides the message on stderr -/",
          f"def errArmJsonDoc : Bool := {'true' if m['err_arm_doc'] else 'false'}",
          "/-- clap's rejection of the argv goes through `Cli::try_parse().unwrap_or_else(|e| { … emit_json_error(…) … e.exit() })` -/",
          f"def clapErrorJsonDoc : Bool := {'true' if m['clap_doc'] else 'false'}",
          "/-- calls of the error-document emitter in main.rs that are NOT directly followed by the exit of the process under the",
          "    same conditions: (fn, innermost condition) -/",
          "def unpairedErrorDocCalls : List (Name × Name) := [" + ", ".join(f"({nm(a)}, {nm(g[:60])})" for a, g in m["unpaired_emit"]) + "]",
          "",
          "/-- `process::exit` sites reached before the dispatch: (fn, code text, innermost guard text, the exit is preceded by",
          "    `emit_json_error(json_output, …)` under the same conditions) -/",
          "def preDispatchExits : List (Name × Name × List Name × Bool) := ["]
    L += [f"  ({nm(fn)}, {nm(code)}, [" + ", ".join(nm(g[:60]) for g in guards) + f"], {'true' if fl else 'false'})"
          + ("," if i + 1 < len(m["pre_exits"]) else "") for i, (fn, code, guards, fl) in enumerate(m["pre_exits"])]
    L += ["]", "", "/-- stdout emission sites in main's init helpers (all their messages go to stderr) -/",
          "def initHelperStdoutSites : List (Name × Nat) := [" + ", ".join(
              f"({nm(k)}, {v})" for k, v in sorted(m["helper_stdout"].items())) + "]",
          "",
          "/-- stdout emission sites of renamify-core/src outside `RENAMIFY_DEBUG_*` guards:",
          "    (file, fn, guard texts, number of call sites of that fn in the non-test core + CLI sources) -/",
          "def coreStdoutSites : List (Name × Name × List Name × Nat) := ["]
    L += [f"  ({nm(f)}, {nm(fn)}, [" + ", ".join(nm(g[:70]) for g in guards) + f"], {calls})" + ("," if i + 1 < len(x["core_sites"]) else "")
          for i, (f, fn, guards, macro, calls) in enumerate(x["core_sites"])]
    L += ["]", f"def coreDebugGatedSites : Nat := {x['core_debug_sites']}", "",
          "/-- every `Command::new(…)` of the non-test core + CLI sources: (file, fn, program, how it is run, `.stdout(…)` set);",
          "    `status` / `spawn` without a redirect let the child write to OUR stdout -/",
          "def childProcessSites : List (Name × Name × Name × Name × Bool) := ["]
    L += [f"  ({nm(a)}, {nm(fn_)}, {nm(pr)}, {nm(how)}, {'true' if red else 'false'})" + ("," if i + 1 < len(x["children"]) else "")
          for i, (a, fn_, pr, how, red) in enumerate(x["children"])]
    L += ["]", "", "end Gen", ""]
    return [("Gen/OutputShapes.lean", common.write_if_changed(os.path.join(common.LEAN, "RModel/Gen/OutputShapes.lean"), "\n".join(L)))]
