"""argv builders of the MCP server and the VS Code extension  ->  lean/RModel/Gen/Wrappers.lean   (C20)

Reads `renamify-mcp/src/renamify-service.ts` and `renamify-vscode/extension/src/{cliService,types}.ts`.
A *builder* is a method that creates an argument vector (`const args = [...]`, or an array literal passed
straight to `executeCommand` / `runCli` / `runCliDirect` / `execa(this.renamifyPath, ..)`) whose first
element is a subcommand name.  For every builder the translator extracts

  * the fields it reads (parameters, `options.*` members with their TS types, `config.get('..')` settings),
  * the guarded pushes in order: condition (`x`, `x === false`, `x !== undefined`, `x?.length`,
    `x && x.length > 0`, `a || b`, `!x`, `else` branches) and tokens (literals, `x`, `x.toString()`,
    `x.join(',')`, `...x`, loop variable of `for (const p of x)`, `x || 'lit'`),
    with private helper methods `this.addFoo(args, options.bar)` inlined,
  * representative values per field (see `reps_for`).

Any statement shape it does not understand raises `WrapperError` (a broken tie, DESIGN.md 2.2).
It also writes `.cache/c20/builders.mjs`: the *real* method bodies with the type annotations stripped,
so the check can execute the original TypeScript logic under node and compare the argv.
"""
import json
import os
import re

from checks import common

OUT = os.path.join(common.LEAN, "RModel", "Gen", "Wrappers.lean")
JS_OUT = os.path.join(common.CACHE, "c20", "builders.mjs")
IR_OUT = os.path.join(common.CACHE, "c20", "wrappers.json")


class WrapperError(Exception):
    pass


# ---------------------------------------------------------------------------------------------------
# lexical helpers

def skip_string(s, i):
    """s[i] is a quote; index after the closing quote"""
    q, j, n = s[i], i + 1, len(s)
    while j < n and s[j] != q:
        if s[j] == "\\":
            j += 1
        elif q == "`" and s.startswith("${", j):
            j = match_close(s, j + 1, "{", "}")
        j += 1
    return j + 1


def strip_comments(s):
    out, i, n = [], 0, len(s)
    while i < n:
        c = s[i]
        if c in "'\"`":
            j = skip_string(s, i)
            out.append(s[i:j]); i = j
        elif s.startswith("//", i):
            j = s.find("\n", i)
            i = n if j < 0 else j
        elif s.startswith("/*", i):
            j = s.find("*/", i)
            i = n if j < 0 else j + 2
        else:
            out.append(c); i += 1
    return "".join(out)


def match_close(s, i, o, c):
    depth, j, n = 0, i, len(s)
    while j < n:
        ch = s[j]
        if ch in "'\"`":
            j = skip_string(s, j); continue
        if ch == o:
            depth += 1
        elif ch == c:
            depth -= 1
            if depth == 0:
                return j
        j += 1
    raise WrapperError(f"unbalanced {o}{c} at {i}: {s[i:i+60]!r}")


def split_top(s, sep):
    parts, depth, cur, i, n = [], 0, [], 0, len(s)
    while i < n:
        ch = s[i]
        if ch in "'\"`":
            j = skip_string(s, i)
            cur.append(s[i:j]); i = j; continue
        if ch in "([{":
            depth += 1
        elif ch in ")]}":
            depth -= 1
        if depth == 0 and s.startswith(sep, i) and not (sep == "|" and (s.startswith("||", i) or (i > 0 and s[i - 1] == "|"))):
            parts.append("".join(cur)); cur = []; i += len(sep); continue
        cur.append(ch); i += 1
    parts.append("".join(cur))
    return [p.strip() for p in parts]


def str_lit(e):
    m = re.match(r"""^(['"])((?:(?!\1)[^\\])*)\1$""", e.strip())
    return m.group(2) if m else None


# ---------------------------------------------------------------------------------------------------
# TypeScript types

def parse_ts_type(t, where):
    t = t.strip().rstrip(";").strip()
    if t == "boolean":
        return ("bool",)
    if t == "string":
        return ("str",)
    if t == "number":
        return ("num",)
    if t in ("string[]", "Array<string>"):
        return ("strList",)
    lits = [str_lit(x) for x in split_top(t, "|") if x]
    if lits and all(l is not None for l in lits):
        return ("enum", lits)
    raise WrapperError(f"{where}: TS type {t!r} not understood")


def parse_object_type(body, where):
    """`a?: T; b: T;` -> ordered [(name, optional, type)]"""
    fields = []
    for part in re.split(r"[;\n]", body):
        part = part.strip().rstrip(",")
        if not part:
            continue
        m = re.match(r"(\w+)(\?)?\s*:\s*(.+)$", part, re.S)
        if not m:
            raise WrapperError(f"{where}: member {part!r} not understood")
        fields.append((m.group(1), bool(m.group(2)), parse_ts_type(m.group(3), f"{where}.{m.group(1)}")))
    return fields


def type_aliases(src, where):
    """`export type X = { ... };` object aliases of a file"""
    out = {}
    for m in re.finditer(r"(?:export\s+)?type\s+(\w+)\s*=\s*\{", src):
        start = m.end() - 1
        end = match_close(src, start, "{", "}")
        try:
            out[m.group(1)] = parse_object_type(src[start + 1:end], f"{where}:{m.group(1)}")
        except WrapperError:
            out[m.group(1)] = None            # not an options type (e.g. has nested objects); only an error if used
    return out


def resolve_param_type(t, aliases, where):
    """type of a parameter -> ('scalar', ty) | ('object', fields)"""
    t = t.strip()
    parts = split_top(t, "&")
    if len(parts) > 1 or t.startswith("{") or t in aliases:
        fields = []
        for p in parts:
            if p.startswith("{"):
                fields += parse_object_type(p[1:match_close(p, 0, "{", "}")], where)
            elif p in aliases:
                if aliases[p] is None:
                    raise WrapperError(f"{where}: options type {p} not understood")
                fields += aliases[p]
            else:
                raise WrapperError(f"{where}: type {p!r} not understood")
        return ("object", fields)
    return ("scalar", parse_ts_type(t, where))


# ---------------------------------------------------------------------------------------------------
# methods

METHOD_RE = re.compile(r"\n  (?:(?:private|public|protected)\s+)?(?:(?:async|static|readonly)\s+)*(\w+)\s*\(")


def class_methods(src):
    """name -> (param source, body source)"""
    out = {}
    for m in METHOD_RE.finditer(src):
        name = m.group(1)
        if name in ("if", "for", "while", "switch", "catch", "function", "return", "constructor"):
            continue
        p0 = m.end() - 1
        p1 = match_close(src, p0, "(", ")")
        # skip the return type: a `{` right after `:`, `<`, `|`, `&`, `,` or `(` opens a type literal, not the body
        j, prev, b0 = p1 + 1, "", None
        while j < len(src):
            ch = src[j]
            if ch.isspace():
                j += 1; continue
            if ch == "{":
                if prev in (":", "<", "|", "&", ",", "("):
                    j = match_close(src, j, "{", "}") + 1
                    prev = "}"
                    continue
                b0 = j
                break
            if ch in ";=" and prev != "=":
                if ch == ";" or src[j + 1] != ">":
                    break
            prev = ch
            j += 1
        if b0 is None:
            continue
        b1 = match_close(src, b0, "{", "}")
        out[name] = (src[p0 + 1:p1], src[b0 + 1:b1])
    return out


def parse_params(psrc, aliases, where):
    params = []
    for p in split_top(psrc, ","):
        if not p:
            continue
        m = re.match(r"(\w+)(\?)?\s*:\s*(.+)$", p, re.S)
        if not m:
            raise WrapperError(f"{where}: parameter {p!r} not understood")
        params.append((m.group(1), bool(m.group(2)), m.group(3).strip()))
    return params


# ---------------------------------------------------------------------------------------------------
# statements -> steps

class Env:
    """what identifiers mean inside a builder body"""

    def __init__(self, where):
        self.where = where
        self.fields = []          # ordered: dict(name, ty, optional)
        self.bind = {}            # identifier / `options.x` -> field name
        self.objects = set()      # identifiers that are option objects
        self.config_vars = set()  # identifiers bound to vscode.workspace.getConfiguration(..)
        self.elem = None          # loop variable
        self.functions = {}       # module-level pure helpers: name -> JS source

    def field(self, name, ty=None, optional=True):
        for f in self.fields:
            if f["name"] == name:
                return f
        if ty is None:
            raise WrapperError(f"{self.where}: unknown field {name}")
        f = {"name": name, "ty": ty, "optional": optional}
        self.fields.append(f)
        return f

    def index(self, name):
        for i, f in enumerate(self.fields):
            if f["name"] == name:
                return i
        raise WrapperError(f"{self.where}: unknown field {name}")

    def ref(self, e):
        """expression naming a field -> field name, or None"""
        e = e.strip()
        if e in self.bind:
            return self.bind[e]
        m = re.match(r"(\w+)\.(\w+)$", e)
        if m and m.group(1) in self.objects:
            key = f"{m.group(1)}.{m.group(2)}"
            if key in self.bind:
                return self.bind[key]
            raise WrapperError(f"{self.where}: {e} is not a member of the options type")
        m = re.match(r"(\w+)\.get(?:<\w+>)?\(\s*(['\"])(\w+)\2\s*\)$", e)
        if m and m.group(1) in self.config_vars:
            name = f"config.{m.group(3)}"
            self.field(name, ("bool",), True)
            self.bind[name] = name
            return name
        return None


def parse_cond(e, env):
    e = e.strip()
    while e.startswith("(") and match_close(e, 0, "(", ")") == len(e) - 1:
        e = e[1:-1].strip()
    parts = split_top(e, "||")
    if len(parts) > 1:
        c = parse_cond(parts[0], env)
        for p in parts[1:]:
            c = ("or", c, parse_cond(p, env))
        return c
    parts = split_top(e, "&&")
    if len(parts) > 1:
        # `x && x.length > 0`  ==  `x?.length`
        if len(parts) == 2:
            f = env.ref(parts[0])
            m = re.match(r"(.+?)\.length\s*>\s*0$", parts[1])
            if f and m and env.ref(m.group(1)) == f:
                return ("nonEmpty", env.index(f))
        c = parse_cond(parts[0], env)
        for p in parts[1:]:
            c = ("and", c, parse_cond(p, env))
        return c
    if e.startswith("!") and not e.startswith("!="):
        return ("not", parse_cond(e[1:], env))
    m = re.match(r"(.+?)\s*===\s*(['\"][^'\"]*['\"])$", e)
    if m and env.ref(m.group(1)) and env.field(env.ref(m.group(1)))["ty"][0] in ("str", "enum"):
        return ("isLit", env.index(env.ref(m.group(1))), str_lit(m.group(2)))
    m = re.match(r"(.+?)\s*===\s*false$", e)
    if m and env.ref(m.group(1)):
        return ("isFalse", env.index(env.ref(m.group(1))))
    m = re.match(r"(.+?)\s*!==\s*undefined$", e)
    if m and env.ref(m.group(1)):
        return ("defined", env.index(env.ref(m.group(1))))
    m = re.match(r"(.+?)\?\.length$", e) or re.match(r"(.+?)\.length\s*>\s*0$", e)
    if m and env.ref(m.group(1)):
        return ("nonEmpty", env.index(env.ref(m.group(1))))
    f = env.ref(e)
    if f:
        return ("truthy", env.index(f))
    raise WrapperError(f"{env.where}: condition {e!r} not understood")


def parse_tok(e, env):
    e = e.strip()
    s = str_lit(e)
    if s is not None:
        return ("lit", s)
    m = re.match(r"^`--([A-Za-z][\w-]*)=\$\{([^{}]+)\}`$", e)
    if m:
        inner = parse_tok(m.group(2), env)
        if inner[0] not in ("val", "elem", "joined"):
            raise WrapperError(f"{env.where}: value of {e!r} not understood")
        return ("attach", m.group(1), inner)
    if e.startswith("..."):
        f = env.ref(e[3:])
        if f and env.field(f)["ty"][0] == "strList":
            return ("spread", env.index(f))
        raise WrapperError(f"{env.where}: spread {e!r} not understood")
    if env.elem and e == env.elem:
        return ("elem",)
    m = re.match(r"(.+?)\.join\(\s*(['\"])(.)\2\s*\)$", e)
    if m and env.ref(m.group(1)) and env.field(env.ref(m.group(1)))["ty"][0] == "strList":
        return ("joined", env.index(env.ref(m.group(1))), m.group(3))
    m = re.match(r"(.+?)\.toString\(\)$", e)
    if m and env.ref(m.group(1)) and env.field(env.ref(m.group(1)))["ty"][0] == "num":
        return ("val", env.index(env.ref(m.group(1))))
    parts = split_top(e, "||")
    if len(parts) == 2 and env.ref(parts[0]) and str_lit(parts[1]) is not None:
        if env.field(env.ref(parts[0]))["ty"][0] != "str":
            raise WrapperError(f"{env.where}: `{e}` on a non-string")
        return ("orLit", env.index(env.ref(parts[0])), str_lit(parts[1]))
    f = env.ref(e)
    if f:
        ty = env.field(f)["ty"][0]
        if ty in ("str", "enum"):
            return ("val", env.index(f))
        raise WrapperError(f"{env.where}: {e} of type {ty} pushed without conversion")
    raise WrapperError(f"{env.where}: pushed expression {e!r} not understood")


def conj(a, b):
    if a == ("always",):
        return b
    if b == ("always",):
        return a
    return ("and", a, b)


END_RE = re.compile(r"^(?:return\s+args|(?:return\s+)?(?:await\s+)?(?:const\s+\w+\s*=\s*(?:await\s+)?)?"
                    r"(?:this\.\w+|execa)\s*\((?:[^()]*,\s*)?args\b)")


def parse_block(body, env, cond, helpers, steps, depth=0):
    """statements of `body` -> appended to steps; returns True when the builder's end was reached"""
    i, n = 0, len(body)
    while i < n:
        rest = body[i:]
        m = re.match(r"\s+", rest)
        if m:
            i += m.end(); continue
        # if (...) {...} else if ... else {...}
        m = re.match(r"if\s*\(", rest)
        if m:
            neg = ("always",)
            while True:
                p0 = i + body[i:].index("(")
                p1 = match_close(body, p0, "(", ")")
                c = parse_cond(body[p0 + 1:p1], env)
                b0 = p1 + 1 + re.match(r"\s*", body[p1 + 1:]).end()
                if body[b0] != "{":
                    raise WrapperError(f"{env.where}: `if` without braces")
                b1 = match_close(body, b0, "{", "}")
                if parse_block(body[b0 + 1:b1], env, conj(cond, conj(neg, c)), helpers, steps, depth + 1):
                    raise WrapperError(f"{env.where}: builder ends inside a conditional")
                neg = conj(neg, ("not", c))
                i = b1 + 1
                mm = re.match(r"\s*else\s*", body[i:])
                if not mm:
                    break
                i += mm.end()
                if re.match(r"if\s*\(", body[i:]):
                    continue
                if body[i] != "{":
                    raise WrapperError(f"{env.where}: `else` without braces")
                b1 = match_close(body, i, "{", "}")
                if parse_block(body[i + 1:b1], env, conj(cond, neg), helpers, steps, depth + 1):
                    raise WrapperError(f"{env.where}: builder ends inside a conditional")
                i = b1 + 1
                break
            continue
        m = re.match(r"for\s*\(\s*const\s+(\w+)\s+of\s+((?:[^()]|\([^()]*\))+)\)\s*\{", rest)
        if m:
            norm = None
            src_expr = m.group(2).strip()
            mm = re.match(r"(.+?)\.flatMap\(\s*(\w+)\s*\)$", src_expr)
            if mm:
                src_expr, norm = mm.group(1), mm.group(2)
                if norm not in env.functions:
                    raise WrapperError(f"{env.where}: loop over {m.group(2)!r}: unknown function {norm}")
            f = env.ref(src_expr)
            if not f or env.field(f)["ty"][0] != "strList":
                raise WrapperError(f"{env.where}: loop over {m.group(2)!r} not understood")
            b0 = i + m.end() - 1
            b1 = match_close(body, b0, "{", "}")
            inner = []
            if env.elem:
                raise WrapperError(f"{env.where}: nested loops")
            env.elem = m.group(1)
            parse_block(body[b0 + 1:b1], env, ("always",), helpers, inner, depth + 1)
            env.elem = None
            for st in inner:
                if st[0] != "push" or st[1] != ("always",):
                    raise WrapperError(f"{env.where}: only unconditional pushes are supported inside a loop")
                steps.append(("each", cond, env.index(f), st[2]) if norm is None
                             else ("eachNorm", cond, env.index(f), st[2], norm))
            i = b1 + 1
            continue
        # single statement up to `;`
        semi = None
        j, d = i, 0
        while j < n:
            ch = body[j]
            if ch in "'\"`":
                j = skip_string(body, j); continue
            if ch in "([{":
                d += 1
            elif ch in ")]}":
                d -= 1
            elif ch == ";" and d == 0:
                semi = j; break
            j += 1
        if semi is None:
            raise WrapperError(f"{env.where}: statement without `;`: {rest[:60]!r}")
        st = re.sub(r"\s+", " ", body[i:semi].strip())
        i = semi + 1
        m = re.match(r"args\.push\((.*)\)$", st)
        if m:
            steps.append(("push", cond, [parse_tok(x, env) for x in split_top(m.group(1), ",") if x]))
            continue
        m = re.match(r"this\.(\w+)\(\s*args\s*(?:,(.*))?\)$", st)
        if m and m.group(1) in helpers:
            hp, hb = helpers[m.group(1)]
            hparams = [p for p in split_top(hp, ",") if p]
            actual = [a for a in split_top(m.group(2) or "", ",") if a]
            if len(hparams) != len(actual) + 1:
                raise WrapperError(f"{env.where}: helper {m.group(1)} arity")
            saved = dict(env.bind)
            for hpar, act in zip(hparams[1:], actual):
                f = env.ref(act)
                if not f:
                    raise WrapperError(f"{env.where}: helper argument {act!r} not understood")
                env.bind[re.match(r"(\w+)", hpar).group(1)] = f
            if parse_block(hb, env, cond, helpers, steps, depth + 1):
                raise WrapperError(f"{env.where}: helper {m.group(1)} ends the builder")
            env.bind = saved
            continue
        m = re.match(r"const (\w+) = vscode\.workspace\.getConfiguration\(\s*(['\"])renamify\2\s*\)$", st)
        if m:
            env.config_vars.add(m.group(1))
            continue
        if END_RE.match(st):
            if depth:
                raise WrapperError(f"{env.where}: builder ends inside a block")
            return True
        raise WrapperError(f"{env.where}: statement not understood: {st[:100]!r}")
    return False


CALLS = r"(?:this\.executeCommand|this\.runCliDirect|this\.runCli|execa)"


def find_builder_start(body):
    """-> (array literal source, offset after the statement, inline?) or None"""
    m = re.search(r"const\s+args(?:\s*:\s*string\[\])?\s*=\s*\[", body)
    if m:
        a0 = m.end() - 1
        a1 = match_close(body, a0, "[", "]")
        semi = body.index(";", a1)
        return body[a0 + 1:a1], semi + 1, False
    m = re.search(CALLS + r"\s*\(\s*(?:this\.\w+\s*,\s*)?\[", body)
    if m:
        a0 = m.end() - 1
        a1 = match_close(body, a0, "[", "]")
        return body[a0 + 1:a1], None, True
    return None


def extract_builder(wrapper, name, psrc, body, aliases, helpers, functions=None):
    where = f"{wrapper}.{name}"
    start = find_builder_start(body)
    if not start:
        return None
    arr, after, inline = start
    env = Env(where)
    env.functions = functions or {}
    for pname, popt, ptype in parse_params(psrc, aliases, where):
        kind = resolve_param_type(ptype, aliases, f"{where}({pname})")
        if kind[0] == "scalar":
            env.field(pname, kind[1], popt)
            env.bind[pname] = pname
        else:
            env.objects.add(pname)
            for fname, fopt, fty in kind[1]:
                key = f"{pname}.{fname}"
                env.field(key, fty, fopt)
                env.bind[key] = key
    first = [x for x in split_top(arr, ",") if x]
    if not first or str_lit(first[0]) is None or str_lit(first[0]).startswith("-"):
        return None                          # e.g. ['--version']: not a subcommand invocation
    steps = [("push", ("always",), [parse_tok(x, env) for x in first])]
    if not inline:
        if not parse_block(body[after:], env, ("always",), helpers, steps):
            raise WrapperError(f"{where}: did not find where the argument vector is used")
    used = set()

    def walk_c(c):
        if c[0] in ("truthy", "isFalse", "defined", "nonEmpty", "isLit"):
            used.add(c[1])
        elif c[0] in ("not",):
            walk_c(c[1])
        elif c[0] in ("and", "or"):
            walk_c(c[1]); walk_c(c[2])
    for st in steps:
        walk_c(st[1])
        toks = st[3] if st[0] in ("each", "eachNorm") else st[2]
        if st[0] in ("each", "eachNorm"):
            used.add(st[2])
        for t in toks:
            if t[0] == "attach":
                t = t[2]
            if t[0] in ("val", "joined", "spread", "orLit"):
                used.add(t[1])
    # keep only the fields the builder reads (an options type may have more members), re-index
    keep = [i for i in range(len(env.fields)) if i in used]
    remap = {old: new for new, old in enumerate(keep)}

    def map_c(c):
        if c[0] in ("truthy", "isFalse", "defined", "nonEmpty"):
            return (c[0], remap[c[1]])
        if c[0] == "isLit":
            return ("isLit", remap[c[1]], c[2])
        if c[0] == "not":
            return ("not", map_c(c[1]))
        if c[0] in ("and", "or"):
            return (c[0], map_c(c[1]), map_c(c[2]))
        return c

    def map_t(t):
        if t[0] in ("val", "spread"):
            return (t[0], remap[t[1]])
        if t[0] in ("joined", "orLit"):
            return (t[0], remap[t[1]], t[2])
        if t[0] == "attach":
            return ("attach", t[1], map_t(t[2]))
        return t
    new_steps = []
    for st in steps:
        if st[0] == "push":
            new_steps.append(("push", map_c(st[1]), [map_t(t) for t in st[2]]))
        elif st[0] == "each":
            new_steps.append(("each", map_c(st[1]), remap[st[2]], [map_t(t) for t in st[3]]))
        else:
            new_steps.append(("eachNorm", map_c(st[1]), remap[st[2]], [map_t(t) for t in st[3]], st[4]))
    unused = [env.fields[i]["name"] for i in range(len(env.fields)) if i not in used]
    return {"wrapper": wrapper, "name": name, "sub": str_lit(first[0]),
            "params": [pn for pn, _, _ in parse_params(psrc, aliases, where)],
            "fields": [env.fields[i] for i in keep], "steps": new_steps, "unused": unused}


# ---------------------------------------------------------------------------------------------------
# representative values

def style_hints(repo):
    """case-style names the wrappers' own sources offer to users (independent of the Rust enum)"""
    hints = {"mcp": [], "vscode": []}
    p = os.path.join(repo, "renamify-mcp", "src", "index.ts")
    if os.path.exists(p):
        m = re.search(r"Case styles to detect and transform \(([^)]*)\)", open(p).read())
        if m:
            hints["mcp"] = [x.strip() for x in m.group(1).split(",") if x.strip()]
    p = os.path.join(repo, "renamify-vscode", "extension", "templates", "webview.hbs")
    if os.path.exists(p):
        block = open(p).read()
        hints["vscode"] = [v for v in re.findall(r'<input type="checkbox" value="([\w-]+)"', block)]
    return hints


def reps_for(wrapper, field, hints):
    """(representative defined values, hostile values) as JSON-able python values"""
    ty = field["ty"]
    name = field["name"].split(".")[-1]
    if ty[0] == "bool":
        return [True, False], []
    if ty[0] == "num":
        return [10, 0], []
    if ty[0] == "enum":
        return list(ty[1]), []
    if ty[0] == "str":
        plain = {"search": "old_name", "searchTerm": "old_name", "old": "old_name", "pattern": "old_name",
                 "replace": "new_name", "replaceTerm": "new_name", "new": "new_name", "replacement": "new_name",
                 "include": "src/**", "exclude": "target/**", "excludeMatchingLines": "^#",
                 "planPath": "plans/p.json", "planId": "abc123", "id": "abc123"}.get(name, "value")
        return [plain], ["-x"]
    if ty[0] == "strList":
        if re.search(r"styles$", name, re.I):
            hs = hints.get(wrapper) or []
            if len(hs) < 2:
                raise WrapperError(f"{wrapper}: no case-style names found in the wrapper sources for {field['name']}")
            return [[hs[0]], [hs[0], hs[1]], [], list(hs)], []
        x, y = {"paths": ("src", "lib/a.rs"), "includes": ("*.rs", "src/**"),
                "excludes": ("target/**", "*.lock")}.get(name, ("x", "y"))
        return [[x], [x, y], []], [["-x"], ["a,b"], ["*.{ts,tsx}"]]
    raise WrapperError(f"no representatives for {ty}")


# ---------------------------------------------------------------------------------------------------
# JavaScript rendering of the real method bodies (for node)

def module_functions(src):
    """`export function name(a: T, ..): R { .. }` at module level -> name -> JS source (types stripped)"""
    out = {}
    for m in re.finditer(r"(?m)^(?:export\s+)?function\s+(\w+)\s*\(", src):
        p0 = m.end() - 1
        p1 = match_close(src, p0, "(", ")")
        b0 = src.index("{", p1)
        if not re.match(r"\s*(?::\s*[\w\[\]<>| ]+)?\s*$", src[p1 + 1:b0]):
            continue
        b1 = match_close(src, b0, "{", "}")
        body = src[b0:b1 + 1]
        body = re.sub(r"\b(const|let)\s+(\w+)\s*:\s*[\w\[\]<>| ]+?\s*=", r"\1 \2 =", body)
        if re.search(r"\bas\s+\w|<\w+>\(|:\s*(?:string|number|boolean)\b", body):
            continue                      # still typed: cannot be run under node as is; only an error if used
        out[m.group(1)] = f"function {m.group(1)}({strip_types_params(src[p0 + 1:p1])}) {body}"
    return out


def strip_types_params(psrc):
    return ", ".join(re.match(r"(\w+)", p).group(1) for p in split_top(psrc, ",") if p)


def js_body(body, inline, helpers=()):
    """the original statements; the call that would spawn the CLI is replaced by `return <argv>`"""
    if inline:
        m = re.search(CALLS + r"\s*\(\s*(?:this\.\w+\s*,\s*)?\[", body)
        a0 = m.end() - 1
        a1 = match_close(body, a0, "[", "]")
        return "return " + body[a0:a1 + 1] + ";"
    m = re.search(r"const\s+args(?:\s*:\s*string\[\])?\s*=\s*\[", body)
    head = "const args = [" + body[m.end():]
    # cut at the first statement that uses args as a whole
    out, i = [], 0
    lines = head.split(";")
    res = []
    for st in lines:
        flat = re.sub(r"\s+", " ", st.strip())
        lead = re.match(r"(\}\s*)*", flat).group(0)
        hm = re.match(r"this\.(\w+)\(", flat[len(lead):])
        if END_RE.match(flat[len(lead):]) and not (hm and hm.group(1) in helpers):
            res.append("\n" + lead + "return args")
            break
        res.append(st)
    else:
        raise WrapperError("js: end of builder not found")
    return ";".join(res) + ";"


def render_js(raw):
    L = ["// GENERATED by translate/wrappers.py: original method bodies, type annotations stripped.",
         "import { readFileSync } from 'node:fs';",
         "const builders = {};"]
    for wrapper, items in raw.items():
        L.append(f"// ---- {wrapper}")
        L.append("{")
        for fsrc in items.get("functions", {}).values():
            L.append("  " + fsrc)
        L.append("  const self = {")
        for hname, (hp, hb) in items["helpers"].items():
            L.append(f"    {hname}({strip_types_params(hp)}) {{{hb}}},")
        L.append("  };")
        for name, psrc, body, inline in items["builders"]:
            L.append(f"  builders[{json.dumps(wrapper + '.' + name)}] = function ({strip_types_params(psrc)}) {{")
            L.append("    " + js_body(body, inline, items["helpers"]).replace("this.", "self."))
            L.append("  };")
        L.append("}")
    L.append("""
let CONFIG = {};
const vscode = { workspace: { getConfiguration: () => ({ get: (k) => CONFIG[k] }) } };
const cases = JSON.parse(readFileSync(process.argv[2], 'utf-8'));
const out = [];
for (const c of cases) {
  CONFIG = c.config || {};
  try {
    out.push(builders[c.builder].apply(null, c.args.map((a) => (a === null ? undefined : a))));
  } catch (e) {
    out.push({ error: String(e) });
  }
}
process.stdout.write(JSON.stringify(out));
""")
    return "\n".join(L)


# ---------------------------------------------------------------------------------------------------
# Lean rendering

def lean_bytes(s):
    if re.match(r"^[A-Za-z0-9 _.,:/*+=<>\-\[\](){}?!@#$%^&|~;']+$", s):
        return f't!"{s}"'
    return "([" + ", ".join(str(b) for b in s.encode()) + "] : Cli.Str)"


def lean_list(xs, f):
    return "[" + ", ".join(f(x) for x in xs) + "]"


def lean_ty(t):
    if t[0] == "enum":
        return ".enum " + lean_list(t[1], lean_bytes)
    return "." + t[0]


def lean_value(v):
    if v is True or v is False:
        return f".bool {'true' if v else 'false'}"
    if isinstance(v, int):
        return f".num {v}"
    if isinstance(v, str):
        return f".str {lean_bytes(v)}"
    return ".list " + lean_list(v, lean_bytes)


def lean_cond(c):
    if c[0] == "always":
        return ".always"
    if c[0] in ("truthy", "isFalse", "defined", "nonEmpty"):
        return f"(.{c[0]} {c[1]})"
    if c[0] == "isLit":
        return f"(.isLit {c[1]} {lean_bytes(c[2])})"
    if c[0] == "not":
        return f"(.not {lean_cond(c[1])})"
    return f"(.{c[0]} {lean_cond(c[1])} {lean_cond(c[2])})"


def lean_tok(t):
    if t[0] == "lit":
        return f".lit {lean_bytes(t[1])}"
    if t[0] in ("val", "spread"):
        return f".{t[0]} {t[1]}"
    if t[0] == "joined":
        return f".joined {t[1]} {ord(t[2])}"
    if t[0] == "orLit":
        return f".orLit {t[1]} {lean_bytes(t[2])}"
    if t[0] == "attach":
        return f".attach {lean_bytes(t[1])} ({lean_tok(t[2])})"
    return ".elem"


def lean_ident(s):
    return re.sub(r"\W", "_", s)


def render(builders):
    L = ["import RModel.Model.CliLit", "import RModel.Model.Wrappers",
         "/- GENERATED by translate/wrappers.py from renamify-mcp/src/renamify-service.ts and",
         "   renamify-vscode/extension/src/{cliService,types}.ts — do not edit. -/",
         "namespace Gen.Wrappers", "open Wrap", ""]
    for b in builders:
        ident = lean_ident(f"{b['wrapper']}_{b['name']}")
        L.append(f"/-- {b['wrapper']}: `{b['name']}`" + (f" (option members never read: {', '.join(b['unused'])})" if b["unused"] else "") + " -/")
        L.append(f"def {ident} : Builder :=")
        L.append(f"  {{ wrapper := {lean_bytes(b['wrapper'])}, name := {lean_bytes(b['name'])}, sub := {lean_bytes(b['sub'])},")
        L.append("    fields := [")
        fl = []
        for f in b["fields"]:
            fl.append(f"      {{ name := {lean_bytes(f['name'])}, ty := {lean_ty(f['ty'])}, optional := {'true' if f['optional'] else 'false'},\n"
                      f"        reps := {lean_list(f['reps'], lean_value)}, hostile := {lean_list(f['hostile'], lean_value)} }}")
        L.append(",\n".join(fl) + " ],")
        L.append("    steps := [")
        sl = []
        for st in b["steps"]:
            if st[0] == "push":
                sl.append(f"      .push {lean_cond(st[1])} {lean_list(st[2], lean_tok)}")
            elif st[0] == "each":
                sl.append(f"      .each {lean_cond(st[1])} {st[2]} {lean_list(st[3], lean_tok)}")
            else:
                sl.append(f"      .eachNorm {lean_cond(st[1])} {st[2]} {lean_list(st[3], lean_tok)}")
        L.append(",\n".join(sl) + " ],")
        norm = b.get("norm") or []
        L.append("    norm := " + lean_list(norm, lambda kv: f"({lean_bytes(kv[0])}, {lean_list(kv[1], lean_bytes)})") + " }")
        L.append("")
    L.append("def builders : List Builder :=\n  [ " + ",\n    ".join(lean_ident(f"{b['wrapper']}_{b['name']}") for b in builders) + " ]")
    L.append("\nend Gen.Wrappers\n")
    return "\n".join(L)


# ---------------------------------------------------------------------------------------------------

def norm_table(b, functions):
    """`for (const p of x.flatMap(fn))`: the pure helper `fn` is not modelled; it is executed (node) on every
    representative and hostile element of `x` and tabulated: [(element, [what fn returns])]"""
    wanted = {}
    for st in b["steps"]:
        if st[0] == "eachNorm":
            f = b["fields"][st[2]]
            for v in f["reps"] + f["hostile"]:
                for e in v:
                    wanted.setdefault(st[4], []).append(e)
    if not wanted:
        return []
    if len(wanted) > 1:
        raise WrapperError(f"{b['wrapper']}.{b['name']}: several different helpers in loops are not modelled")
    (fn, elems), = wanted.items()
    elems = sorted(set(elems))
    import shutil
    import subprocess
    node = shutil.which("node")
    if not node:
        raise WrapperError(f"{b['wrapper']}.{b['name']}: node is needed to tabulate helper {fn}")
    prog = functions[fn] + "\nprocess.stdout.write(JSON.stringify(" + json.dumps(elems) + f".map((e) => {fn}(e))));"
    p = subprocess.run([node, "-e", prog], stdout=subprocess.PIPE, stderr=subprocess.PIPE, timeout=60)
    if p.returncode != 0:
        raise WrapperError(f"helper {fn} did not run under node: " + p.stderr.decode("utf-8", "replace")[-400:])
    outs = json.loads(p.stdout.decode())
    for o in outs:
        if not (isinstance(o, list) and all(isinstance(x, str) for x in o)):
            raise WrapperError(f"helper {fn} returned {o!r}")
    return [[e, o] for e, o in zip(elems, outs)]


SOURCES = {
    "mcp": ("renamify-mcp/src/renamify-service.ts", []),
    "vscode": ("renamify-vscode/extension/src/cliService.ts", ["renamify-vscode/extension/src/types.ts"]),
}


def extract():
    hints = style_hints(common.REPO)
    builders, raw = [], {}
    for wrapper, (main, extra) in SOURCES.items():
        src = strip_comments(open(os.path.join(common.REPO, main)).read())
        aliases = type_aliases(src, main)
        for e in extra:
            aliases.update(type_aliases(strip_comments(open(os.path.join(common.REPO, e)).read()), e))
        methods = class_methods(src)
        if not methods:
            raise WrapperError(f"{main}: no class methods found")
        # helpers: methods whose first parameter is the argument vector
        helpers = {n: (p, b) for n, (p, b) in methods.items() if re.match(r"\s*args\s*:\s*string\[\]", p)
                   and "args.push(" in b and "await" not in b}
        functions = module_functions(src)
        raw[wrapper] = {"helpers": helpers, "builders": [], "functions": functions}
        found = 0
        for name, (psrc, body) in methods.items():
            if name in helpers:
                continue
            b = extract_builder(wrapper, name, psrc, body, aliases, helpers, functions)
            if b is None:
                continue
            active_false = set()          # boolean fields whose push fires on `false` (`=== false`, `!x`)

            def pol(c, neg):
                if c[0] == "truthy" and neg:
                    active_false.add(c[1])
                elif c[0] == "isFalse" and not neg:
                    active_false.add(c[1])
                elif c[0] == "not":
                    pol(c[1], not neg)
                elif c[0] in ("and", "or"):
                    pol(c[1], neg); pol(c[2], neg)
            for st in b["steps"]:
                pol(st[1], False)
            for i, f in enumerate(b["fields"]):
                f["reps"], f["hostile"] = reps_for(wrapper, f, hints)
                if f["ty"][0] == "bool" and i in active_false:
                    f["reps"] = [False, True]     # representative 0 is always the value that pushes
            b["norm"] = norm_table(b, functions)
            builders.append(b)
            raw[wrapper]["builders"].append((name, psrc, body, find_builder_start(body)[2]))
            found += 1
        if found < 3:
            raise WrapperError(f"{main}: only {found} argv builders recognised")
        # every `args.push` / argv literal of the file must belong to a recognised builder or helper
        covered = sum(b.count("args.push(") for _, (_, b) in helpers.items()) + \
            sum(body.count("args.push(") for _, _, body, _ in raw[wrapper]["builders"])
        if covered != src.count("args.push("):
            raise WrapperError(f"{main}: {src.count('args.push(')} args.push sites, only {covered} inside recognised builders")
    return builders, raw


def run():
    builders, raw = extract()
    os.makedirs(os.path.dirname(JS_OUT), exist_ok=True)
    res = [(OUT, common.write_if_changed(OUT, render(builders))),
           (JS_OUT, common.write_if_changed(JS_OUT, render_js(raw))),
           (IR_OUT, common.write_if_changed(IR_OUT, json.dumps(builders, indent=1)))]
    return res


if __name__ == "__main__":
    bs, _ = extract()
    for b in bs:
        print(b["wrapper"], b["name"], b["sub"], [f["name"] for f in b["fields"]], len(b["steps"]), "unused:", b["unused"])
    print(run())
