"""Gen/SerdeSchema.lean + Gen/SerdeVerdict.lean: the `#[serde(...)]` attributes and field types of the persisted
types (`Plan`, `MatchHunk`, `Rename`, `Stats`, `RenameKind`, `Style`, `HistoryEntry`).

For every field: name (after `rename` / `rename_all`), type class, `skip_serializing_if` predicate, and what
happens when the key is missing (`required`, `default`, `default = "fn"`, implicit `None` of an `Option`).
Anything the model does not understand (an unknown attribute, predicate, type or container attribute) raises:
a broken tie, never a silently wrong schema.

`PlanOptions` is not translated: it derives Serialize/Deserialize but is never written to or read from disk.
`persisted_sites()` finds every `serde_json::{to_*,from_*}` call of the non-test sources and classifies the type that
crosses it (Plan, Vec<HistoryEntry>, or a stdout document of output.rs / json!); a call it cannot classify raises,
so a newly persisted type does not go unnoticed.

Also usable from Python: `extract()` returns the schema as plain data (used by checks/c17.py to build requests).
"""
import os
import re

from checks import common

SOURCES = {
    "Plan": "renamify-core/src/scanner.rs",
    "MatchHunk": "renamify-core/src/scanner.rs",
    "Rename": "renamify-core/src/scanner.rs",
    "Stats": "renamify-core/src/scanner.rs",
    "RenameKind": "renamify-core/src/scanner.rs",
    "Style": "renamify-core/src/case_model.rs",
    "HistoryEntry": "renamify-core/src/history.rs",
}
ORDER = ["Style", "RenameKind", "Stats", "MatchHunk", "Rename", "Plan", "HistoryEntry"]
NUM = {"u8", "u16", "u32", "u64", "usize"}
SKIP = {"String::is_empty": "strEmpty", "is_empty_path": "pathEmpty", "Option::is_none": "optNone",
        "Vec::is_empty": "vecEmpty"}
# the skip predicate must be one that is meaningful for the field type (else rustc rejects it or we do not know it)
SKIP_TYPE = {"strEmpty": "str", "pathEmpty": "path", "optNone": "opt", "vecEmpty": "vec"}
# fields that are known to be dropped on writing and required on reading (KNOWN_FINDINGS.txt, property C17)
KNOWN_BAD = []   # repaired by repo commit 7e5290d; anything the schema check reports now is new


class SchemaError(RuntimeError):
    pass


def strip_comments(src):
    src = re.sub(r"/\*.*?\*/", "", src, flags=re.S)
    return re.sub(r"//[^\n]*", "", src)


def split_top(s, sep=","):
    """split on `sep` outside of <>, (), [], {} and string literals"""
    out, depth, cur, instr = [], 0, [], False
    i = 0
    while i < len(s):
        c = s[i]
        if instr:
            cur.append(c)
            if c == "\\":
                cur.append(s[i + 1]); i += 1
            elif c == '"':
                instr = False
        elif c == '"':
            instr = True; cur.append(c)
        elif c in "<([{":
            depth += 1; cur.append(c)
        elif c in ">)]}":
            depth -= 1; cur.append(c)
        elif c == sep and depth == 0:
            out.append("".join(cur)); cur = []
        else:
            cur.append(c)
        i += 1
    if "".join(cur).strip():
        out.append("".join(cur))
    return [x.strip() for x in out]


def find_item(src, kind, name):
    """attributes + body of `pub struct|enum Name { ... }`"""
    m = re.search(r"((?:\s*#\[[^\]]*\]\s*)*)pub\s+" + kind + r"\s+" + re.escape(name) + r"\s*\{", src)
    if not m:
        raise SchemaError(f"serde_schema: `pub {kind} {name}` not found")
    depth, i = 1, m.end()
    while depth:
        if i >= len(src):
            raise SchemaError(f"serde_schema: unbalanced braces in {name}")
        depth += {"{": 1, "}": -1}.get(src[i], 0)
        i += 1
    return m.group(1), src[m.end():i - 1]


def attr_list(text, which):
    """contents of every #[which(...)] in an attribute blob, split into items"""
    items = []
    for m in re.finditer(r"#\[\s*" + which + r"\s*\((.*?)\)\s*\]", text, re.S):
        items += split_top(m.group(1))
    return items


def parse_kv(item):
    m = re.fullmatch(r"(\w+)(?:\s*=\s*\"((?:[^\"\\]|\\.)*)\")?", item.strip(), re.S)
    if not m:
        raise SchemaError(f"serde_schema: cannot parse serde attribute item {item!r}")
    return m.group(1), m.group(2)


def rename_all(rule, name, what):
    if rule is None:
        return name
    words = re.findall(r"[A-Z][a-z0-9]*|[a-z0-9]+", name) if what == "variant" else name.split("_")
    lw = [w.lower() for w in words]
    if rule == "lowercase":
        return "".join(lw)
    if rule == "UPPERCASE":
        return "".join(lw).upper()
    if rule == "snake_case":
        return "_".join(lw)
    if rule == "SCREAMING_SNAKE_CASE":
        return "_".join(lw).upper()
    if rule == "kebab-case":
        return "-".join(lw)
    if rule == "camelCase":
        return lw[0] + "".join(w.capitalize() for w in lw[1:])
    if rule == "PascalCase":
        return "".join(w.capitalize() for w in lw)
    raise SchemaError(f"serde_schema: rename_all = {rule!r} not understood")


def parse_type(t, known):
    """Rust type text -> nested tuple: ('str',) ('path',) ('num',) ('bool',) ('opt', T) ('vec', T) ('map', T)
    ('pair', A, B) ('ref', Name)"""
    t = re.sub(r"\s+", "", t)
    t = re.sub(r"^(?:std::path::|crate::\w+::)", "", t)
    if t == "String":
        return ("str",)
    if t == "PathBuf":
        return ("path",)
    if t in NUM:
        return ("num", t)
    if t == "bool":
        return ("bool",)
    m = re.fullmatch(r"Option<(.*)>", t)
    if m:
        inner = parse_type(m.group(1), known)
        if inner[0] == "opt":
            raise SchemaError("serde_schema: Option<Option<_>> does not round-trip and is not modelled")
        return ("opt", inner)
    m = re.fullmatch(r"Vec<(.*)>", t)
    if m:
        return ("vec", parse_type(m.group(1), known))
    m = re.fullmatch(r"(?:HashMap|BTreeMap)<(.*)>", t)
    if m:
        k, v = split_top(m.group(1))
        if k not in ("String", "PathBuf"):
            raise SchemaError(f"serde_schema: map key type {k} not understood")
        return ("map", parse_type(v, known))
    m = re.fullmatch(r"\((.*)\)", t)
    if m:
        parts = split_top(m.group(1))
        if len(parts) != 2:
            raise SchemaError(f"serde_schema: tuple of arity {len(parts)} not modelled: {t}")
        return ("pair", parse_type(parts[0], known), parse_type(parts[1], known))
    if t in known:
        return ("ref", t)
    raise SchemaError(f"serde_schema: field type {t!r} not understood")


def default_fn_value(src, fn, ty):
    m = re.search(r"fn\s+" + re.escape(fn) + r"\s*\(\s*\)\s*->\s*[\w:<>]+\s*\{\s*([^{};]+?)\s*\}", src)
    if not m:
        raise SchemaError(f"serde_schema: body of default function {fn} not understood")
    body = m.group(1).strip()
    if ty == ("bool",) and body in ("true", "false"):
        return ("bool", body == "true")
    if ty[0] == "num" and re.fullmatch(r"\d+", body):
        return ("num", int(body))
    if ty == ("str",) and body in ("String::new()", '""' + ".to_string()"):
        return ("str", "")
    raise SchemaError(f"serde_schema: default function {fn} returns {body!r}: not understood for {ty}")


def parse_struct(src, raw, name, known):
    attrs, body = find_item(src, "struct", name)
    deny, ra = False, None
    derives = attr_list(attrs, "derive")
    if "Serialize" not in derives or "Deserialize" not in derives:
        raise SchemaError(f"serde_schema: {name} no longer derives Serialize and Deserialize ({derives})")
    for it in attr_list(attrs, "serde"):
        k, v = parse_kv(it)
        if k == "deny_unknown_fields" and v is None:
            deny = True
        elif k == "rename_all" and v is not None:
            ra = v
        else:
            raise SchemaError(f"serde_schema: container attribute serde({it}) on {name} not understood")
    fields = []
    # fields: attribute blob + `pub name: Type`
    for chunk in split_top(body):
        if not chunk:
            continue
        m = re.fullmatch(r"((?:\s*#\[.*?\]\s*)*)(?:pub(?:\([^)]*\))?\s+)?(\w+)\s*:\s*(.+)", chunk, re.S)
        if not m:
            raise SchemaError(f"serde_schema: cannot parse field of {name}: {chunk[:80]!r}")
        fattrs, fname, ftype = m.group(1), m.group(2), m.group(3)
        ty = parse_type(ftype, known)
        jname, skip, missing = rename_all(ra, fname, "field"), "never", None
        for it in attr_list(fattrs, "serde"):
            k, v = parse_kv(it)
            if k == "default" and v is None:
                missing = ("default",)
            elif k == "default":
                missing = ("defaultFn", v, default_fn_value(raw, v, ty))
            elif k == "skip_serializing_if" and v in SKIP:
                skip = SKIP[v]
                if SKIP_TYPE[skip] != ty[0]:
                    raise SchemaError(f"serde_schema: {name}.{fname}: predicate {v} on a field of type {ty}")
            elif k == "rename" and v is not None:
                jname = v
            else:
                raise SchemaError(f"serde_schema: field attribute serde({it}) on {name}.{fname} not understood")
        if missing is None:
            # serde derive: a missing key of an Option field is None (no `deserialize_with` can occur: raised above)
            missing = ("implicitNone",) if ty[0] == "opt" else ("required",)
        if missing == ("default",) and ty[0] not in ("str", "path", "num", "bool", "opt", "vec", "map"):
            raise SchemaError(f"serde_schema: #[serde(default)] on {name}.{fname} of type {ty}: Default not modelled")
        fields.append({"rust": fname, "name": jname, "ty": ty, "skip": skip, "missing": missing})
    if not fields:
        raise SchemaError(f"serde_schema: {name} has no fields")
    return {"kind": "struct", "name": name, "deny": deny, "fields": fields}


def parse_enum(src, name):
    attrs, body = find_item(src, "enum", name)
    derives = attr_list(attrs, "derive")
    if "Serialize" not in derives or "Deserialize" not in derives:
        raise SchemaError(f"serde_schema: {name} no longer derives Serialize and Deserialize")
    ra = None
    for it in attr_list(attrs, "serde"):
        k, v = parse_kv(it)
        if k == "rename_all" and v is not None:
            ra = v
        else:
            raise SchemaError(f"serde_schema: container attribute serde({it}) on enum {name} not understood")
    variants = []
    for chunk in split_top(body):
        m = re.fullmatch(r"((?:\s*#\[.*?\]\s*)*)(\w+)", chunk, re.S)
        if not m:
            raise SchemaError(f"serde_schema: enum {name}: variant {chunk[:60]!r} is not a unit variant")
        vname = rename_all(ra, m.group(2), "variant")
        for it in attr_list(m.group(1), "serde"):
            k, v = parse_kv(it)
            if k == "rename" and v is not None:
                vname = v
            else:
                raise SchemaError(f"serde_schema: variant attribute serde({it}) on {name} not understood")
        variants.append(vname)
    if not variants:
        raise SchemaError(f"serde_schema: enum {name} has no variants")
    return {"kind": "enum", "name": name, "variants": variants}


# ------------------------------------------------------------------------------------------------
# which types are persisted: every serde_json call of the non-test sources is found and classified

SERDE_CALL = re.compile(r"serde_json::(to_writer_pretty|to_writer|to_string_pretty|to_string|to_vec_pretty|to_vec|to_value|"
                        r"from_reader|from_str|from_slice|from_value)\s*(?:::<([^>]*(?:<[^>]*>)?[^>]*)>)?\s*\(")
# files whose serde_json calls build machine-readable *output* (stdout documents: C19's subject), not persisted state
OUTPUT_FILES = {"renamify-core/src/output.rs"}
PERSISTED = {"Plan", "HistoryEntry"}


def non_test_source(path):
    src = strip_comments(open(path).read())
    # drop `#[cfg(test)] mod name { ... }` blocks (a single cfg(test) item elsewhere does not hide the rest of the file)
    while True:
        m = re.search(r"#\[cfg\(test\)\]\s*(?:pub\s+)?mod\s+\w+\s*\{", src)
        if not m:
            return src
        depth, i = 1, m.end()
        while depth and i < len(src):
            depth += {"{": 1, "}": -1}.get(src[i], 0)
            i += 1
        src = src[:m.start()] + src[i:]


def call_args(src, open_paren):
    """text of the argument list starting after `(` at index open_paren"""
    depth, i, instr = 1, open_paren + 1, False
    while depth and i < len(src):
        c = src[i]
        if instr:
            if c == "\\":
                i += 1
            elif c == '"':
                instr = False
        elif c == '"':
            instr = True
        elif c in "([{":
            depth += 1
        elif c in ")]}":
            depth -= 1
        i += 1
    return src[open_paren + 1:i - 1]


def enclosing_fn(src, pos):
    """(name, signature text up to the body) of the innermost `fn` that starts before pos"""
    best = None
    for m in re.finditer(r"\bfn\s+(\w+)\s*(?:<[^{;]*?>)?\s*\(", src[:pos]):
        best = m
    if best is None:
        return None, ""
    j = src.find("{", best.end())
    return best.group(1), src[best.start():j if j >= 0 else best.end()]


def norm_expr(e):
    e = re.sub(r"\s+", "", e)
    return re.sub(r"^(?:&mut|&)+", "", e)


def classify_call(rel, src, m):
    """-> (kind 'write'|'read'|'output', type name or None)"""
    api = m.group(1)
    args = split_top(call_args(src, m.end() - 1))
    fname, sig = enclosing_fn(src, m.start())
    where = f"{rel}: serde_json::{api} in fn {fname}"
    if rel in OUTPUT_FILES:
        return "output", None
    if api.startswith("to_"):
        subject = norm_expr(args[-1]) if args else ""
        if subject in ("plan", "self.plan"):
            return "write", "Plan"
        if subject in ("self.entries", "entries"):
            return "write", "HistoryEntry"
        if subject.startswith("json!("):
            return "output", None
        raise SchemaError(f"serde_schema: {where}: serialised expression {subject!r} not classified "
                          "(a new type may be persisted)")
    # from_*: turbofish, the annotation of the `let` the call initialises, the function's return type, the file
    stmt_start = max(src.rfind(";", 0, m.start()), src.rfind("{", 0, m.start())) + 1
    stmt = src[stmt_start:m.start()]
    ann = re.search(r"let\s+(?:mut\s+)?\w+\s*:\s*([^=]+?)\s*=", stmt)
    for text in (m.group(2), ann.group(1) if ann else None):
        if text:
            t = re.sub(r"\s+", "", text)
            if re.fullmatch(r"(?:crate::scanner::|scanner::)?Plan", t):
                return "read", "Plan"
            if re.fullmatch(r"Vec<(?:crate::history::)?HistoryEntry>", t):
                return "read", "HistoryEntry"
            raise SchemaError(f"serde_schema: {where}: deserialised type {t!r} not classified")
    ret = re.search(r"->\s*(.+)$", sig, re.S)
    if ret and re.search(r"\bPlan\b", ret.group(1)):
        return "read", "Plan"
    if rel.endswith("history.rs") and ret and re.search(r"\bSelf\b|\bHistory\b", ret.group(1)):
        return "read", "HistoryEntry"
    raise SchemaError(f"serde_schema: {where}: cannot tell which type is deserialised")


def persisted_sites(repo):
    """every serde_json call outside tests, classified; raises if a call cannot be classified or if a persisted
    type is no longer both written and read"""
    found = []
    for top in ("renamify-core/src", "renamify-cli/src"):
        for dp, dn, fn in os.walk(os.path.join(repo, top)):
            dn.sort()
            for f in sorted(fn):
                if not f.endswith(".rs"):
                    continue
                path = os.path.join(dp, f)
                rel = os.path.relpath(path, repo)
                src = non_test_source(path)
                for m in SERDE_CALL.finditer(src):
                    kind, ty = classify_call(rel, src, m)
                    found.append((rel, enclosing_fn(src, m.start())[0], m.group(1), kind, ty))
    for ty in PERSISTED:
        for kind in ("write", "read"):
            if not any(k == kind and t == ty for _, _, _, k, t in found):
                raise SchemaError(f"serde_schema: no {kind} site of {ty} found any more; the persistence code moved")
    return found


# ------------------------------------------------------------------------------------------------
# loaders: what the code does with a persisted value between parsing it and using it

REJECT = re.compile(r"return\s+Err\b|\bbail!|Err\s*\(\s*anyhow|anyhow::bail")
# conditions on a loaded value that are understood and harmless for C17 (none on the pinned tree); text -> reason
UNDERSTOOD_CONDITIONS = {}


def fn_body_span(src, pos):
    """(start, end) of the body of the innermost fn starting before pos"""
    best = None
    for m in re.finditer(r"\bfn\s+(\w+)\s*(?:<[^{;]*?>)?\s*\(", src[:pos]):
        best = m
    if best is None:
        return 0, len(src)
    i = src.find("{", best.end())
    depth, j = 1, i + 1
    while depth and j < len(src):
        depth += {"{": 1, "}": -1}.get(src[j], 0)
        j += 1
    return i + 1, j - 1


def block_after(src, open_brace):
    depth, j = 1, open_brace + 1
    while depth and j < len(src):
        depth += {"{": 1, "}": -1}.get(src[j], 0)
        j += 1
    return src[open_brace + 1:j - 1]


def scope_after(src, start, limit):
    """text from `start` to the end of the block that `start` is in (the scope of a `let` made just before)"""
    depth, j = 0, start
    while j < limit:
        c = src[j]
        if c == "{":
            depth += 1
        elif c == "}":
            depth -= 1
            if depth < 0:
                break
        j += 1
    return src[start:j]


def conditions_on(region, names):
    """`if COND { … reject … }` and `ensure!(COND, …)` in `region` whose COND mentions one of `names`
    (or a variable bound by a `let` whose initialiser mentions one of them)"""
    names = set(names)
    for m in re.finditer(r"\blet\s+(?:mut\s+)?(\w+)\s*(?::[^=;]+)?=\s*([^;]*);", region):
        init = re.sub(r'"(?:[^"\\]|\\.)*"', '""', m.group(2))
        if any(re.search(r"\b" + re.escape(n) + r"\b", init) for n in names):
            names.add(m.group(1))
    pat = re.compile("|".join(r"\b" + re.escape(n) + r"\b" for n in sorted(names)))
    out = []
    for m in re.finditer(r"\bif\s+((?:[^{};]|\{[^{}]*\})*?)\s*\{", region):
        cond = re.sub(r"\s+", " ", m.group(1)).strip()
        if cond.startswith("let "):
            continue
        if pat.search(cond) and REJECT.search(block_after(region, m.end() - 1)):
            out.append(cond)
    for m in re.finditer(r"\bensure!\s*\(", region):
        args = call_args(region, m.end() - 1)
        cond = re.sub(r"\s+", " ", split_top(args)[0]) if args.strip() else ""
        if pat.search(cond):
            out.append("ensure!(" + cond + ")")
    return out


def loader_facts(repo, sites=None):
    """For every place a Plan / Vec<HistoryEntry> is parsed from disk: the variable it is bound to and every
    rejection (`if … { return Err / bail! }`, `ensure!`) that depends on the loaded value, in the parsing function
    and — when that function hands the value on (a loader helper) — in its callers.
    A loader is *plain* if there is none: then loading is exactly `serde_json::from_str/from_reader` of the
    modelled type, which is what `Serde.de` models."""
    facts = []
    srcs = {}

    def source(rel):
        if rel not in srcs:
            srcs[rel] = non_test_source(os.path.join(repo, rel))
        return srcs[rel]
    all_rs = []
    for top in ("renamify-core/src", "renamify-cli/src"):
        for dp, dn, fn in os.walk(os.path.join(repo, top)):
            dn.sort()
            all_rs += [os.path.relpath(os.path.join(dp, f), repo) for f in sorted(fn) if f.endswith(".rs")]
    for rel in all_rs:
        src = source(rel)
        for m in SERDE_CALL.finditer(src):
            kind, ty = classify_call(rel, src, m)
            if kind != "read":
                continue
            fname, sig = enclosing_fn(src, m.start())
            b0, b1 = fn_body_span(src, m.start())
            stmt_start = max(src.rfind(";", 0, m.start()), src.rfind("{", 0, m.start()), src.rfind("}", 0, m.start())) + 1
            head = src[stmt_start:m.start()]
            let = re.search(r"let\s+(?:mut\s+)?(\w+)\s*(?::[^=]+)?=\s*$", head)
            if let:
                var, shape = let.group(1), "let"
            elif re.search(r"match\s*$", head):
                arm = re.search(r"Ok\s*\(\s*(\w+)\s*\)", src[m.end():m.end() + 400])
                var, shape = (arm.group(1) if arm else "_"), "match"
            else:
                raise SchemaError(f"serde_schema: {rel}: fn {fname}: the value parsed by serde_json::{m.group(1)} is neither "
                                  "bound by `let` nor matched: loader shape not understood")
            stmt_end = src.find(";", m.end())
            region = scope_after(src, stmt_end + 1 if stmt_end >= 0 else m.end(), b1)
            conds = [(rel, fname, c) for c in conditions_on(region, [var])]
            ret = re.search(r"->\s*(.+)$", sig, re.S)
            helper = bool(ret and re.search(r"\bPlan\b|\bSelf\b|\bHistory\b", ret.group(1)))
            if helper and fname not in ("new",):
                # callers that bind the helper's result: conditions on it there count as well
                for rel2 in all_rs:
                    src2 = source(rel2)
                    for c in re.finditer(r"let\s+(\(?[^=;]*?\)?)\s*=\s*(?:[\w:]+::)?" + re.escape(fname) + r"\s*\(", src2):
                        cfn, _ = enclosing_fn(src2, c.start())
                        if cfn == fname:
                            continue
                        names = [n for n in re.findall(r"\b([a-z_]\w*)\b", c.group(1)) if n not in ("mut", "_")]
                        if not names:
                            continue
                        c0, c1 = fn_body_span(src2, c.start())
                        after = scope_after(src2, src2.find(";", c.end()) + 1, c1)
                        conds += [(rel2, cfn, x) for x in conditions_on(after, names)]
            facts.append({"file": rel, "fn": fname, "api": m.group(1), "type": ty, "var": var, "shape": shape,
                          "helper": helper, "conditions": conds})
    return facts


def loaders_plain(facts):
    bad = []
    for f in facts:
        for rel, fn, cond in f["conditions"]:
            if cond not in UNDERSTOOD_CONDITIONS and (rel, fn, cond) not in bad:
                bad.append((rel, fn, cond))
    return bad


def extract(repo=None):
    repo = repo or common.REPO
    known = set(SOURCES)
    out = {}
    for name in ORDER:
        raw = open(os.path.join(repo, SOURCES[name])).read()
        src = strip_comments(raw)
        out[name] = parse_enum(src, name) if name in ("Style", "RenameKind") else parse_struct(src, raw, name, known)
    persisted_sites(repo)
    return out


# ------------------------------------------------------------------------------------------------
# schema semantics in Python (mirror of Serde.fieldOk / offending / wf; the Lean side is authoritative:
# Gen/SerdeVerdict.lean states the result as a `decide` theorem, so a disagreement fails the build)

def skip_value(skip):
    return {"never": None, "strEmpty": ("str", ""), "pathEmpty": ("str", ""), "optNone": ("none",),
            "vecEmpty": ("list", [])}[skip]


def type_default(ty):
    return {"str": ("str", ""), "path": ("str", ""), "num": ("num", 0), "bool": ("bool", False), "opt": ("none",),
            "vec": ("list", []), "map": ("map", [])}.get(ty[0])


def missing_value(f):
    m = f["missing"]
    if m[0] == "required":
        return None
    if m[0] == "default":
        return type_default(f["ty"])
    if m[0] == "defaultFn":
        return m[2]
    return ("none",)


def field_ok(f):
    sv = skip_value(f["skip"])
    if sv is None:
        return True
    return missing_value(f) == sv


def offending(schema, root):
    """[(struct, field json name)] reachable from `root`, in the order of Serde.offending"""
    out = []

    def ty(t):
        if t[0] in ("opt", "vec", "map"):
            ty(t[1])
        elif t[0] == "pair":
            ty(t[1]); ty(t[2])
        elif t[0] == "ref" and schema[t[1]]["kind"] == "struct":
            st(t[1])

    def st(name):
        for f in schema[name]["fields"]:
            if not field_ok(f):
                out.append((name, f["name"]))
            ty(f["ty"])
    st(root)
    return out


def wf(schema, root):
    seen = set()

    def ty(t):
        if t[0] in ("opt", "vec", "map"):
            return ty(t[1])
        if t[0] == "pair":
            return ty(t[1]) and ty(t[2])
        if t[0] == "ref":
            return st(t[1])
        return True

    def st(name):
        s = schema[name]
        if s["kind"] == "enum":
            return len(set(s["variants"])) == len(s["variants"])
        names = [f["name"] for f in s["fields"]]
        return len(set(names)) == len(names) and all(ty(f["ty"]) for f in s["fields"])
    return st(root)


# ------------------------------------------------------------------------------------------------
# Lean rendering

def blit(s):
    b = s.encode()
    return "[" + ", ".join(str(x) for x in b) + "]"


LEAN_NAME = {"Style": "styleTy", "RenameKind": "renameKindTy", "Stats": "statsTy", "MatchHunk": "matchHunkTy",
             "Rename": "renameTy", "Plan": "planTy", "HistoryEntry": "historyEntryTy"}


def lean_ty(t):
    if t[0] in ("str", "path", "num", "bool"):
        return "." + t[0]  # the width of a number is not modelled (JSON numbers are exact for u8..u64)
    if t[0] in ("opt", "vec", "map"):
        return f"(.{t[0]} {lean_ty(t[1])})"
    if t[0] == "pair":
        return f"(.pair {lean_ty(t[1])} {lean_ty(t[2])})"
    return LEAN_NAME[t[1]]


def lean_rval(v):
    if v[0] == "str":
        return f"(.str {blit(v[1])})"
    if v[0] == "num":
        return f"(.num {v[1]})"
    if v[0] == "bool":
        return f"(.bool {'true' if v[1] else 'false'})"
    raise SchemaError(f"serde_schema: cannot render default value {v}")


def lean_missing(m):
    if m[0] == "defaultFn":
        return f"(.defaultFn {blit(m[1])} {lean_rval(m[2])})"
    return "." + m[0]


def render(schema):
    out = ["import RModel.Model.Serde",
           "/- GENERATED by translate/serde_schema.py from the #[serde(...)] attributes in renamify-core/src/"
           "{scanner,case_model,history}.rs — do not edit -/",
           "namespace Gen", "open Serde", ""]
    for name in ORDER:
        s = schema[name]
        if s["kind"] == "enum":
            out.append(f"def {LEAN_NAME[name]} : Ty := .enum {blit(name)} [")
            out += [f"  {blit(v)}{',' if i + 1 < len(s['variants']) else ''}  -- {v}" for i, v in enumerate(s["variants"])]
            out += ["]", ""]
        else:
            out.append(f"def {LEAN_NAME[name]} : Ty := .struct {blit(name)} {'true' if s['deny'] else 'false'} [")
            for i, f in enumerate(s["fields"]):
                comma = "," if i + 1 < len(s["fields"]) else ""
                out.append(f"  .mk {blit(f['name'])} {lean_ty(f['ty'])} .{f['skip']} {lean_missing(f['missing'])}{comma}"
                           f"  -- {name}.{f['name']}")
            out += ["]", ""]
    out += ["/-- `.renamify/history.json` is a `Vec<HistoryEntry>` -/",
            "def historyTy : Ty := .vec historyEntryTy", "",
            "end Gen", ""]
    return "\n".join(out)


def render_verdict(schema):
    out = ["import RModel.Gen.SerdeSchema",
           "/- GENERATED by translate/serde_schema.py — the verdict the translator computed for the schema it extracted,",
           "   re-checked here by kernel evaluation of the Lean definitions (a disagreement fails the build). -/",
           "namespace Gen", "open Serde", ""]
    for root, lname in (("Plan", "plan"), ("HistoryEntry", "history")):
        off = offending(schema, root)
        ok = wf(schema, root) and not off
        out += [f"def {lname}Verdict : Bool := {'true' if ok else 'false'}",
                f"theorem {lname}Verdict_eq : SchemaOk {LEAN_NAME[root]} = {lname}Verdict := by decide",
                *([f"theorem {lname}Verdict_is_true : {lname}Verdict = true := rfl"] if ok else
                  [f"-- no {lname}Verdict_is_true: the schema check fails (see {lname}Offending)"]),
                f"def {lname}Offending : List (Bytes × Bytes) := ["
                + ", ".join(f"({blit(a)}, {blit(b)})" for a, b in off) + "]"
                + "  -- " + (", ".join(f"{a}.{b}" for a, b in off) or "none"),
                f"theorem {lname}Offending_eq : offending {LEAN_NAME[root]} = {lname}Offending := by decide", ""]
    facts = loader_facts(common.REPO)
    bad = loaders_plain(facts)

    def q(x):
        return '"' + x.replace("\\", "\\\\").replace('"', '\\"') + '"'
    out += ["/-- every place a persisted value is parsed from disk: file, function, call, type -/",
            "def loaderSites : List String := ["]
    out += ["  " + q(f"{f['file']}: fn {f['fn']}: serde_json::{f['api']} -> {f['type']}") + ("," if i + 1 < len(facts) else "")
            for i, f in enumerate(facts)]
    out += ["]", "",
            "/-- rejections that depend on the loaded value, found after the parse (in the parsing function or the callers of a",
            "    loader helper): acceptance conditions beyond `serde_json::from_str` of the modelled type -/",
            "def loaderConditions : List String := [" + ", ".join(q(f"{rel}: fn {fn}: if {c}") for rel, fn, c in bad) + "]", "",
            f"def loadersPlain : Bool := {'true' if not bad else 'false'}",
            "theorem loadersPlain_eq : loaderConditions.isEmpty = loadersPlain := by decide",
            *(["theorem loadersPlain_is_true : loadersPlain = true := rfl"] if not bad else
              ["-- no loadersPlain_is_true: a loader refuses values that parse (see loaderConditions)"]), ""]
    out += ["end Gen", ""]
    return "\n".join(out)


def run():
    schema = extract()
    res = [("Gen/SerdeSchema.lean",
            common.write_if_changed(os.path.join(common.LEAN, "RModel/Gen/SerdeSchema.lean"), render(schema))),
           ("Gen/SerdeVerdict.lean",
            common.write_if_changed(os.path.join(common.LEAN, "RModel/Gen/SerdeVerdict.lean"), render_verdict(schema)))]
    return res
