"""translate/lock_users.py — /repo sources -> lean/RModel/Gen/LockUsers.lean   (consumer: C12)

Extracted, purely syntactically:
  * from renamify-core/src/lock.rs: STALE_LOCK_TIMEOUT_SECS, the ordered list of filesystem-call identifiers
    in `LockFile::acquire` and in `Drop::drop` (a coarse fingerprint: a reordering, a dropped call or a
    `create(true)` instead of `create_new(true)` changes it), the `parts.len() == N` test, the if/else-if
    chain that decides between stale / running / orphaned, the two `unwrap_or(0)` defaults;
  * from renamify-cli/src/cli/args.rs: the variants of `enum Commands`;
  * from renamify-cli/src/main.rs: which handler each `Commands::X` arm calls;
  * from every non-test function of renamify-cli/src and renamify-core/src: a name-based call graph
    (free calls and `Path::name(` calls), and which functions contain `LockFile::acquire(`; a command
    "locks" when its arm reaches such a function.  For each acquiring function: whether the guard is
    `if dry_run { None }`, whether the guard value is bound to a named variable (a bare `_` would drop
    the lock at once), and whether a mutating call precedes the acquire.
A source that no longer has the expected shape raises (= broken tie).
"""
import os
import re
import sys

ROOT = os.path.dirname(os.path.dirname(os.path.abspath(__file__)))
sys.path.insert(0, ROOT)
from checks.common import REPO, LEAN, write_if_changed  # noqa: E402

OUT = os.path.join(LEAN, "RModel", "Gen", "LockUsers.lean")


class TranslateError(RuntimeError):
    pass


def blank_noncode(src):
    """replace comments, string and char literals by spaces (same length, newlines kept)"""
    out = []
    i, n = 0, len(src)

    def blank(seg):
        return "".join(c if c == "\n" else " " for c in seg)
    while i < n:
        c = src[i]
        two = src[i:i + 2]
        if two == "//":
            j = src.find("\n", i)
            j = n if j < 0 else j
            out.append(blank(src[i:j])); i = j
        elif two == "/*":
            depth, j = 1, i + 2
            while j < n and depth:
                if src[j:j + 2] == "/*":
                    depth += 1; j += 2
                elif src[j:j + 2] == "*/":
                    depth -= 1; j += 2
                else:
                    j += 1
            out.append(blank(src[i:j])); i = j
        elif c == '"':
            j = i + 1
            while j < n and src[j] != '"':
                j += 2 if src[j] == "\\" else 1
            out.append('"' + blank(src[i + 1:j]) + '"'); i = j + 1
        elif c == "r" and re.match(r'r#*"', src[i:i + 8]) and (i == 0 or not (src[i - 1].isalnum() or src[i - 1] == "_")):
            m = re.match(r'r(#*)"', src[i:])
            close = '"' + m.group(1)
            j = src.find(close, i + len(m.group(0)))
            j = n if j < 0 else j + len(close)
            out.append(blank(src[i:j])); i = j
        elif c == "'":
            m = re.match(r"'(\\.[^']*|[^\\'])'", src[i:])
            if m:
                out.append(blank(m.group(0))); i += len(m.group(0))
            else:
                out.append(c); i += 1
        else:
            out.append(c); i += 1
    return "".join(out)


def strip_test_modules(code):
    """remove `#[cfg(test)] mod x { ... }` blocks (on blanked code)"""
    while True:
        m = re.search(r"#\[cfg\(test\)\]\s*(?:pub\s+)?mod\s+\w+\s*\{", code)
        if not m:
            return code
        end = match_brace(code, m.end() - 1)
        code = code[:m.start()] + re.sub(r"[^\n]", " ", code[m.start():end]) + code[end:]


def match_brace(code, open_idx):
    assert code[open_idx] == "{"
    depth = 0
    for j in range(open_idx, len(code)):
        if code[j] == "{":
            depth += 1
        elif code[j] == "}":
            depth -= 1
            if depth == 0:
                return j + 1
    raise TranslateError("unbalanced braces")


def functions(code):
    """yield (name, body_text, start) for every `fn name ... { body }` of blanked code"""
    for m in re.finditer(r"\bfn\s+([A-Za-z_]\w*)", code):
        # find the body's opening brace: first '{' after the signature that is not inside <> or ()
        j, depth = m.end(), 0
        while j < len(code):
            ch = code[j]
            if ch in "(<[":
                depth += 1
            elif ch in ")>]":
                # `->` is not a closing bracket
                if not (ch == ">" and code[j - 1] == "-"):
                    depth -= 1
            elif ch == ";" and depth <= 0:
                j = -1
                break
            elif ch == "{" and depth <= 0:
                break
            j += 1
        if j < 0 or j >= len(code):
            continue
        end = match_brace(code, j)
        yield m.group(1), code[j:end], (j, end)


def read(rel):
    with open(os.path.join(REPO, rel), encoding="utf-8") as fh:
        return fh.read()


FS_TOKENS = [
    (r"\.exists\(\)", "exists"),
    (r"\bFile::open\b", "fileOpen"),
    (r"\bread_to_string\b", "readToString"),
    (r"\bread_to_end\b", "readToString"),
    (r"\bfs::remove_file\b", "removeFile"),
    (r"\bfs::create_dir_all\b", "createDirAll"),
    (r"\bOpenOptions::new\b", "openOptionsNew"),
    (r"\.write\(true\)", "optWrite"),
    (r"\.create_new\(true\)", "optCreateNew"),
    (r"\.create\(true\)", "optCreate"),
    (r"\.truncate\(true\)", "optTruncate"),
    (r"\.append\(true\)", "optAppend"),
    (r"\.open\(", "optOpen"),
    (r"\bwrite_all\b", "writeAll"),
    (r"\bfs::write\b", "fsWrite"),
    (r"\bfs::hard_link\b", "hardLink"),
]
UNKNOWN_FS = re.compile(r"\b(?:fs|File|OpenOptions)::(\w+)")
KNOWN_FS_NAMES = {"open", "remove_file", "create_dir_all", "new", "write", "hard_link", "read_to_string"}


def fs_shape(body, what):
    hits = []
    for pat, tok in FS_TOKENS:
        for m in re.finditer(pat, body):
            hits.append((m.start(), tok))
    for m in UNKNOWN_FS.finditer(body):
        if m.group(1) not in KNOWN_FS_NAMES:
            raise TranslateError(f"{what}: filesystem call `{m.group(0)}` is not in the fingerprint alphabet")
    hits.sort()
    return [t for _, t in hits]


def lock_rs():
    raw = read("renamify-core/src/lock.rs")
    code = strip_test_modules(blank_noncode(raw))
    m = re.search(r"const\s+STALE_LOCK_TIMEOUT_SECS\s*:\s*u64\s*=\s*([0-9_]+)\s*;", code)
    if not m:
        raise TranslateError("lock.rs: STALE_LOCK_TIMEOUT_SECS not found")
    timeout = int(m.group(1).replace("_", ""))
    spans = {}
    fns = {}
    for name, body, span in functions(code):
        if name == "drop" and "self.path" not in body:
            continue            # `impl Drop for DirGuard`, not the lock file's Drop
        fns.setdefault(name, body)
        spans.setdefault(name, span)
    for need in ("acquire", "drop", "is_process_running"):
        if need not in fns:
            raise TranslateError(f"lock.rs: fn {need} not found")
    acq = fns["acquire"]
    shape = fs_shape(acq, "acquire")
    drop = fs_shape(fns["drop"], "drop")
    # exit path that skips destructors (Ctrl-C at the confirmation prompt)
    release_held = fs_shape(fns["release_held_locks"], "release_held_locks") if "release_held_locks" in fns else []
    m = re.search(r"parts\.len\(\)\s*(==|!=|>=|<=|>|<)\s*(\d+)", acq)
    if not m:
        raise TranslateError("lock.rs: `parts.len() == N` test not found")
    parts_op, parts_n = m.group(1), int(m.group(2))
    # the separator is a char literal, which blank_noncode erased: look at the raw text of the body of acquire
    a0, a1 = spans["acquire"]
    raw_acq = re.sub(r"//[^\n]*", "", raw[a0:a1])
    if not re.search(r"\.trim\(\)\.split\(':'\)", re.sub(r"\s+", "", raw_acq)):
        raise TranslateError("lock.rs: `content.trim().split(':')` not found")
    # what follows the `if parts.len() == 2 { … }` block: nothing, or `else if content.trim().is_empty() { remove }`
    mparts = re.search(r"\bif\s+parts\.len\(\)\s*==\s*\d+\s*\{", acq)
    if not mparts:
        raise TranslateError("lock.rs: `if parts.len() == N {` not found")
    pend = match_brace(acq, mparts.end() - 1)
    after = acq[pend:]
    abandon = "none"
    mel = re.match(r"\s*else\b", after)
    if mel:
        me = re.match(r"\s*else\s+if\s+content\.trim\(\)\.is_empty\(\)\s*\{", after)
        mu = re.match(r"\s*else\s*\{", after)
        if me:
            eend = match_brace(after, me.end() - 1)
            if branch_action(after[me.end():eend]) != "remove" or re.match(r"\s*else\b", after[eend:]):
                raise TranslateError("lock.rs: unrecognised empty-content branch")
            abandon = "empty"
        elif mu:
            eend = match_brace(after, mu.end() - 1)
            if branch_action(after[mu.end():eend]) != "remove":
                raise TranslateError("lock.rs: unrecognised branch for unparsable lock files")
            abandon = "unparsable"
        else:
            raise TranslateError("lock.rs: unrecognised `else` after the `parts.len()` block")
    # how the lock file comes into being: create_new + write_all, or complete (temporary file + hard_link)
    by_link = "hardLink" in shape
    if by_link:
        if not re.search(r"fs::write\(\s*&tmp_path[\s\S]*fs::hard_link\(\s*&tmp_path\s*,\s*&lock_path\s*\)", acq):
            raise TranslateError("lock.rs: hard_link publish is not `fs::write(&tmp_path, ..)` then `fs::hard_link(&tmp_path, &lock_path)`")
        if "optCreateNew" in shape or "writeAll" in shape:
            raise TranslateError("lock.rs: both create_new/write_all and hard_link in acquire")
    defaults = re.findall(r"\.parse::<(u\d+)>\(\)\s*\.unwrap_or\((\d+)\)", acq)
    if len(defaults) != 2:
        raise TranslateError("lock.rs: expected two `.parse::<uN>().unwrap_or(k)`")
    # the decision chain: `if stale {remove} else if running {fail} else {remove}`  (stale first), or
    # `if pid != 0 && running {fail} else if stale {remove} else {remove}`        (a live holder is never stale)
    chain = []
    stale_re = (r"(current_time\s*-\s*timestamp|current_time\.saturating_sub\(timestamp\))\s*(>=|>|<=|<)\s*"
                r"STALE_LOCK_TIMEOUT_SECS")
    run_re = r"(!?)\s*(pid\s*!=\s*0\s*&&\s*)?is_process_running\(pid\)"
    m = re.search(r"\bif\s+(?:" + stale_re + "|" + run_re + r")\s*\{", acq)
    if not m:
        raise TranslateError("lock.rs: the stale / running decision chain was not found")
    saturating = None
    live_first = m.group(1) is None
    rest = acq[m.start():]
    for k in range(3):
        if k < 2:
            mm = re.match(r"\s*(?:else\s+)?if\s+(?:" + stale_re + "|" + run_re + r")\s*\{", rest)
            if not mm:
                raise TranslateError("lock.rs: unrecognised condition in the stale / running decision chain")
            if mm.group(1) is not None:
                saturating = "saturating_sub" in mm.group(1)
                cond = "stale" + {">": "Gt", ">=": "Ge", "<": "Lt", "<=": "Le"}[mm.group(2)]
            else:
                cond = "notRunning" if mm.group(3) else "running"
                if live_first and not mm.group(4):
                    raise TranslateError("lock.rs: liveness is tested first but pid 0 (= did not parse) is not excluded")
        else:
            mm = re.match(r"\s*else\s*\{", rest)
            if not mm:
                raise TranslateError("lock.rs: final `else` of the decision chain not found")
            cond = "otherwise"
        end = match_brace(rest, mm.end() - 1)
        chain.append((cond, branch_action(rest[mm.end():end])))
        rest = rest[end:]
    if saturating is None:
        raise TranslateError("lock.rs: stale test not found in the decision chain")
    # signal-0 probe
    # The liveness rule: the body of the unix `is_process_running`, with attributes and white space removed, must be
    # exactly `unsafe { libc::kill(pid as libc::pid_t, 0) == 0 }` — "alive iff kill(pid, 0) succeeds" (EPERM, like
    # ESRCH, counts as not running).  Anything else (a further condition, a helper call, another syscall) is
    # reported as `other` together with the identifiers it calls, and flips `livenessIsKillZero`.
    probe_body = None
    for mfn in re.finditer(r"((?:#\[[^\]]*\]\s*)*)fn\s+is_process_running\b", code):
        attrs = mfn.group(1)
        if re.search(r"#\[cfg\(\s*unix\s*\)\]", attrs):
            j = code.index("{", mfn.end())
            probe_body = code[j:match_brace(code, j)]
            break
    if probe_body is None:
        raise TranslateError("lock.rs: `#[cfg(unix)] fn is_process_running` not found")
    norm = re.sub(r"\s+", "", re.sub(r"#\[[^\]]*\]", "", probe_body))
    liveness_kill_zero = norm == "{unsafe{libc::kill(pidaslibc::pid_t,0)==0}}"
    liveness_calls = sorted({c for c in re.findall(r"([A-Za-z_][\w:]*)\s*\(", re.sub(r"#\[[^\]]*\]", "", probe_body))
                             if c not in ("libc::kill",)})
    if "libc::kill" not in norm:
        raise TranslateError("lock.rs: is_process_running no longer probes with libc::kill")
    # drop must be unconditional on content; release must not be what Drop calls
    release_callers = []
    # bookkeeping for the exit path that skips destructors: the path is registered at the end of acquire (after the
    # write), de-registered in Drop, and the Ctrl-C handler calls release_held_locks() before process::exit
    # Drop: unconditional, or only if the content is still ours (helper `owns_lock_file`)
    drop_checks = False
    if re.search(r"\bowns_lock_file\(\s*&self\.path", fns["drop"]):
        helper = fns.get("owns_lock_file", "")
        a0h = spans.get("owns_lock_file")
        raw_helper = raw[a0h[0]:a0h[1]] if a0h else ""
        if not (re.search(r"fs::read_to_string\(path\)", helper) and "content.trim() == format!(" in raw_helper
                and "{pid}:{timestamp}" in raw_helper):
            raise TranslateError("lock.rs: owns_lock_file is not `read_to_string(path)` compared with \"{pid}:{timestamp}\"")
        if "exists" in drop:
            raise TranslateError("lock.rs: Drop both checks existence and content")
        drop_checks = True
    def guarded_before(body, first_use):
        g = re.search(r"\blet\s+_guard\s*=\s*[^;]*DirGuard::lock", body)
        u = re.search(first_use, body)
        return bool(g and u and g.start() < u.start())
    g_acq = guarded_before(acq, r"lock_path\.exists\(\)")
    g_drop = guarded_before(fns["drop"], r"owns_lock_file\(")
    g_rel = guarded_before(fns.get("release_held_locks", ""), r"owns_lock_file\(")
    if len({g_acq, g_drop, g_rel}) != 1:
        raise TranslateError(f"lock.rs: guard present in some sequences only (acquire={g_acq} drop={g_drop} release_held_locks={g_rel})")
    if g_acq:
        gl = fns.get("lock", "")
        if not (re.search(r"libc::flock\(.*?libc::LOCK_EX\s*\)", gl) and "DirGuard" in code
                and re.search(r"libc::flock\(.*?libc::LOCK_UN\s*\)", code)):
            raise TranslateError("lock.rs: DirGuard is not flock(LOCK_EX) … flock(LOCK_UN)")
        if shape[:1] != ["createDirAll"]:
            raise TranslateError("lock.rs: guarded acquire must create the directory first")
    lossy = bool(re.search(r"read_to_end\(", acq) and re.search(r"String::from_utf8_lossy\(", acq))
    held_registered = bool(re.search(r"(?:write_all|hard_link)[\s\S]*HELD_LOCKS[\s\S]*\.push\(", acq)
                           and re.search(r"HELD_LOCKS[\s\S]*\.retain\(", fns["drop"]))
    main = strip_test_modules(blank_noncode(read("renamify-cli/src/main.rs")))
    prompt_releases = False
    mh = re.search(r"if\s+renamify_core::interrupt::confirmation_prompt_active\(\)\s*\{", main)
    if mh:
        hend = match_brace(main, mh.end() - 1)
        blk = main[mh.end():hend]
        mr, mx = re.search(r"release_held_locks\(\)", blk), re.search(r"process::exit\(", blk)
        prompt_releases = bool(mr and mx and mr.start() < mx.start())
    return {"timeout": timeout, "shape": shape, "drop": drop, "release_held": release_held, "abandon": abandon, "by_link": by_link, "saturating": saturating, "drop_checks": drop_checks,
            "guarded": g_acq, "live_first": live_first, "lossy": lossy,
            "liveness_kill_zero": liveness_kill_zero, "liveness_calls": liveness_calls,
            "held_registered": held_registered, "prompt_releases": prompt_releases,
            "parts_op": parts_op, "parts_n": parts_n,
            "defaults": defaults, "chain": chain, "release_callers": release_callers}


def acq_span(raw):
    m = re.search(r"pub fn acquire", raw)
    if not m:
        raise TranslateError("lock.rs: pub fn acquire not found")
    m2 = re.search(r"pub fn release", raw)
    return m.start(), (m2.start() if m2 else len(raw))


def blank_keep_chars(raw, span):
    """raw text of a span with comments removed (strings/chars kept)"""
    seg = raw[span[0]:span[1]]
    seg = re.sub(r"//[^\n]*", "", seg)
    return seg


def branch_action(block):
    if re.search(r"\bfs::remove_file\b", block):
        return "remove"
    if re.search(r"\breturn\s+Err\b", block):
        return "fail"
    raise TranslateError("lock.rs: unrecognised action in a branch of the decision chain")


def pascal_to_camel(name):
    return name[0].lower() + name[1:]


def collect_functions():
    """all non-test functions of the CLI and core crates: name -> list of (file, body)"""
    table = {}
    for base in ("renamify-cli/src", "renamify-core/src"):
        for dp, dn, fn in os.walk(os.path.join(REPO, base)):
            dn.sort()
            for f in sorted(fn):
                if not f.endswith(".rs"):
                    continue
                rel = os.path.relpath(os.path.join(dp, f), REPO)
                code = strip_test_modules(blank_noncode(read(rel)))
                for name, body, _ in functions(code):
                    if name.startswith("test_"):
                        continue
                    table.setdefault(name, []).append((rel, body))
    return table


CALL = re.compile(r"(?<![.\w])(?:[A-Za-z_]\w*::)*([a-z_]\w*)\s*\(")
MUTATING_CALLS = re.compile(r"\b(apply_plan|write_plan|fs::write|fs::rename|fs::remove_file|fs::remove_dir_all|"
                            r"File::create|undo_renaming|redo_renaming|History::load)\b")


def commands_table():
    args = strip_test_modules(blank_noncode(read("renamify-cli/src/cli/args.rs")))
    m = re.search(r"pub\s+enum\s+Commands\s*\{", args)
    if not m:
        raise TranslateError("args.rs: enum Commands not found")
    end = match_brace(args, m.end() - 1)
    body = args[m.end():end - 1]
    variants, depth = [], 0
    for mm in re.finditer(r"[{}()]|\b([A-Z][A-Za-z0-9]*)\b", body):
        t = mm.group(0)
        if t in "{(":
            depth += 1
        elif t in "})":
            depth -= 1
        elif depth == 0:
            # skip attribute contents `#[...]`
            line_start = body.rfind("\n", 0, mm.start()) + 1
            if "#[" in body[line_start:mm.start()]:
                continue
            variants.append(t)
    if not variants or "Plan" not in variants or "Rename" not in variants:
        raise TranslateError(f"args.rs: unexpected Commands variants {variants}")

    main = strip_test_modules(blank_noncode(read("renamify-cli/src/main.rs")))
    m = re.search(r"match\s+cli\.command\s*\{", main)
    if not m:
        raise TranslateError("main.rs: `match cli.command` not found")
    mend = match_brace(main, m.end() - 1)
    mbody = main[m.end():mend - 1]
    arms = {}
    starts = [(a.start(), a.group(1)) for a in re.finditer(r"\bCommands::([A-Z]\w*)", mbody)]
    for k, (pos, name) in enumerate(starts):
        nxt = starts[k + 1][0] if k + 1 < len(starts) else len(mbody)
        arrow = mbody.find("=>", pos, nxt)
        if arrow < 0:
            raise TranslateError(f"main.rs: arm for Commands::{name} has no `=>`")
        arms[name] = mbody[arrow + 2:nxt]
    if set(arms) != set(variants):
        raise TranslateError(f"main.rs: match arms {sorted(arms)} differ from Commands variants {sorted(variants)}")

    fns = collect_functions()
    acquiring = {}
    for name, defs in fns.items():
        for rel, body in defs:
            if re.search(r"\bLockFile::acquire\s*\(", body) and not rel.endswith("lock.rs"):
                acquiring[name] = (rel, body)

    def callees(text):
        return {c for c in CALL.findall(text) if c in fns}

    def reaches(text):
        seen, todo, hit = set(), list(callees(text)), []
        while todo:
            f = todo.pop()
            if f in seen:
                continue
            seen.add(f)
            if f in acquiring:
                hit.append(f)
                continue
            for _, body in fns[f]:
                todo.extend(callees(body))
        return sorted(hit)

    # callers of the content-checked `LockFile::release(self)` outside lock.rs (and outside tests)
    release_sites = []
    for name, defs in fns.items():
        for rel, body in defs:
            if rel.endswith("lock.rs"):
                continue
            if re.search(r"\b_?lock\w*\s*\.release\(\)|LockFile::release\(", body):
                release_sites.append(f"{rel}::{name}")

    rows = []
    for v in variants:
        hit = reaches(arms[v])
        row = {"cmd": v, "locks": bool(hit), "via": hit, "unlessDryRun": False, "held": False, "first": False}
        if hit:
            held, first, guard = True, True, False
            for f in hit:
                rel, body = acquiring[f]
                pos = re.search(r"\bLockFile::acquire\s*\(", body).start()
                stmt_start = body.rfind(";", 0, pos) + 1
                stmt = body[stmt_start:pos]
                mlet = re.search(r"\blet\s+(mut\s+)?(\w+)\s*(?::[^=]+)?=", stmt)
                if not (mlet and mlet.group(2) != "_"):
                    held = False
                if re.search(r"\bif\s+dry_run\s*\{\s*None", stmt):
                    guard = True
                elif re.search(r"\bif\b", stmt):
                    raise TranslateError(f"{rel}: unrecognised condition around LockFile::acquire in fn {f}")
                if MUTATING_CALLS.search(body[:pos]):
                    first = False
            row.update(held=held, first=first, unlessDryRun=guard)
        rows.append(row)
    return variants, rows, sorted(acquiring), sorted(release_sites)


def lean_bool(b):
    return "true" if b else "false"


def render(lock, variants, rows, acquiring, release_sites):
    ctor = [pascal_to_camel(v) for v in variants]
    lines = [
        "/- GENERATED by translate/lock_users.py from /repo — do not edit.",
        "   renamify-core/src/lock.rs, renamify-cli/src/main.rs, renamify-cli/src/cli/args.rs and the call graph of",
        "   renamify-cli/src + renamify-core/src (non-test code). -/",
        "import RModel.Model.Lock",
        "namespace Gen.LockUsers",
        "open Lock (FsCall)",
        "",
        f"def staleTimeoutSecs : Nat := {lock['timeout']}",
        "",
        "/-- filesystem-call identifiers of `LockFile::acquire`, in source order -/",
        "def acquireShape : List FsCall :=",
        "  [" + ", ".join("." + t for t in lock["shape"]) + "]",
        "",
        "/-- … and of `impl Drop for LockFile` -/",
        "def dropShape : List FsCall :=",
        "  [" + ", ".join("." + t for t in lock["drop"]) + "]",
        "",
        "/-- … of `release_held_locks` (exit path of the Ctrl-C handler at the confirmation prompt; [] = absent) -/",
        "def releaseHeldShape : List FsCall :=",
        "  [" + ", ".join("." + t for t in lock["release_held"]) + "]",
        "",
        "/-- the lock path is registered in HELD_LOCKS after the write and de-registered in Drop, and the Ctrl-C handler",
        "    calls `release_held_locks()` before `process::exit` while the confirmation prompt is active -/",
        f"def promptExitReleases : Bool := {lean_bool(lock['held_registered'] and lock['prompt_releases'])}",
        "",
        "/-- what follows the two-part test: nothing (.none), `else if content.trim().is_empty() { remove_file }`",
        "    (.empty) or `else { remove_file }` (.unparsable) -/",
        f"def abandonPolicy : Lock.Abandon := .{lock['abandon']}",
        "",
        "/-- the age of a lock is `current_time.saturating_sub(timestamp)` instead of `current_time - timestamp` -/",
        f"def ageSaturates : Bool := {lean_bool(lock['saturating'])}",
        "",
        "/-- Drop removes the file only if `owns_lock_file` (content == \"pid:timestamp\") -/",
        f"def dropChecksContent : Bool := {lean_bool(lock['drop_checks'])}",
        "",
        "/-- the unix `is_process_running(pid)` is exactly `unsafe { libc::kill(pid as libc::pid_t, 0) == 0 }`: a pid is",
        "    alive iff signal 0 can be sent to it (ESRCH and EPERM = not running); no further condition, no helper -/",
        f"def livenessIsKillZero : Bool := {lean_bool(lock['liveness_kill_zero'])}"
        + ("  -- also calls: " + ", ".join(lock["liveness_calls"]) if lock["liveness_calls"] else ""),
        "",
        "/-- acquire, Drop and release_held_locks run their inspect-then-change sequence under `DirGuard::lock` =",
        "    flock(LOCK_EX) on `.renamify` -/",
        f"def guardedSequences : Bool := {lean_bool(lock['guarded'])}",
        "",
        "/-- the decision tests `pid != 0 && is_process_running(pid)` before the age: a live holder is never stale -/",
        f"def liveNeverStale : Bool := {lean_bool(lock['live_first'])}",
        "",
        "/-- the lock file is read with read_to_end + String::from_utf8_lossy (not UTF-8 = unparsable) -/",
        f"def readsLossily : Bool := {lean_bool(lock['lossy'])}",
        "",
        "/-- the lock file is published complete: `fs::write(&tmp_path, ..)` then `fs::hard_link(&tmp_path, &lock_path)` -/",
        f"def publishByLink : Bool := {lean_bool(lock['by_link'])}",
        "",
        "/-- `parts.len() == N` -/",
        f"def partsTestIsEq : Bool := {lean_bool(lock['parts_op'] == '==')}",
        f"def partsLen : Nat := {lock['parts_n']}",
        "",
        "/-- `.parse::<T>().unwrap_or(k)` for pid and timestamp: (bits, default) -/",
        "def parseDefaults : List (Nat × Nat) := ["
        + ", ".join(f"({int(t[1:])}, {d})" for t, d in lock["defaults"]) + "]",
        "",
        "inductive Cond | staleGt | staleGe | staleLt | staleLe | running | notRunning | otherwise",
        "  deriving DecidableEq, Repr",
        "inductive Action | remove | fail",
        "  deriving DecidableEq, Repr",
        "/-- the if / else-if / else chain after a two-part lock file was parsed -/",
        "def decisionChain : List (Cond × Action) :=",
        "  [" + ", ".join(f"(.{c}, .{a})" for c, a in lock["chain"]) + "]",
        "",
        "/-- the variants of `enum Commands` (renamify-cli/src/cli/args.rs), in source order -/",
        "inductive Command",
    ]
    lines += [f"  | {c}" for c in ctor]
    lines += [
        "  deriving DecidableEq, Repr",
        "",
        "def Command.all : List Command := [" + ", ".join("." + c for c in ctor) + "]",
        "",
        "structure Row where",
        "  cmd : Command",
        "  locks : Bool          -- the match arm reaches a function that calls `LockFile::acquire`",
        "  unlessDryRun : Bool   -- … guarded by `if dry_run { None } else { Some(acquire) }`",
        "  held : Bool           -- the guard is bound to a named variable (lives until the operation returns)",
        "  first : Bool          -- no mutating call precedes the acquire in the acquiring function",
        "  deriving DecidableEq, Repr",
        "",
        "def table : List Row := [",
    ]
    for k, r in enumerate(rows):
        sep = "," if k + 1 < len(rows) else ""
        via = (" via " + "/".join(r["via"])) if r["via"] else ""
        lines.append(f"  ⟨.{pascal_to_camel(r['cmd'])}, {lean_bool(r['locks'])}, {lean_bool(r['unlessDryRun'])}, "
                     f"{lean_bool(r['held'])}, {lean_bool(r['first'])}⟩{sep}  --{via}")
    lines += [
        "]",
        "",
        "def locks (c : Command) : Bool := table.any (fun r => r.cmd == c && r.locks)",
        "",
        "/-- number of non-test call sites of the content-checked `LockFile::release` (commands rely on `Drop`) -/",
        f"def releaseCallSites : Nat := {len(release_sites)}" + ("  -- " + ", ".join(release_sites) if release_sites else ""),
        "",
        "end Gen.LockUsers",
        "",
    ]
    return "\n".join(lines)


def extract():
    lock = lock_rs()
    variants, rows, acquiring, release_sites = commands_table()
    return lock, variants, rows, acquiring, release_sites


def run():
    lock, variants, rows, acquiring, release_sites = extract()
    text = render(lock, variants, rows, acquiring, release_sites)
    return [(OUT, write_if_changed(OUT, text))]


if __name__ == "__main__":
    for p, ch in run():
        print(p, "changed" if ch else "unchanged")
