"""Gen/Walker.lean: everything in the out-of-scope pipeline (C09) that is data.

code   renamify-core/src/lib.rs::configure_walker  — the `match level` arms: booleans passed to
       git_ignore/git_global/git_exclude/ignore/parents/hidden, custom ignore file names, the names rejected by
       the `filter_entry` closure, follow_links / require_git calls, the legacy `respect_gitignore` override
       renamify-core/src/scanner.rs                — `binary_as_text` comparison, the guards in front of every
       `is_binary(` call, the file-type tests of the two planners (`file_type().is_file()` vs `path.is_file()`)
       content_inspector (version of Cargo.lock)   — BOM table, MAX_SCAN_SIZE, MAGIC_NUMBERS
docs   docs/src/content/docs/features/filtering.mdx and README.md — which ignore file is honoured at which
       level, binary handling, hidden files, `.git`
A shape the parser does not know raises (reported by the runner as a broken tie) — with one exception: when the
`match level` arms of configure_walker cannot be parsed (the function was restructured), the per-level table is extracted
BEHAVIOURALLY: the real walker (vharness, built from the same tree) is run on fixed probe trees for levels 0..4 and 7 and
the flags are read off what it yields. The generated file then says `walkerExtraction = "behavioural"`.
"""
import glob
import os
import re

from checks import common

KINDS = ["gitignore", "ignore", "rgignore", "rnignore"]
KIND_FILE = {"gitignore": ".gitignore", "ignore": ".ignore", "rgignore": ".rgignore", "rnignore": ".rnignore"}
BOOL_CALLS = ["git_ignore", "git_global", "git_exclude", "ignore", "parents", "hidden"]
LEAN_FIELD = {"git_ignore": "gitIgnore", "git_global": "gitGlobal", "git_exclude": "gitExclude", "ignore": "ignore",
              "parents": "parents", "hidden": "hidden"}


class ParseError(RuntimeError):
    pass


def fail(msg):
    raise ParseError("translate/walker: " + msg)


def strip_rust_comments(s):
    """remove // comments (outside string literals) and /* */ comments"""
    out, i, n = [], 0, len(s)
    while i < n:
        c = s[i]
        if c == '"':
            j = i + 1
            while j < n and s[j] != '"':
                j += 2 if s[j] == "\\" else 1
            out.append(s[i:j + 1]); i = j + 1
        elif s.startswith("//", i):
            j = s.find("\n", i)
            i = n if j < 0 else j
        elif s.startswith("/*", i):
            j = s.find("*/", i)
            i = n if j < 0 else j + 2
        else:
            out.append(c); i += 1
    return "".join(out)


def balanced(s, i, open_c="{", close_c="}"):
    """s[i] == open_c; returns index just past the matching close (string literals skipped)"""
    if s[i] != open_c:
        fail(f"expected {open_c!r} at offset {i}")
    depth, j, n = 0, i, len(s)
    while j < n:
        c = s[j]
        if c == '"':
            j += 1
            while j < n and s[j] != '"':
                j += 2 if s[j] == "\\" else 1
        elif c == open_c:
            depth += 1
        elif c == close_c:
            depth -= 1
            if depth == 0:
                return j + 1
        j += 1
    fail("unbalanced braces")


def bytes_lit(s):
    if isinstance(s, str):
        s = s.encode()
    return "[" + ", ".join(str(b) for b in s) + "]"


def blist(names):
    return "[" + ", ".join(bytes_lit(n) for n in names) + "]"


def lb(b):
    return "true" if b else "false"


# ---------------------------------------------------------------------------------------------------------
# configure_walker

def parse_calls(chain):
    """`builder .a(x) .b(|e| {...}) ...` -> [(name, argtext)]"""
    chain = chain.strip()
    if chain.endswith(","):
        chain = chain[:-1].rstrip()
    if not chain.startswith("builder"):
        fail(f"arm body does not start with `builder`: {chain[:60]!r}")
    i, calls = len("builder"), []
    while i < len(chain):
        if chain[i].isspace():
            i += 1; continue
        m = re.compile(r"\.\s*(\w+)\s*\(").match(chain, i)
        if not m:
            fail(f"unparsed text in walker arm: {chain[i:i + 60]!r}")
        j = balanced(chain, m.end() - 1, "(", ")")
        calls.append((m.group(1), chain[m.end():j - 1].strip()))
        i = j
    return calls


def parse_filter(arg):
    """`|e| { e.file_name() != ".git" && e.file_name() != ".x" }` -> [".git", ".x"]"""
    m = re.match(r"^\|\s*(\w+)\s*\|\s*(.*)$", arg, re.S)
    if not m:
        fail(f"filter_entry argument is not a closure: {arg[:80]!r}")
    var, body = m.group(1), m.group(2).strip()
    while body.startswith("{") and balanced(body, 0) == len(body):
        body = body[1:-1].strip()
    names = []
    for part in body.split("&&"):
        part = part.strip()
        while part.startswith("(") and part.endswith(")"):
            part = part[1:-1].strip()
        mm = re.match(r'^%s\s*\.\s*file_name\s*\(\s*\)\s*!=\s*"([^"\\]*)"$' % re.escape(var), part)
        if not mm:
            fail(f"filter_entry closure has a conjunct that is not `{var}.file_name() != \"name\"`: {part[:80]!r}")
        names.append(mm.group(1))
    if not names:
        fail("filter_entry closure rejects nothing")
    return names


def parse_arm(body):
    cfg = {"custom": [], "filtered": None, "follow_links": False, "require_git": True}
    for name, arg in parse_calls(body):
        if name in BOOL_CALLS:
            if arg not in ("true", "false"):
                fail(f".{name}({arg}) is not a boolean literal")
            if name in cfg:
                fail(f".{name} called twice in one arm")
            cfg[name] = arg == "true"
        elif name == "add_custom_ignore_filename":
            m = re.match(r'^"([^"\\]*)"$', arg)
            if not m:
                fail(f"add_custom_ignore_filename({arg}) is not a string literal")
            cfg["custom"].append(m.group(1))
        elif name == "filter_entry":
            # ignore: "Calling this subsequent times overrides previous filter"
            cfg["filtered"] = parse_filter(arg)
        elif name in ("follow_links", "require_git"):
            if arg not in ("true", "false"):
                fail(f".{name}({arg}) is not a boolean literal")
            cfg[name] = arg == "true"
        else:
            fail(f"unknown WalkBuilder call .{name}(…) in configure_walker")
    for b in BOOL_CALLS:
        # WalkBuilder defaults (ignore 0.4): all six are true
        cfg.setdefault(b, True)
    if cfg["filtered"] is None:
        cfg["filtered"] = []
    return cfg


def parse_configure_walker(src):
    src = strip_rust_comments(src)
    m = re.search(r"pub fn configure_walker\s*\(", src)
    if not m:
        fail("configure_walker not found in lib.rs")
    i = src.find("{", src.find(")", m.end()))
    fn = src[i:balanced(src, i)]
    # legacy override
    lm = re.search(r"let\s+level\s*=\s*if\s*!\s*options\.respect_gitignore\s*&&\s*options\.unrestricted_level\s*==\s*(\d+)\s*"
                   r"\{\s*(\d+)\s*\}\s*else\s*\{\s*options\.unrestricted_level\s*\}\s*;", fn)
    if lm:
        legacy_when, legacy_level = int(lm.group(1)), int(lm.group(2))
    elif re.search(r"let\s+level\s*=\s*options\.unrestricted_level\s*;", fn):
        legacy_when, legacy_level = None, None
    else:
        fail("the `let level = …` statement of configure_walker has an unknown shape")
    mm = re.search(r"match\s+level\s*\{", fn)
    if not mm:
        fail("`match level {` not found in configure_walker")
    j = mm.end() - 1
    block = fn[j + 1:balanced(fn, j) - 1]
    rest = fn[balanced(fn, j):]
    if not re.match(r"^\s*;?\s*builder\s*\}\s*$", rest):
        fail(f"unexpected statements after `match level`: {rest.strip()[:80]!r}")
    pre = fn[:mm.start()]
    if re.search(r"filter_entry|add_custom_ignore_filename|follow_links|hidden\s*\(|git_ignore\s*\(", pre):
        fail("walker configured outside the `match level` arms")
    arms, i = [], 0
    while True:
        am = re.compile(r"\s*((?:\d+\s*\|\s*)*\d+|_)\s*=>\s*").match(block, i)
        if not am:
            if block[i:].strip() in ("", ","):
                break
            fail(f"unparsed match arm: {block[i:i + 60]!r}")
        pat = am.group(1)
        k = am.end()
        if block[k] == "{":
            e = balanced(block, k)
            body = block[k + 1:e - 1]
            i = e
            while i < len(block) and block[i] in ", \n\t":
                i += 1
        else:
            fail("match arm body is not a block")
        levels = None if pat == "_" else [int(x) for x in re.split(r"\s*\|\s*", pat)]
        arms.append((levels, parse_arm(body)))
    if not arms or arms[-1][0] is not None:
        fail("`match level` has no final `_` arm")
    if any(l is None for l, _ in arms[:-1]):
        fail("`_` arm is not last")
    return {"arms": arms, "legacy_when": legacy_when, "legacy_level": legacy_level}


def cfg_for(walker, level):
    for levels, cfg in walker["arms"]:
        if levels is None or level in levels:
            return cfg


# ---------------------------------------------------------------------------------------------------------
# behavioural extraction of the walker table (fallback for a restructured configure_walker)

PROBE_KINDS = [("gi", ".gitignore"), ("ig", ".ignore"), ("rg", ".rgignore"), ("rn", ".rnignore")]


def probe_tree(variant):
    """scan root `r`; every ignore-file kind once in the root and once in its parent; `git`: r/.git with info/exclude;
    `ancgit`: .git with info/exclude in the parent of the root"""
    t = {"r": ("d", 0o755), "r/plain.txt": ("f", b"x\n", 0o644), "r/.hidden_file": ("f", b"x\n", 0o644),
         "r/.renamify": ("d", 0o755), "r/.renamify/x.json": ("f", b"{}\n", 0o644),
         "r/dir": ("d", 0o755), "r/dir/inner.txt": ("f", b"x\n", 0o644), "r/lnk": ("l", "dir"),
         # the same two names further down: the model's name filter does not look at the depth
         "r/dir/.renamify": ("d", 0o755), "r/dir/.renamify/x.json": ("f", b"{}\n", 0o644),
         "r/dir/.git": ("d", 0o755), "r/dir/.git/config": ("f", b"x\n", 0o644),
         "r/ex.txt": ("f", b"x\n", 0o644), "r/exa.txt": ("f", b"x\n", 0o644)}
    for tag, fname in PROBE_KINDS:
        t[fname] = ("f", f"{tag}_above.txt\n".encode(), 0o644)
        t["r/" + fname] = ("f", f"{tag}.txt\n".encode(), 0o644)
        t[f"r/{tag}.txt"] = ("f", b"x\n", 0o644)
        t[f"r/{tag}_above.txt"] = ("f", b"x\n", 0o644)
    if variant == "git":
        t.update({"r/.git": ("d", 0o755), "r/.git/config": ("f", b"x\n", 0o644), "r/.git/info": ("d", 0o755),
                  "r/.git/info/exclude": ("f", b"ex.txt\n", 0o644)})
    if variant == "ancgit":
        t.update({".git": ("d", 0o755), ".git/info": ("d", 0o755), ".git/info/exclude": ("f", b"exa.txt\n", 0o644)})
    return t


def probe_configure_walker(reason):
    from checks import gen
    ok, msg = common.cargo_build()
    if not ok:
        fail(f"{reason}; behavioural extraction impossible, harness does not build: {msg[-300:]}")
    variants = ["nogit", "git", "ancgit"]
    settings = [(l, 1) for l in (0, 1, 2, 3, 4, 7)] + [(0, 0)]
    reqs = []
    for v in variants:
        wt = gen.wire_tree(probe_tree(v))
        for level, respect in settings:
            reqs.append(" ".join(["scope", str(level), str(respect), "I", "0", "X", "0", "P", "1", common.hexs("r")] + wt
                                 + ["O", "0", "M", common.hexs("zzz_none")]))
    import tempfile
    env = dict(common.BASE_ENV)
    with tempfile.TemporaryDirectory(prefix="renamify-verif.") as home:
        env["HOME"] = home
        env["XDG_CONFIG_HOME"] = os.path.join(home, ".xdg-none")
        out = common.run_impl(reqs, env=env)
    seen = {}
    it = iter(out)
    for v in variants:
        for st in settings:
            line = next(it)
            w = line.split(" | ")[0].split()[1:]
            seen[(v, st)] = set(bytes.fromhex(x).decode() for x in w if x != "-")

    def cfg_at(st):
        ng, g, ag = seen[("nogit", st)], seen[("git", st)], seen[("ancgit", st)]
        skipped = {tag: f"r/{tag}.txt" not in ng for tag, _ in PROBE_KINDS}
        cfg = {"custom": [], "follow_links": "r/lnk/inner.txt" in ng, "require_git": True}
        if skipped["gi"]:
            cfg["custom"].append(".gitignore")
        if skipped["rg"]:
            cfg["custom"].append(".rgignore")
        if skipped["rn"]:
            cfg["custom"].append(".rnignore")
        cfg["ignore"] = skipped["ig"]
        cfg["git_exclude"] = "r/ex.txt" not in g
        cfg["git_global"] = cfg["git_exclude"]                     # not observable on a probe tree
        honoured = [tag for tag, _ in PROBE_KINDS if skipped[tag]]
        above = [f"r/{tag}_above.txt" not in ng for tag in honoured]
        if above and any(above) != all(above):
            fail(f"{reason}; behavioural extraction: ancestor ignore files are honoured for some kinds only at setting {st}")
        cfg["parents"] = bool(above) and all(above)
        if cfg["git_exclude"] and cfg["parents"]:
            cfg["git_ignore"] = "r/exa.txt" not in ag               # ancestor repositories count only with git_ignore
        else:
            cfg["git_ignore"] = "r/gi.txt" not in g
        cfg["hidden"] = "r/.hidden_file" not in ng
        cfg["filtered"] = [n for n, probe in ((".git", "r/.git"), (".renamify", "r/.renamify")) if probe not in g]
        for n in (".git", ".renamify"):
            deep_filtered = f"r/dir/{n}" not in g and not any(x.startswith(f"r/dir/{n}/") for x in g)
            if deep_filtered != (n in cfg["filtered"]):
                fail(f"{reason}; behavioural extraction: `{n}` is filtered at the top of the root but not further down (or the "
                     f"other way round) at setting {st}: the model's name filter cannot express a depth")
        if "r/plain.txt" not in ng or "r/dir/inner.txt" not in ng:
            fail(f"{reason}; behavioural extraction: the walker does not yield plain files at setting {st}")
        return cfg
    cfgs = {st: cfg_at(st) for st in settings}
    if cfgs[(7, 1)] != cfgs[(4, 1)]:
        fail(f"{reason}; behavioural extraction: levels 4 and 7 behave differently")
    arms = [([l], cfgs[(l, 1)]) for l in (0, 1, 2, 3)] + [(None, cfgs[(4, 1)])]
    if all(seen[(v, (0, 0))] == seen[(v, (0, 1))] for v in variants):
        legacy = (None, None)
    else:
        tgt = [l for l in (1, 2, 3) if all(seen[(v, (0, 0))] == seen[(v, (l, 1))] for v in variants)]
        if not tgt:
            fail(f"{reason}; behavioural extraction: respect_gitignore=false at level 0 matches no level")
        legacy = (0, tgt[0])
    return {"arms": arms, "legacy_when": legacy[0], "legacy_level": legacy[1], "extraction": "behavioural", "reason": reason}


# ---------------------------------------------------------------------------------------------------------
# scanner.rs

def parse_scanner(src):
    full = src
    src = strip_rust_comments(src)
    t = src.find("#[cfg(test)]\nmod tests")
    code = src if t < 0 else src[:t]
    m = re.search(r"pub fn binary_as_text\s*\(\s*&self\s*\)\s*->\s*bool\s*\{\s*self\.unrestricted_level\s*(>=|>|==|<=|<|!=)\s*(\d+)\s*\}", code)
    if not m:
        fail("PlanOptions::binary_as_text has an unknown shape")
    op, num = m.group(1), int(m.group(2))
    # every use of is_binary( must be guarded by `!options.binary_as_text() &&`
    uses = [x.start() for x in re.finditer(r"\bis_binary\s*\(", code)]
    guarded, unguarded = 0, 0
    for u in uses:
        before = code[max(0, u - 60):u]
        if re.search(r"fn\s+$", before):
            continue
        if re.search(r"if\s*!\s*options\.binary_as_text\s*\(\s*\)\s*&&\s*$", before):
            guarded += 1
        else:
            unguarded += 1
    if unguarded or guarded == 0:
        fail(f"is_binary call sites: {guarded} guarded by `!options.binary_as_text() &&`, {unguarded} of unknown shape")
    if not re.search(r"fn is_binary\s*\(\s*content\s*:\s*&\[u8\]\s*\)\s*->\s*bool\s*\{\s*matches!\s*\(\s*content_inspector::inspect\s*\(\s*content\s*\)\s*,"
                     r"\s*ContentType::BINARY\s*\)\s*\}", code):
        fail("scanner::is_binary is no longer `matches!(content_inspector::inspect(content), ContentType::BINARY)`")

    def fn_body(name):
        mm = re.search(r"pub fn %s\s*\(" % name, code)
        if not mm:
            fail(f"{name} not found in scanner.rs")
        # first `{` after the signature's closing paren + return type
        depth, k = 0, mm.end() - 1
        k = balanced(code, k, "(", ")")
        k = code.find("{", k)
        return code[k:balanced(code, k)]
    multi = fn_body("scan_repository_multi")
    simple = fn_body("create_simple_plan")

    def file_test(body, who):
        if re.search(r"if\s*!\s*entry\s*\.\s*file_type\s*\(\s*\)\s*\.\s*is_some_and\s*\(\s*\|\s*(\w+)\s*\|\s*\1\s*\.\s*is_file\s*\(\s*\)\s*\)\s*\{\s*continue\s*;\s*\}", body):
            return False           # lstat-based: a symlink is not a file
        if re.search(r"if\s*!\s*path\s*\.\s*is_file\s*\(\s*\)\s*\{\s*continue\s*;\s*\}", body):
            return True            # Path::is_file follows symlinks
        fail(f"{who}: the regular-file test in front of the content scan has an unknown shape")
    # which search path is stripped before the globs of the `replace` planner are matched
    gvars = set(re.findall(r"globs\s*\.\s*is_match\s*\(\s*&?(\w+)\s*\)", simple))
    if len(gvars) != 1:
        fail(f"create_simple_plan: the glob sets are matched against {sorted(gvars)} (expected one variable)")
    gvar = gvars.pop()
    gdef = re.search(r"let\s+%s\s*=\s*([^;]*);" % re.escape(gvar), simple)
    if not gdef:
        fail(f"create_simple_plan: definition of `{gvar}` not found")
    if re.search(r"find_map\s*\(\s*\|\s*(\w+)\s*\|\s*path\s*\.\s*strip_prefix\s*\(\s*&?\1\s*\)\s*\.\s*ok\s*\(\s*\)\s*\)", gdef.group(1)):
        simple_first_only = False
    elif re.search(r"^path\s*\.\s*strip_prefix\s*\(\s*&root\s*\)", gdef.group(1).strip()) and \
            re.search(r"let\s+root\s*=\s*paths\s*\.\s*first\s*\(\s*\)", simple):
        simple_first_only = True
    else:
        fail("create_simple_plan: how the path handed to the glob sets is made relative has an unknown shape")
    res = {"binop": op, "binnum": num, "simple_first_only": simple_first_only,
           "multi_follows": file_test(multi, "scan_repository_multi"),
           "simple_follows": file_test(simple, "create_simple_plan")}
    for body, who in ((multi, "scan_repository_multi"), (simple, "create_simple_plan")):
        if "configure_walker(" not in body:
            fail(f"{who} no longer walks with configure_walker")
        if not re.search(r"build_globset\s*\(\s*&options\.includes\s*\)", body) or not re.search(r"build_globset\s*\(\s*&options\.excludes\s*\)", body):
            fail(f"{who} no longer builds include/exclude glob sets with build_globset")
    # build_globset directory expansion
    bg = fn_body("build_globset")
    gm = re.search(r"if\s+pattern\.ends_with\s*\(\s*'/'\s*\)\s*\|\|\s*\(\s*!\s*pattern\.contains\s*\(\s*'(.)'\s*\)\s*&&\s*!\s*pattern\.contains\s*\(\s*'(.)'\s*\)\s*&&\s*"
                   r"!\s*pattern\.contains\s*\(\s*'(.)'\s*\)\s*\)", bg)
    if gm:
        res["glob_expand"] = True
        res["glob_chars"] = [gm.group(1), gm.group(2), gm.group(3)]
        if 'format!("{}**", pattern)' not in bg or 'format!("{}/**", pattern)' not in bg:
            fail("build_globset: recursive pattern construction changed")
    elif "recursive_pattern" not in bg and "ends_with" not in bg:
        res["glob_expand"] = False
        res["glob_chars"] = []
    else:
        fail("build_globset: directory-expansion rule has an unknown shape")
    # exclusion of matches and lines in generate_hunks
    gh = re.search(r"fn generate_hunks\s*\(", code)
    if not gh:
        fail("generate_hunks not found")
    k = code.find("{", balanced(code, gh.end() - 1, "(", ")"))
    ghb = code[k:balanced(code, k)]
    em = re.search(r"if\s+((?:options\.exclude_match\.contains\s*\(\s*&m\.\w+\s*\)\s*(?:\|\|)?\s*)+)\{\s*continue\s*;\s*\}", ghb)
    if not em:
        fail("generate_hunks: the exclude_match test has an unknown shape")
    res["exclude_fields"] = re.findall(r"&m\.(\w+)", em.group(1))
    for f in res["exclude_fields"]:
        if f not in ("variant", "text"):
            fail(f"generate_hunks: exclude_match compares unknown field m.{f}")
    if not re.search(r"if\s+let\s+Some\s*\(\s*ref\s+regex\s*\)\s*=\s*exclude_line_regex\s*\{\s*if\s+regex\.is_match\s*\(\s*&line_string\s*\)\s*\{\s*continue\s*;\s*\}\s*\}", ghb):
        fail("generate_hunks: the exclude_matching_lines test has an unknown shape")
    return res


# ---------------------------------------------------------------------------------------------------------
# content_inspector

def parse_content_inspector(repo):
    lock = open(os.path.join(repo, "Cargo.lock")).read()
    m = re.search(r'name = "content_inspector"\nversion = "([^"]+)"', lock)
    if not m:
        fail("content_inspector not in Cargo.lock")
    ver = m.group(1)
    home = os.environ.get("CARGO_HOME", os.path.expanduser("~/.cargo"))
    cands = sorted(glob.glob(os.path.join(home, "registry", "src", "*", f"content_inspector-{ver}", "src", "lib.rs")))
    if not cands:
        fail(f"source of content_inspector {ver} not found under {home}/registry/src")
    src = strip_rust_comments(open(cands[0]).read())
    mm = re.search(r"const MAX_SCAN_SIZE\s*:\s*usize\s*=\s*(\d+)\s*;", src)
    if not mm:
        fail("content_inspector: MAX_SCAN_SIZE not found")
    scan = int(mm.group(1))
    bm = re.search(r"static BYTE_ORDER_MARKS[^=]*=\s*&\[(.*?)\];", src, re.S)
    if not bm:
        fail("content_inspector: BYTE_ORDER_MARKS not found")
    boms = []
    for lit in re.findall(r"\(\s*&\[([^\]]*)\]\s*,\s*ContentType::\w+\s*\)", bm.group(1)):
        boms.append(bytes(int(x.strip(), 16) for x in lit.split(",") if x.strip()))
    if not boms:
        fail("content_inspector: empty BOM table")
    mg = re.search(r"static MAGIC_NUMBERS[^=]*=\s*\[(.*?)\];", src, re.S)
    if not mg:
        fail("content_inspector: MAGIC_NUMBERS not found")
    magics = []
    for lit in re.findall(r'b"((?:[^"\\]|\\.)*)"', mg.group(1)):
        magics.append(lit.encode().decode("unicode_escape").encode("latin-1"))
    if not magics:
        fail("content_inspector: empty magic table")
    # order of the three tests in `inspect`
    fn = src[src.find("pub fn inspect"):]
    a, b, c = fn.find("BYTE_ORDER_MARKS"), fn.find("memchr(0x00"), fn.find("MAGIC_NUMBERS")
    if not (0 <= a < b < c):
        fail("content_inspector::inspect: the order BOM / NUL scan / magic changed")
    return {"version": ver, "scan": scan, "boms": boms, "magics": magics}


# ---------------------------------------------------------------------------------------------------------
# documentation

def section(text, heading_re, level):
    m = re.search(heading_re, text, re.M)
    if not m:
        return None
    nxt = re.compile(r"^#{1,%d} " % level, re.M).search(text, m.end())
    return text[m.end():nxt.start() if nxt else len(text)]


def ticks(s):
    return re.findall(r"`([^`]+)`", s)


def parse_mdx(text):
    """-> honoured[kind][level] in {True, False, None}, binary_skipped[level], hidden_included[level], git_excluded[level]"""
    hon = {k: [None] * 4 for k in KINDS + ["gitExclude"]}
    binary, hidden, gitx = [None] * 4, [None] * 4, [None] * 4
    d = section(text, r"^## Default Behavior.*$", 2)
    if d is None:
        fail("filtering.mdx: section 'Default Behavior' not found")
    bullets = re.findall(r"^- (.*(?:\n  .*)*)", d, re.M)
    for b in bullets:
        t = ticks(b)
        if re.search(r"always excluded", b) and ".git" in t:
            gitx[0] = True
        elif re.search(r"Hidden files", b):
            hidden[0] = bool(re.search(r"\*\*included\*\*", b))
        elif t:
            if t[0] == ".git/info/exclude":
                hon["gitExclude"][0] = True
            for k in KINDS:
                if KIND_FILE[k] == t[0]:
                    hon[k][0] = True
    if hon["gitignore"][0] is None or hidden[0] is None or gitx[0] is None:
        fail("filtering.mdx: default-behaviour bullets not recognised")
    bh = section(text, r"^## Binary File Handling.*$", 2)
    if bh is None or not re.search(r"detects and skips binary files by default", bh.replace("\n", " ")):
        fail("filtering.mdx: 'Binary File Handling' statement not found")
    binary[0] = True
    for lvl, flag in ((1, "-u"), (2, "-uu"), (3, "-uuu")):
        s = section(text, r"^### `%s` \(Unrestricted Level %d\)$" % (flag, lvl), 3)
        if s is None:
            fail(f"filtering.mdx: section for {flag} not found")
        for b in re.findall(r"^- ([✅❌].*(?:\n  .*)*)", s, re.M):
            b1 = b.replace("\n", " ")
            t = ticks(b1)
            if "Processes files ignored by" in b1:
                for k in KINDS:
                    if KIND_FILE[k] in t:
                        hon[k][lvl] = False
            elif "Still respects" in b1:
                for k in KINDS:
                    if KIND_FILE[k] in t:
                        hon[k][lvl] = True
                if ".git/info/exclude" in t:
                    hon["gitExclude"][lvl] = True
            elif "Processes all ignore files" in b1:
                for k in KINDS:
                    if KIND_FILE[k] in t:
                        hon[k][lvl] = False
                hon["gitExclude"][lvl] = False
            elif "Processes all files" in b1:
                for k in KINDS:
                    if hon[k][2] is False:
                        hon[k][lvl] = False
                hon["gitExclude"][lvl] = False
            elif "hidden files" in b1:
                hidden[lvl] = "Includes" in b1
            elif "Still excludes" in b1 and ".git" in t:
                gitx[lvl] = True
            elif "Still skips binary files" in b1:
                binary[lvl] = True
            elif "Treats binary files as text" in b1:
                binary[lvl] = False
            else:
                fail(f"filtering.mdx: unrecognised bullet in {flag}: {b1[:70]!r}")
        if binary[lvl] is None or gitx[lvl] is None or hidden[lvl] is None:
            fail(f"filtering.mdx: section {flag} lacks the binary / .git / hidden bullet")
    return hon, binary, hidden, gitx


def parse_readme(text):
    s = section(text, r"^## Ignore Files$", 2)
    if s is None:
        fail("README.md: section 'Ignore Files' not found")
    listed = [t for b in re.findall(r"^- (`[^`]+`) - ", s, re.M) for t in ticks(b)]
    kinds = [k for k in KINDS if KIND_FILE[k] in listed]
    if not kinds:
        fail("README.md: no ignore files listed")
    hon = {k: [None] * 4 for k in KINDS}
    hidden, binary = [None] * 4, [None] * 4
    lines = {0: r"^- Default: (.*)$", 1: r"^- `-u`: (.*)$", 2: r"^- `-uu`: (.*)$", 3: r"^- `-uuu`: (.*)$"}
    for lvl, rx in lines.items():
        m = re.search(rx, s, re.M)
        if not m:
            fail(f"README.md: level line {lvl} not found")
        t = m.group(1)
        if "Respects all ignore files" in t:
            for k in kinds:
                hon[k][lvl] = True
        elif re.match(r"Ignores `\.gitignore` but respects other ignore files", t):
            for k in kinds:
                hon[k][lvl] = k != "gitignore"
        elif "Ignores all ignore files" in t:
            for k in kinds:
                hon[k][lvl] = False
        elif re.match(r"Same as `-uu`", t):
            for k in kinds:
                hon[k][lvl] = hon[k][2]
            hidden[lvl] = hidden[2]
        else:
            fail(f"README.md: level line not recognised: {t[:70]!r}")
        if "skips hidden files" in t:
            hidden[lvl] = False
        if "shows hidden files" in t:
            hidden[lvl] = True
        binary[lvl] = not ("treats binary files as text" in t)
    return hon, hidden, binary


# ---------------------------------------------------------------------------------------------------------

def lean_cfg(cfg):
    fields = ", ".join(f"{LEAN_FIELD[b]} := {lb(cfg[b])}" for b in BOOL_CALLS)
    return (f"{{ {fields},\n      custom := {blist(cfg['custom'])},\n      filtered := {blist(cfg['filtered'])},\n"
            f"      followLinks := {lb(cfg['follow_links'])}, requireGit := {lb(cfg['require_git'])} }}")


def opt3(v):
    return "none" if v is None else ("some true" if v else "some false")


def table(name, rows, comment):
    """rows: dict kind -> [4 x True/False/None]"""
    out = [f"/-- {comment} -/", f"def {name} : IgnKind → Nat → Option Bool"]
    for k, vals in rows.items():
        for lvl, v in enumerate(vals):
            if v is not None:
                out.append(f"  | .{k}, {lvl} => {opt3(v)}")
    out.append("  | _, _ => none")
    return out


def generate(repo):
    try:
        walker = parse_configure_walker(open(os.path.join(repo, "renamify-core/src/lib.rs")).read())
        walker["extraction"] = "source"
    except ParseError as ex:
        walker = probe_configure_walker(str(ex))
    other = "".join(open(os.path.join(repo, "renamify-core/src", f)).read() for f in ("scanner.rs", "rename.rs"))
    if re.search(r"follow_links\s*\(\s*true\s*\)|follow_symlinks\s*\(\s*true\s*\)", strip_rust_comments(other)):
        for _, cfg in walker["arms"]:
            cfg["follow_links"] = True
    sc = parse_scanner(open(os.path.join(repo, "renamify-core/src/scanner.rs")).read())
    rn = strip_rust_comments(open(os.path.join(repo, "renamify-core/src/rename.rs")).read())
    if "configure_walker(" not in rn or not re.search(r"build_globset\s*\(\s*&options\.includes\s*\)", rn):
        fail("rename.rs no longer uses configure_walker / build_globset")
    ci = parse_content_inspector(repo)
    mdx_hon, mdx_bin, mdx_hidden, mdx_git = parse_mdx(open(os.path.join(repo, "docs/src/content/docs/features/filtering.mdx")).read())
    rd_hon, rd_hidden, rd_bin = parse_readme(open(os.path.join(repo, "README.md")).read())

    rof = os.path.join(common.LEAN, "RModel/Gen/ReplaceOffsets.lean")
    if not os.path.exists(rof) or "def replaceSkipsInvalidUtf8 : Bool" not in open(rof).read():
        fail("Gen/ReplaceOffsets.lean (translate/replace_offsets.py) does not define replaceSkipsInvalidUtf8")
    o = ["import RModel.Model.Scope", "import RModel.Gen.ReplaceOffsets",
         "/- GENERATED by translate/walker.py from renamify-core/src/{lib,scanner,rename}.rs, content_inspector "
         + ci["version"] + ", docs/…/filtering.mdx and README.md — do not edit -/",
         "namespace Gen", "open Scope", ""]
    if walker["extraction"] != "source":
        o.append("/- configure_walker could not be parsed (" + walker["reason"].replace("-/", "- /") + ");")
        o.append("   the table below was read off the behaviour of the real walker on probe trees (translate/walker.py) -/")
    o.append(f'def walkerExtraction : String := "{walker["extraction"]}"')
    o.append("/-- the arms of `match level` in `configure_walker`, in source order -/")
    o.append("def walkerArms : List (List Nat × LevelCfg) := [")
    named = [(l, c) for l, c in walker["arms"] if l is not None]
    for i, (levels, cfg) in enumerate(named):
        o.append(f"  ({levels},\n    {lean_cfg(cfg)})" + ("," if i + 1 < len(named) else ""))
    o.append("]")
    o.append("/-- the `_` arm -/")
    o.append(f"def walkerOther : LevelCfg :=\n    {lean_cfg(walker['arms'][-1][1])}")
    if walker["legacy_when"] is None:
        o.append("def legacy : Option (Nat × Nat) := none")
    else:
        o.append("/-- `if !options.respect_gitignore && options.unrestricted_level == a { b }` -/")
        o.append(f"def legacy : Option (Nat × Nat) := some ({walker['legacy_when']}, {walker['legacy_level']})")
    o.append("def walker : WalkerCfg := { arms := walkerArms, other := walkerOther, legacy := legacy }")
    o.append("")
    o.append("/-- `PlanOptions::binary_as_text` -/")
    op = {">=": "≥", ">": ">", "==": "=", "<=": "≤", "<": "<", "!=": "≠"}[sc["binop"]]
    o.append(f"def binaryAsText (level : Nat) : Bool := decide (level {op} {sc['binnum']})")
    o.append("/-- the regular-file test of the two planners: does it follow symlinks (`Path::is_file`) -/")
    o.append(f"def scanFollowsSymlinks : Bool := {lb(sc['multi_follows'])}")
    o.append(f"def simplePlanFollowsSymlinks : Bool := {lb(sc['simple_follows'])}")
    o.append("/-- `create_simple_plan` makes paths relative to its first search path only before matching include/exclude globs -/")
    o.append(f"def simpleGlobsFirstRootOnly : Bool := {lb(sc['simple_first_only'])}")
    o.append("/-- `build_globset`: directory expansion present, and the characters whose absence makes a pattern 'look like a directory' -/")
    o.append(f"def globExpands : Bool := {lb(sc['glob_expand'])}")
    o.append(f"def globPlainChars : List UInt8 := [{', '.join(str(ord(c)) for c in sc['glob_chars'])}]")
    o.append("/-- fields of `Match` compared with `--exclude-match` values in `generate_hunks` -/")
    o.append(f"def excludeComparesVariant : Bool := {lb('variant' in sc['exclude_fields'])}")
    o.append(f"def excludeComparesText : Bool := {lb('text' in sc['exclude_fields'])}")
    o.append("")
    o.append(f"/-- content_inspector {ci['version']} -/")
    o.append(f"def maxScanSize : Nat := {ci['scan']}")
    o.append(f"def byteOrderMarks : List Bytes := {blist(ci['boms'])}")
    o.append(f"def magicNumbers : List Bytes := {blist(ci['magics'])}")
    o.append("def sniff : SniffCfg := { maxScan := maxScanSize, boms := byteOrderMarks, magics := magicNumbers }")
    o.append("def globCfg : GlobCfg := { expands := globExpands, plain := globPlainChars }")
    o.append("def exclCfg : ExclCfg := { comparesVariant := excludeComparesVariant, comparesText := excludeComparesText }")
    o.append("def pipeline : Pipeline :=")
    o.append("  { W := walker, G := globCfg, S := sniff, binaryAsText := binaryAsText,")
    o.append("    scanFollows := scanFollowsSymlinks, simpleFollows := simplePlanFollowsSymlinks,")
    o.append("    simpleFirstRootOnly := simpleGlobsFirstRootOnly,")
    o.append("    -- generated by translate/replace_offsets.py from process_file_content")
    o.append("    simpleSkipsInvalidUtf8 := replaceSkipsInvalidUtf8 }")
    o.append("")
    o += table("docMdx", mdx_hon, "filtering.mdx: is the ignore file honoured at the level (none = the page is silent)")
    o += table("docReadme", rd_hon, "README.md 'Ignore Files'")
    o.append("/-- binary files skipped at the level, per filtering.mdx / README -/")
    o.append(f"def docBinarySkippedMdx : List Bool := [{', '.join(lb(x) for x in mdx_bin)}]")
    o.append(f"def docBinarySkippedReadme : List Bool := [{', '.join(lb(x) for x in rd_bin)}]")
    o.append("/-- hidden files included at the level, per filtering.mdx; README (none = silent) -/")
    o.append(f"def docHiddenIncludedMdx : List Bool := [{', '.join(lb(x) for x in mdx_hidden)}]")
    o.append(f"def docHiddenIncludedReadme : List (Option Bool) := [{', '.join(opt3(x) for x in rd_hidden)}]")
    o.append(f"def docGitExcludedMdx : List Bool := [{', '.join(lb(x) for x in mdx_git)}]")
    o.append("")
    # verdict flags, fixed by kernel evaluation
    ren_all = all(".renamify" in cfg["filtered"] for _, cfg in walker["arms"])
    o.append("/-- does the name filter of every arm reject `.renamify` -/")
    o.append("def filtersRenamifyDir : Bool := walker.allCfgs.all (fun c => c.filtered.contains renamifyName)")
    o.append(f"theorem filtersRenamifyDir_value : filtersRenamifyDir = {lb(ren_all)} := by decide")
    rg = [".rgignore" in cfg_for(walker, l)["custom"] for l in range(4)]
    o.append("/-- is `.rgignore` a registered ignore file name at level l -/")
    o.append("def registersRgignore (l : Nat) : Bool := (walker.cfg l).custom.contains rgignoreName")
    o.append(f"theorem registersRgignore_value : [0, 1, 2, 3].map registersRgignore = [{', '.join(lb(x) for x in rg)}] := by decide")
    o += ["", "end Gen", ""]
    return "\n".join(o)


def run():
    from translate import replace_offsets
    replace_offsets.run()          # Gen.replaceSkipsInvalidUtf8, which the generated pipeline refers to
    text = generate(common.REPO)
    path = os.path.join(common.LEAN, "RModel/Gen/Walker.lean")
    return [("Gen/Walker.lean", common.write_if_changed(path, text))]
