"""Gen/ExecFlags.lean: which of the crash-/failure-safety idioms the code uses today, read from the function bodies of
history.rs::save, lock.rs::acquire, undo.rs::apply_single_patch and apply.rs::apply_content_edits_with_content.
The operation-level model (RModel/Model/Exec.lean) branches on these flags; a wrong flag shows up as a trace
disagreement in checks/c04.py / c11.py."""
import os
import re

from checks import common


def fn_body(src, signature_re, what):
    """text of the function whose signature matches, by brace counting (strings/comments are not a problem for
    the four functions read here: none contains an unbalanced brace in a literal)"""
    m = re.search(signature_re, src, re.S)
    if not m:
        raise RuntimeError(f"translate/execflags: {what} not found")
    i = src.index("{", m.end() - 1)
    depth, j = 0, i
    while j < len(src):
        ch = src[j]
        if ch == "{":
            depth += 1
        elif ch == "}":
            depth -= 1
            if depth == 0:
                return src[i:j + 1]
        j += 1
    raise RuntimeError(f"translate/execflags: unbalanced braces in {what}")


def strip_comments(s):
    return re.sub(r"//[^\n]*", "", s)


def flags(repo):
    rd = lambda p: open(os.path.join(repo, "renamify-core/src", p)).read()
    save = strip_comments(fn_body(rd("history.rs"), r"pub fn save\(&self\)\s*->\s*Result<\(\)>\s*\{", "History::save"))
    acq = strip_comments(fn_body(rd("lock.rs"), r"pub fn acquire\(renamify_dir: &Path\)\s*->\s*Result<Self>\s*\{", "LockFile::acquire"))
    undo_src = rd("undo.rs")
    # the body that reads, patches and writes one file: `patch_file` (since repo commit 657a7be `apply_single_patch` and
    # `check_single_patch` delegate to it), else `apply_single_patch` itself
    if re.search(r"fn patch_file\(", undo_src):
        patch = strip_comments(fn_body(undo_src, r"fn patch_file\(.{0,200}?\)\s*->\s*Result<\(\)>\s*\{", "patch_file"))
    else:
        patch = strip_comments(fn_body(undo_src, r"fn apply_single_patch\(.{0,200}?\)\s*->\s*Result<\(\)>\s*\{", "apply_single_patch"))
    undo_fn = strip_comments(fn_body(undo_src, r"pub fn undo_renaming\(.{0,200}?\)\s*->\s*Result<\(\)>\s*\{", "undo_renaming"))
    redo_fn = strip_comments(fn_body(undo_src, r"pub fn redo_renaming\(.{0,200}?\)\s*->\s*Result<\(\)>\s*\{", "redo_renaming"))
    i_ren = undo_fn.find("fs::rename(")
    i_chk = undo_fn.find("check_single_patch(")
    if i_ren < 0:
        raise RuntimeError("translate/execflags: undo_renaming no longer renames with fs::rename")
    i_apply = redo_fn.find("apply_plan(")
    if i_apply < 0:
        raise RuntimeError("translate/execflags: redo_renaming no longer calls apply_plan")
    i_get = redo_fn.find(".get(hunk.start..hunk.end)")
    edit = strip_comments(fn_body(rd("apply.rs"), r"fn apply_content_edits_with_content\(.{0,300}?\)\s*->\s*Result<\(\)>\s*\{",
                                  "apply_content_edits_with_content"))
    if "truncate(true)" not in save and "File::create" not in save:
        raise RuntimeError("translate/execflags: History::save no longer opens a file the way the model knows")
    by_link = bool(re.search(r"fs::hard_link\(\s*&tmp_path\s*,\s*&lock_path\s*\)", acq))
    if "create_new(true)" not in acq and not by_link:
        raise RuntimeError("translate/execflags: LockFile::acquire neither uses create_new nor publishes by hard_link")
    if by_link and not re.search(r"fs::write\(\s*&tmp_path", acq):
        raise RuntimeError("translate/execflags: LockFile::acquire links a temp file it does not write with fs::write")
    lock_src = rd("lock.rs")
    drop = strip_comments(fn_body(lock_src, r"impl Drop for LockFile\s*\{\s*fn drop\(&mut self\)\s*\{", "Drop for LockFile"))
    cli = lambda p: open(os.path.join(repo, "renamify-cli/src", p)).read()
    op_apply = strip_comments(fn_body(rd("operations/apply.rs"), r"pub fn apply_operation\(.{0,400}?\)\s*->\s*Result<ApplyResult>\s*\{", "apply_operation"))
    op_undo = strip_comments(fn_body(rd("operations/undo.rs"), r"pub fn undo_operation\(.{0,200}?\)\s*->\s*Result<UndoResult>\s*\{", "undo_operation"))
    op_redo = strip_comments(fn_body(rd("operations/undo.rs"), r"pub fn redo_operation\(.{0,200}?\)\s*->\s*Result<RedoResult>\s*\{", "redo_operation"))
    op_replace = strip_comments(fn_body(cli("replace.rs"), r"pub fn handle_replace\(.{0,1200}?\)\s*->\s*Result<\(\)>\s*\{", "handle_replace"))
    op_rename = strip_comments(fn_body(rd("operations/rename.rs"), r"pub fn rename_operation\(.{0,1500}?\)\s*->\s*Result<\(RenameResult, Option<String>\)>\s*\{", "rename_operation"))
    if "LockFile::acquire" not in op_rename:
        raise RuntimeError("translate/execflags: rename_operation no longer takes the lock (the model's cmdRename does)")
    if "fs::write(" not in patch:
        raise RuntimeError("translate/execflags: apply_single_patch no longer uses fs::write")
    if "fs::rename(&temp_path, path)" not in edit:
        raise RuntimeError("translate/execflags: apply_content_edits_with_content no longer renames the temp file over the original")
    apply_src = rd("apply.rs")
    rollback_fn = strip_comments(fn_body(apply_src, r"fn rollback\(state: &mut ApplyState\)\s*->\s*Result<\(\)>\s*\{", "apply.rs::rollback"))
    log_fn = strip_comments(fn_body(apply_src, r"fn log\(&mut self, message: &str\)\s*->\s*Result<\(\)>\s*\{", "ApplyState::log"))
    apply_fn = strip_comments(fn_body(apply_src, r"pub fn apply_plan\(plan: &mut Plan, options: &ApplyOptions\)\s*->\s*Result<\(\)>\s*\{", "apply_plan"))
    probe_fn = strip_comments(fn_body(rd("rename.rs"), r"pub fn detect_case_insensitive_fs\(path: &Path\)\s*->\s*bool\s*\{", "detect_case_insensitive_fs"))
    if "renames_performed" not in rollback_fn and "renames_executed" not in rollback_fn:
        raise RuntimeError("translate/execflags: rollback iterates neither renames_performed nor renames_executed")
    i_patch = apply_fn.find("generate_reverse_patches(")
    i_store = apply_fn.find("fs::write(&plan_path")
    i_entry = apply_fn.find("history.add_entry(")
    if min(i_patch, i_store, i_entry) < 0:
        raise RuntimeError("translate/execflags: apply_plan: patches / stored plan / history entry not found")
    late_rollback = "rollback(&mut state)" in apply_fn[i_patch:]
    store_first = i_store < i_entry
    store_removed = "remove_file(&plan_path)" in apply_fn
    if len({late_rollback, store_first, store_removed}) != 1:
        raise RuntimeError("translate/execflags: apply_plan records in an order the model has no variant for "
                           f"(late rollback {late_rollback}, plan stored before entry {store_first}, stored plan removed on failure {store_removed})")
    # the up-front refusal of a plan id that is already recorded: it must sit before ApplyState::new and be UNCONDITIONAL
    head = apply_fn[:apply_fn.find("ApplyState::new(")] if "ApplyState::new(" in apply_fn else ""
    conds = [re.sub(r"\s+", "", m.group(1)) for m in re.finditer(r"\bif\s+([^{}]*?find_entry\(&plan\.id\)[^{}]*?)\{", head, re.S)]
    dup_up_front = conds == ["History::load(renamify_dir)?.find_entry(&plan.id).is_some()"]
    if "find_entry(&plan.id)" in head and not dup_up_front:
        common.log("translate/execflags: apply_plan's up-front duplicate-id refusal is no longer the unconditional "
                   f"`History::load(..)?.find_entry(&plan.id).is_some()` guard: {conds or 'find_entry outside an if condition'}")
    # repo commit 01297aa: two renames of one plan with the same destination are refused in the pre-flight loop (before
    # ApplyState::new), by a map from destination to source filled after the skip test and consulted before the exists test
    i_content = apply_fn.find("original_contents")          # STEP 1 starts here: everything before it is pre-flight
    if i_content < 0:
        raise RuntimeError("translate/execflags: apply_plan: STEP 1 (original_contents) not found")
    pre = apply_fn[:i_content]
    m_sd = re.search(r"if\s+let\s+Some\((\w+)\)\s*=\s*(\w+)\.insert\(\s*&rename\.new_path\s*,\s*&rename\.path\s*\)\s*\{\s*"
                     r"if\s+\1\s*!=\s*rename\.path\s*\{\s*return\s+Err\(", pre)
    i_skip = pre.find("rename.new_path == rename.path")
    i_exists = pre.find("symlink_metadata(&rename.new_path)")
    shared_dest = bool(m_sd) and 0 <= i_skip < m_sd.start() and (i_exists < 0 or m_sd.start() < i_exists)
    if ("insert(&rename.new_path" in apply_fn) != shared_dest:
        common.log("translate/execflags: apply_plan's pre-flight fills a destination map in a way the model has no variant for")
    # scanner.rs::write_plan: is an existing plan file REPLACED (File::create / truncate(true)) or written over in place?
    wp = strip_comments(fn_body(rd("scanner.rs"), r"pub fn write_plan\(plan: &Plan, path: &Path\)\s*->\s*Result<\(\)>\s*\{", "write_plan"))
    plan_truncates = "File::create(path)" in wp or bool(re.search(r"\.truncate\(\s*true\s*\)", wp))
    if not plan_truncates and "OpenOptions" not in wp and "fs::write(" not in wp:
        raise RuntimeError("translate/execflags: write_plan opens the plan file in a way the model does not know")
    if "fs::write(" in wp:
        plan_truncates = True
    per_pid = bool(re.search(r"with_extension\(\s*format!\(\s*\"\{\}\.renamify\.tmp\"\s*,\s*std::process::id\(\)\s*\)\s*\)", edit))
    fixed = ("temp_sibling(" in edit) or bool(re.search(r"with_extension\(\s*\"renamify\.tmp\"\s*\)", edit))
    if per_pid == fixed:
        raise RuntimeError("translate/execflags: cannot tell how apply_content_edits_with_content names its temp file")
    i_tmp = edit.find("temp_path")
    excl = "create_new(true)" in edit
    if not excl and "File::create(&temp_path)" not in edit:
        raise RuntimeError("translate/execflags: apply_content_edits_with_content opens its temp file in a way the model does not know")
    return {
        "tempNamePerPid": per_pid,
        "tempOpenExclusive": excl,
        "tempCleanupOnlyOwn": bool(re.search(r"if\s+temp_created\s*\{[^}]*remove_file", edit, re.S)),
        "dupIdRefusedUpFront": dup_up_front,
        "sharedDestRefused": shared_dest,
        "planWriteTruncates": plan_truncates,
        "rollbackRealPairs": "renames_executed" in rollback_fn,
        "logErrorsIgnored": "?;" not in log_fn,
        "historyEntryIsCommitPoint": late_rollback,
        "probeCleanupRetried": ".close()" in probe_fn and "remove_dir_all" in probe_fn,
        "atomicHistorySave": bool(re.search(r"fs::rename\(\s*&temp_path\s*,\s*&self\.path\s*\)", save)) and ".flush()" in save,
        "publishByLink": by_link,
        "emptyLockIsStale": bool(re.search(r"is_empty\(\)\s*\{[^}]*remove_file", acq, re.S))
                            or "Failed to remove unparsable lock file" in acq,
        "dropChecksContent": "owns_lock_file(" in drop,
        "lockApply": "LockFile::acquire" in op_apply,
        "lockUndo": "LockFile::acquire" in op_undo,
        "lockRedo": "LockFile::acquire" in op_redo,
        "lockReplace": "LockFile::acquire" in op_replace,
        "lockWriteFailureCleans": bool(re.search(r"if let Err\(\w+\) = file\.write_all[^}]*remove_file", acq, re.S)),
        "undoPrevalidate": 0 <= i_chk < i_ren,
        "redoPrevalidate": 0 <= i_get < i_apply,
        "undoViaTemp": bool(re.search(r"fs::rename\(\s*&temp_path\s*,\s*file_path\s*\)", patch)),
        "undoTempRemovedOnFailure": "fs::remove_file(&temp_path)" in patch,
        "tempRemovedOnFailure": "fs::remove_file(&temp_path)" in edit,
        "offsetsChecked": bool(re.search(r"original_content\s*\.get\(\s*\*start\s*\.\.\s*\*end\s*\)", edit))
                          and bool(re.search(r"modified\s*\.get\(\s*\*start\s*\.\.\s*\*end\s*\)", edit)),
    }


DOC = {
    "tempNamePerPid": "the temp file of a content edit is named <stem>.<pid>.renamify.tmp (a leftover of a killed process never collides)",
    "tempOpenExclusive": "the temp file of a content edit is opened with create_new (O_EXCL) instead of File::create (O_TRUNC)",
    "tempCleanupOnlyOwn": "the error path of a content edit removes the temp file only if this call created it",
    "dupIdRefusedUpFront": "apply_plan refuses a plan whose id is already in the history before anything is touched, unconditionally "
                           "(`if History::load(renamify_dir)?.find_entry(&plan.id).is_some()` ahead of ApplyState::new)",
    "sharedDestRefused": "apply_plan's pre-flight refuses a plan in which two renames with different sources share a destination "
                         "(checked per rename after the skip test and before the exists test)",
    "planWriteTruncates": "scanner.rs::write_plan replaces an existing plan file (File::create / truncate(true)) instead of writing over it in place",
    "rollbackRealPairs": "apply.rs::rollback reverts the renames with the paths they were executed with (renames_executed)",
    "logErrorsIgnored": "ApplyState::log drops a line it cannot write instead of propagating the error",
    "historyEntryIsCommitPoint": "apply_plan: patches, stored plan (removed on failure), history entry last; a failure rolls the renames back",
    "probeCleanupRetried": "rename.rs::detect_case_insensitive_fs closes its TempDir explicitly and retries the removal once",
    "atomicHistorySave": "history.rs::save writes `history.json.<pid>.tmp`, flushes, and renames it over history.json",
    "emptyLockIsStale": "lock.rs::acquire removes an empty / unparsable lock file as abandoned instead of failing on it",
    "publishByLink": "lock.rs::acquire writes renamify.lock.<pid>.tmp and publishes it with fs::hard_link (never visible empty)",
    "dropChecksContent": "Drop for LockFile removes the lock file only if it still holds this process's own content",
    "lockApply": "operations/apply.rs::apply_operation takes the workspace lock",
    "lockUndo": "operations/undo.rs::undo_operation takes the workspace lock",
    "lockRedo": "operations/undo.rs::redo_operation takes the workspace lock",
    "lockReplace": "renamify-cli/src/replace.rs::handle_replace takes the workspace lock (unless --dry-run)",
    "lockWriteFailureCleans": "lock.rs::acquire removes the lock file again when writing its content fails",
    "undoPrevalidate": "undo.rs::undo_renaming checks every reverse patch in memory before it touches anything",
    "redoPrevalidate": "undo.rs::redo_renaming compares every hunk of the stored plan with the files before apply_plan",
    "undoViaTemp": "undo.rs::apply_single_patch writes a temp file and renames it over the user's file",
    "undoTempRemovedOnFailure": "undo.rs::apply_single_patch removes its temp file when a step fails",
    "offsetsChecked": "apply.rs::apply_content_edits_with_content slices with str::get (a stale offset is a content mismatch, "
                      "not a panic): the model's Edits.applyEdits = applyEditsG true",
    "tempRemovedOnFailure": "apply.rs::apply_content_edits_with_content removes the temp file when a step fails",
}


def run():
    fl = flags(common.REPO)
    out = ["/- GENERATED by translate/execflags.py from history.rs, lock.rs, undo.rs, apply.rs — do not edit -/",
           "namespace ExecFlags"]
    for k in sorted(fl):
        out.append(f"/-- {DOC[k]} -/")
        out.append(f"def {k} : Bool := {'true' if fl[k] else 'false'}")
    out.append("end ExecFlags")
    path = os.path.join(common.LEAN, "RModel", "Gen", "ExecFlags.lean")
    return [(path, common.write_if_changed(path, "\n".join(out) + "\n"))]
