"""Gen/SignalHandlers.lean: what the two signal handlers of renamify-cli/src/main.rs do, where the interrupted flag is
consulted, who activates the confirmation-prompt guard (renamify-core/src/interrupt.rs and its users) and whether the
prompt exit releases the held locks (renamify-core/src/lock.rs).

Extracted syntactically (brace matching on the Rust text with comments and string literals blanked):
  * the closure passed to `ctrlc::set_handler` (SIGINT) and to `signal_hook::low_level::register(SIGTERM, ..)`:
    does it store `true` to the flag; every `process::exit(N)` in it, split into "inside an
    `if ...confirmation_prompt_active() {` block" and "elsewhere"; whether `release_held_locks()` is called inside
    that block before the exit; how many other calls it makes (anything but eprintln!/swap/store/exit/
    confirmation_prompt_active/the guarded release_held_locks);
  * where the flag decides the status after `let result = match cli.command`: `all` = the statement
    `if interrupted.load(..) { .. process::exit(N) }` before `match result` (the shape before 279b830), `okOnly` =
    `let X = interrupted.load(..);` followed by `if X { .. exit(N) }` inside the `Ok(())` arm only, `none`; the constant N;
  * to which command handlers the flag is handed (`interrupted` mentioned inside an arm of the command match);
  * interrupt.rs: activate() stores true, Drop stores false, confirmation_prompt_active() loads; the call sites of
    `ConfirmationPromptGuard::activate` in renamify-core and renamify-cli;
  * every closure handed to `signal_hook::low_level::register` runs in real signal context: the calls in it that are not
    async-signal-safe (anything but atomic store / swap / load / fetch_*; macros such as eprintln! included) are counted;
  * lock.rs: acquire registers the path in HELD_LOCKS and release_held_locks removes the registered files; both it and
    LockFile::drop unlink only inside `if owns_lock_file(..)` (content still `pid:timestamp` of this process).
Raises if main.rs / interrupt.rs do not have the expected shape (broken tie)."""
import os
import re

from checks import common


from ._rust import Shape, blank, match_brace


def closure_body(text, anchor_re, what):
    m = re.search(anchor_re, text)
    if not m:
        raise Shape(f"{what}: anchor not found")
    mm = re.compile(r"move\s*\|\|\s*\{").search(text, m.end())
    if not mm or mm.start() - m.end() > 120:
        raise Shape(f"{what}: no `move || {{` closure after the anchor")
    a = mm.end() - 1
    b = match_brace(text, a)
    return a + 1, b


ALLOWED_CALLS = {"eprintln", "eprint", "exit", "swap", "store", "confirmation_prompt_active", "load"}
RELEASE = "release_held_locks"


def analyse_handler(text, a, b, what):
    body = text[a:b]
    sets_flag = bool(re.search(r"\binterrupted\w*\s*\.\s*(swap|store)\s*\(\s*true\b", body))
    # guarded regions: `if <cond containing confirmation_prompt_active()> { ... }`
    guarded = []
    for m in re.finditer(r"\bif\b([^{;]*)\{", body):
        if "confirmation_prompt_active" in m.group(1) and "!" not in m.group(1):
            o = m.end() - 1
            guarded.append((o, match_brace(body, o)))
    under, always = [], []
    for m in re.finditer(r"\bexit\s*\(\s*(\d+)\s*\)", body):
        code = int(m.group(1))
        if any(x < m.start() < y for x, y in guarded):
            under.append(code)
        else:
            always.append(code)
    if re.search(r"\b(exit|abort|_exit)\s*\(\s*[^\d\s)]", body):
        raise Shape(f"{what}: exit with a non-constant code")
    others = []
    releases = False
    for m in re.finditer(r"([A-Za-z_][\w:]*)\s*(!?)\s*\(", body):
        name = m.group(1).split("::")[-1]
        if name in ("if", "while", "match", "for", "return", "move"):
            continue
        if name == RELEASE and any(x < m.start() < y for x, y in guarded):
            # lock::release_held_locks() inside the prompt-guard block, before the exit in it
            ex = [e.start() for e in re.finditer(r"\bexit\s*\(", body) if any(x < e.start() < y for x, y in guarded)]
            if ex and m.start() < min(ex):
                releases = True
                continue
        if name not in ALLOWED_CALLS:
            others.append(m.group(1))
    for m in re.finditer(r"\.\s*([A-Za-z_]\w*)\s*\(", body):
        if m.group(1) not in ALLOWED_CALLS and m.group(1) not in others:
            others.append("." + m.group(1))
    if len(set(under)) > 1 or len(set(always)) > 1:
        raise Shape(f"{what}: several different exit codes")
    return {"sets_flag": sets_flag, "under": under[0] if under else None, "always": always[0] if always else None,
            "releases": releases, "others": sorted(set(others))}


SIGNAL_SAFE = {"store", "swap", "load", "fetch_add", "fetch_sub", "fetch_or", "fetch_and", "compare_exchange"}


def signal_context_closures(main):
    """every closure handed to `signal_hook::low_level::register(..)`: it runs in real signal context (possibly inside the
    interrupted thread's own `eprintln!` or allocator), so only async-signal-safe work is allowed in it: atomic store / swap /
    load / fetch_*.  Returns a list of {signal, unsafe: [names]} — macros (eprintln!, println!, format!, …), process::exit,
    lock release, allocation, any other call are all reported."""
    out = []
    for m in re.finditer(r"signal_hook::low_level::register\s*\(\s*([\w:]+)\s*,", main):
        mm = re.compile(r"(?:move\s*)?\|\|\s*\{").search(main, m.end())
        if not mm or mm.start() - m.end() > 200:
            raise Shape("low_level::register: the handler is not an inline closure (cannot inspect a signal-context handler)")
        a = mm.end() - 1
        body = main[a + 1:match_brace(main, a)]
        bad = []
        for c in re.finditer(r"([A-Za-z_][\w:]*)\s*(!?)\s*\(", body):
            name = c.group(1).split("::")[-1]
            if name in ("if", "while", "match", "for", "return", "move"):
                continue
            if c.group(2) == "!" or name not in SIGNAL_SAFE:
                bad.append(c.group(1) + c.group(2))
        for kw in re.findall(r"\b(Box::new|String::from|vec!|format!|to_string|to_owned)\b", body):
            if kw not in bad:
                bad.append(kw)
        out.append({"signal": m.group(1).split("::")[-1], "unsafe": bad,
                    "stores_flag": bool(re.search(r"\.\s*(store|swap)\s*\(\s*true\b", body))})
    others = len(re.findall(r"signal_hook::(?:flag|iterator|low_level::pipe)", main))
    return out, others


def opt(v):
    return "none" if v is None else f"(some {v})"


def extract():
    repo = common.REPO
    main_path = os.path.join(repo, "renamify-cli/src/main.rs")
    raw = open(main_path).read()
    text = blank(raw)
    fm = re.search(r"\bfn\s+main\s*\(\s*\)\s*\{", text)
    if not fm:
        raise Shape("main.rs: fn main() not found")
    m_a = fm.end() - 1
    m_b = match_brace(text, m_a)
    main = text[m_a:m_b]
    if not re.search(r"let\s+interrupted\s*=\s*Arc::new\s*\(\s*AtomicBool::new\s*\(\s*false\s*\)\s*\)", main):
        raise Shape("main.rs: `let interrupted = Arc::new(AtomicBool::new(false))` not found")
    a, b = closure_body(main, r"ctrlc::set_handler\s*\(", "SIGINT handler")
    sigint = analyse_handler(main, a, b, "SIGINT handler")
    a2, b2 = closure_body(main, r"signal_hook::low_level::register\s*\(\s*signal_hook::consts::SIGTERM\s*,", "SIGTERM handler")
    sigterm = analyse_handler(main, a2, b2, "SIGTERM handler")
    sigctx, sigctx_other = signal_context_closures(main)
    extra_handlers = len(re.findall(r"set_handler\s*\(|low_level::register\s*\(|signal_hook::flag::register|sigaction\s*\(", main)) - 2

    r0 = re.search(r"let\s+result\s*=\s*match\s+cli\s*\.\s*command\s*\{", main)
    if not r0:
        raise Shape("main.rs: `let result = match cli.command {` not found")
    r1 = match_brace(main, r0.end() - 1)
    mr = re.compile(r"\bmatch\s+result\s*\{").search(main, r1)
    if not mr:
        raise Shape("main.rs: `match result {` after the command not found")
    arm_end = match_brace(main, mr.end() - 1)
    scope, code = "none", 0
    chk = [m for m in re.finditer(r"\bif\s+interrupted\s*\.\s*load\s*\([^)]*\)\s*\{", main) if r1 < m.start() < mr.start()]
    if chk:
        c = chk[0]
        em = re.search(r"\bexit\s*\(\s*(\d+)\s*\)", main[c.end():match_brace(main, c.end() - 1)])
        if not em:
            raise Shape("main.rs: the flag check does not call exit(<constant>)")
        scope, code = "all", int(em.group(1))
    else:
        lv = re.compile(r"\blet\s+(\w+)\s*=\s*interrupted\s*\.\s*load\s*\([^)]*\)\s*;").search(main, r1)
        if lv and lv.start() < mr.start():
            var = lv.group(1)
            okarm = re.compile(r"\bOk\s*\(\s*\(\s*\)\s*\)\s*=>\s*\{").search(main, mr.end())
            if okarm and okarm.start() < arm_end:
                ob = match_brace(main, okarm.end() - 1)
                t = re.search(r"\bif\s+" + var + r"\s*\{", main[okarm.end():ob])
                if t:
                    tb = match_brace(main, okarm.end() + t.end() - 1)
                    em = re.search(r"\bexit\s*\(\s*(\d+)\s*\)", main[okarm.end() + t.end():tb])
                    if not em:
                        raise Shape("main.rs: the flag test in the Ok arm does not call exit(<constant>)")
                    scope, code = "okOnly", int(em.group(1))
            # the flag must not be consulted in the Err arm as well
            errarm = re.compile(r"\bErr\s*\(\s*\w+\s*\)\s*=>\s*\{").search(main, mr.end())
            if errarm and errarm.start() < arm_end:
                eb = match_brace(main, errarm.end() - 1)
                if re.search(r"\b" + var + r"\b", main[errarm.end():eb]):
                    raise Shape("main.rs: the Err arm consults the interrupted flag too (shape unknown to the translator)")
    # exit statuses of the error arm
    arm = main[mr.start():arm_end]
    err_codes = sorted(set(int(x) for x in re.findall(r"(?<![\w.])(\d+)(?![\w.])", arm)) - {0, code})
    # who receives the flag
    cmd = main[r0.start():r1]
    passed = []
    arms = list(re.finditer(r"Commands::(\w+)\s*(\{[^}]*\})?\s*=>", cmd))
    for i, m in enumerate(arms):
        end = arms[i + 1].start() if i + 1 < len(arms) else len(cmd)
        if re.search(r"\binterrupted\b", cmd[m.end():end]):
            passed.append(m.group(1))

    it_raw = open(os.path.join(repo, "renamify-core/src/interrupt.rs")).read()
    it = blank(it_raw)
    act = re.search(r"pub\s+fn\s+activate\s*\(\s*\)\s*->\s*Self\s*\{", it)
    drp = re.search(r"impl\s+Drop\s+for\s+ConfirmationPromptGuard\s*\{", it)
    qry = re.search(r"pub\s+fn\s+confirmation_prompt_active\s*\(\s*\)\s*->\s*bool\s*\{", it)
    if not (act and drp and qry):
        raise Shape("interrupt.rs: activate / Drop / confirmation_prompt_active not found")
    act_b = it[act.end():match_brace(it, act.end() - 1)]
    drp_b = it[drp.end():match_brace(it, drp.end() - 1)]
    qry_b = it[qry.end():match_brace(it, qry.end() - 1)]
    guard_ok = (bool(re.search(r"CONFIRMATION_PROMPT_ACTIVE\s*\.\s*store\s*\(\s*true\b", act_b)) and
                bool(re.search(r"CONFIRMATION_PROMPT_ACTIVE\s*\.\s*store\s*\(\s*false\b", drp_b)) and
                bool(re.search(r"CONFIRMATION_PROMPT_ACTIVE\s*\.\s*load\s*\(", qry_b)))
    users = []
    for base in ("renamify-core/src", "renamify-cli/src"):
        for dp, dn, fn in os.walk(os.path.join(repo, base)):
            for f in sorted(fn):
                if not f.endswith(".rs"):
                    continue
                p = os.path.join(dp, f)
                t = blank(open(p).read())
                for m in re.finditer(r"ConfirmationPromptGuard::activate\s*\(", t):
                    fns = list(re.finditer(r"\bfn\s+(\w+)", t[:m.start()]))
                    users.append(os.path.relpath(p, repo) + "::" + (fns[-1].group(1) if fns else "?"))
    lk = blank(open(os.path.join(repo, "renamify-core/src/lock.rs")).read())
    held_ok = False
    rel = re.search(r"pub\s+fn\s+release_held_locks\s*\(\s*\)\s*\{", lk)
    if rel:
        rb = lk[rel.end():match_brace(lk, rel.end() - 1)]
        acq = re.search(r"pub\s+fn\s+acquire\s*\(", lk)
        ab = ""
        if acq:
            o = lk.find("{", match_brace(lk, acq.end() - 1))
            ab = lk[o:match_brace(lk, o)]
        held_ok = (bool(re.search(r"HELD_LOCKS", rb)) and bool(re.search(r"remove_file\s*\(", rb)) and
                   bool(re.search(r"held\s*\.\s*push\s*\(\s*\(?\s*lock_path", ab)))
    # ownership check: in release_held_locks and in Drop the remove_file stands inside `if owns_lock_file(..) {`,
    # and owns_lock_file compares the file content with "<pid>:<timestamp>"
    def guarded_remove(body):
        ok = False
        for m in re.finditer(r"\bif\s+owns_lock_file\s*\([^{]*\{", body):
            o = m.end() - 1
            if re.search(r"remove_file\s*\(", body[o:match_brace(body, o)]):
                ok = True
        outside = len(re.findall(r"remove_file\s*\(", body))
        inside = sum(len(re.findall(r"remove_file\s*\(", body[m.end() - 1:match_brace(body, m.end() - 1)]))
                     for m in re.finditer(r"\bif\s+owns_lock_file\s*\([^{]*\{", body))
        return ok and outside == inside
    own_ok = False
    drp = re.search(r"impl\s+Drop\s+for\s+LockFile\s*\{", lk)
    own = re.search(r"\bfn\s+owns_lock_file\s*\(", lk)
    if rel and drp and own:
        db = lk[drp.end():match_brace(lk, drp.end() - 1)]
        oo = lk.find("{", match_brace(lk, own.end() - 1))
        ob = lk[oo:match_brace(lk, oo)]
        own_ok = (guarded_remove(rb) and guarded_remove(db) and bool(re.search(r"read_to_string\s*\(", ob))
                  and bool(re.search(r"==", ob)))
    return {"sigint": sigint, "sigterm": sigterm, "extra_handlers": extra_handlers, "scope": scope,
            "code": code, "err_codes": err_codes, "passed": passed,
            "guard_ok": guard_ok, "users": sorted(users), "held_ok": held_ok, "own_ok": own_ok,
            "sigctx": sigctx, "sigctx_other": sigctx_other}


def render(f):
    def handler(name, h):
        return [f"/-- calls besides eprintln!/swap/store/exit/confirmation_prompt_active/guarded release_held_locks: {', '.join(h['others']) or 'none'} -/",
                f"def {name} : Handler :=",
                f"  {{ setsFlag := {str(h['sets_flag']).lower()}, exitUnderPrompt := {opt(h['under'])}, "
                f"exitAlways := {opt(h['always'])}, releasesLocks := {str(h['releases']).lower()}, "
                f"otherCalls := {len(h['others'])} }}", ""]
    out = ["/- GENERATED by translate/signal_handlers.py from renamify-cli/src/main.rs and renamify-core/src/interrupt.rs — do not edit -/",
           "namespace Gen.SignalHandlers", "",
           "structure Handler where",
           "  /-- the body stores `true` to the interrupted flag -/",
           "  setsFlag : Bool",
           "  /-- `process::exit(c)` inside `if confirmation_prompt_active() { .. }` -/",
           "  exitUnderPrompt : Option Nat",
           "  /-- `process::exit(c)` anywhere else in the body -/",
           "  exitAlways : Option Nat",
           "  /-- `lock::release_held_locks()` is called inside the prompt-guard block, before the exit in it -/",
           "  releasesLocks : Bool",
           "  /-- number of distinct other functions/methods called in the body -/",
           "  otherCalls : Nat",
           "  deriving DecidableEq, Repr", ""]
    out += handler("sigint", f["sigint"])
    out += handler("sigterm", f["sigterm"])
    out += ["/-- closures registered with `signal_hook::low_level::register`: they run in REAL SIGNAL CONTEXT (the ctrlc handler runs",
            "    on ctrlc's own thread and is not one of them) -/",
            f"def signalContextHandlers : Nat := {len(f['sigctx'])}", "",
            "/-- calls in those closures that are not async-signal-safe (anything but atomic store / swap / load / fetch_*):",
            "    " + ("; ".join(f"{h['signal']}: {', '.join(h['unsafe']) or 'none'}" for h in f["sigctx"]) or "no such closure") + " -/",
            f"def signalContextUnsafeCalls : Nat := {sum(len(h['unsafe']) for h in f['sigctx'])}", "",
            "/-- every such closure stores `true` to the flag -/",
            f"def signalContextHandlersStoreFlag : Bool := {str(all(h['stores_flag'] for h in f['sigctx']) and bool(f['sigctx'])).lower()}", "",
            "/-- handler registrations in `main` beyond the two above -/",
            f"def extraHandlers : Nat := {f['extra_handlers']}", "",
            "/-- where the interrupted flag decides the status, after `let result = match cli.command {..};`:",
            "    all    = `if interrupted.load(..) { exit(c) }` before `match result` (c wins over the command's own status)",
            "    okOnly = the flag is read after the command and tested only inside the `Ok(())` arm of `match result`",
            "    none   = no such test -/",
            "inductive FlagScope where | all | okOnly | none",
            "  deriving DecidableEq, Repr", "",
            f"def flagScope : FlagScope := .{f['scope']}", "",
            f"def interruptExitCode : Nat := {f['code']}", "",
            "/-- the non-zero constants of the `match result` arm -/",
            f"def errorExitCodes : List Nat := [{', '.join(str(c) for c in f['err_codes'])}]", "",
            f"/-- command arms that mention the flag: {', '.join(f['passed']) or 'none'} -/",
            f"def flagPassedToCommands : Nat := {len(f['passed'])}",
            f"def flagPassedOnlyToTestLock : Bool := {str(f['passed'] in ([], ['TestLock'])).lower()}", "",
            "/-- interrupt.rs: activate() stores true, Drop stores false, confirmation_prompt_active() loads -/",
            f"def promptGuardWellFormed : Bool := {str(f['guard_ok']).lower()}", "",
            f"/-- call sites of ConfirmationPromptGuard::activate: {', '.join(f['users']) or 'none'} -/",
            f"def promptGuardUsers : Nat := {len(f['users'])}",
            "def promptGuardOnlyInRenameConfirmation : Bool := "
            + str(f["users"] == ["renamify-core/src/operations/rename.rs::get_user_confirmation"]).lower(), "",
            "/-- lock.rs: acquire registers the lock path in HELD_LOCKS; release_held_locks removes every registered file -/",
            f"def heldLocksReleasable : Bool := {str(f['held_ok']).lower()}", "",
            "/-- lock.rs: release_held_locks and LockFile::drop remove the file only inside `if owns_lock_file(..)`, which compares",
            "    the file's content with this process's `pid:timestamp` (a read before the unlink; never another process's lock) -/",
            f"def releaseChecksOwnership : Bool := {str(f['own_ok']).lower()}", "",
            "end Gen.SignalHandlers", ""]
    return "\n".join(out)


def run():
    f = extract()
    path = os.path.join(common.LEAN, "RModel/Gen/SignalHandlers.lean")
    return [("Gen/SignalHandlers.lean", common.write_if_changed(path, render(f)))]


if __name__ == "__main__":
    import json
    print(json.dumps(extract(), indent=1))
