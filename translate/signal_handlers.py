"""Gen/SignalHandlers.lean: what the two signal handlers of renamify-cli/src/main.rs do, where the interrupted flag is
checked, and who activates the confirmation-prompt guard (renamify-core/src/interrupt.rs and its users).

Extracted syntactically (brace matching on the Rust text with comments and string literals blanked):
  * the closure passed to `ctrlc::set_handler` (SIGINT) and to `signal_hook::low_level::register(SIGTERM, ..)`:
    does it store `true` to the flag; every `process::exit(N)` in it, split into "inside an
    `if ...confirmation_prompt_active() {` block" and "elsewhere"; how many other calls it makes
    (anything but eprintln!/swap/store/exit/confirmation_prompt_active);
  * the statement `if interrupted.load(..) { .. process::exit(N) }` between `let result = match cli.command`
    and `match result`: present, its position relative to both, the constant N;
  * to which command handlers the flag is handed (`Arc::clone(&interrupted)` inside the command match);
  * interrupt.rs: activate() stores true, Drop stores false, confirmation_prompt_active() loads; the call sites of
    `ConfirmationPromptGuard::activate` in renamify-core and renamify-cli.
Raises if main.rs / interrupt.rs do not have the expected shape (broken tie)."""
import os
import re

from checks import common


from ._rust import Shape, blank, match_brace


def closure_body(text, anchor_re, what):
    m = re.search(anchor_re, text)
    if not m:
        raise Shape(f"{what}: anchor not found")
    mm = re.compile(r"move\s*\|\|\s*\{").search(text, m.end())
    if not mm or mm.start() - m.end() > 120:
        raise Shape(f"{what}: no `move || {{` closure after the anchor")
    a = mm.end() - 1
    b = match_brace(text, a)
    return a + 1, b


ALLOWED_CALLS = {"eprintln", "eprint", "exit", "swap", "store", "confirmation_prompt_active", "load"}


def analyse_handler(text, a, b, what):
    body = text[a:b]
    sets_flag = bool(re.search(r"\binterrupted\w*\s*\.\s*(swap|store)\s*\(\s*true\b", body))
    # guarded regions: `if <cond containing confirmation_prompt_active()> { ... }`
    guarded = []
    for m in re.finditer(r"\bif\b([^{;]*)\{", body):
        if "confirmation_prompt_active" in m.group(1) and "!" not in m.group(1):
            o = m.end() - 1
            guarded.append((o, match_brace(body, o)))
    under, always = [], []
    for m in re.finditer(r"\bexit\s*\(\s*(\d+)\s*\)", body):
        code = int(m.group(1))
        if any(x < m.start() < y for x, y in guarded):
            under.append(code)
        else:
            always.append(code)
    if re.search(r"\b(exit|abort|_exit)\s*\(\s*[^\d\s)]", body):
        raise Shape(f"{what}: exit with a non-constant code")
    others = []
    for m in re.finditer(r"([A-Za-z_][\w:]*)\s*(!?)\s*\(", body):
        name = m.group(1).split("::")[-1]
        if name in ("if", "while", "match", "for", "return", "move"):
            continue
        if name not in ALLOWED_CALLS:
            others.append(m.group(1))
    for m in re.finditer(r"\.\s*([A-Za-z_]\w*)\s*\(", body):
        if m.group(1) not in ALLOWED_CALLS and m.group(1) not in others:
            others.append("." + m.group(1))
    if len(set(under)) > 1 or len(set(always)) > 1:
        raise Shape(f"{what}: several different exit codes")
    return {"sets_flag": sets_flag, "under": under[0] if under else None, "always": always[0] if always else None,
            "others": sorted(set(others))}


def opt(v):
    return "none" if v is None else f"(some {v})"


def extract():
    repo = common.REPO
    main_path = os.path.join(repo, "renamify-cli/src/main.rs")
    raw = open(main_path).read()
    text = blank(raw)
    fm = re.search(r"\bfn\s+main\s*\(\s*\)\s*\{", text)
    if not fm:
        raise Shape("main.rs: fn main() not found")
    m_a = fm.end() - 1
    m_b = match_brace(text, m_a)
    main = text[m_a:m_b]
    if not re.search(r"let\s+interrupted\s*=\s*Arc::new\s*\(\s*AtomicBool::new\s*\(\s*false\s*\)\s*\)", main):
        raise Shape("main.rs: `let interrupted = Arc::new(AtomicBool::new(false))` not found")
    a, b = closure_body(main, r"ctrlc::set_handler\s*\(", "SIGINT handler")
    sigint = analyse_handler(main, a, b, "SIGINT handler")
    a2, b2 = closure_body(main, r"signal_hook::low_level::register\s*\(\s*signal_hook::consts::SIGTERM\s*,", "SIGTERM handler")
    sigterm = analyse_handler(main, a2, b2, "SIGTERM handler")
    extra_handlers = len(re.findall(r"set_handler\s*\(|low_level::register\s*\(|signal_hook::flag::register|sigaction\s*\(", main)) - 2

    r0 = re.search(r"let\s+result\s*=\s*match\s+cli\s*\.\s*command\s*\{", main)
    if not r0:
        raise Shape("main.rs: `let result = match cli.command {` not found")
    r1 = match_brace(main, r0.end() - 1)
    mr = re.compile(r"\bmatch\s+result\s*\{").search(main, r1)
    if not mr:
        raise Shape("main.rs: `match result {` after the command not found")
    chk_all = [m for m in re.finditer(r"\bif\s+interrupted\s*\.\s*load\s*\([^)]*\)\s*\{", main)]
    chk_after = [m for m in chk_all if m.start() > r1]
    flag_after = bool(chk_after)
    before_match = False
    code = 0
    if chk_after:
        c = chk_after[0]
        cb = match_brace(main, c.end() - 1)
        em = re.search(r"\bexit\s*\(\s*(\d+)\s*\)", main[c.end():cb])
        if not em:
            raise Shape("main.rs: the flag check does not call exit(<constant>)")
        code = int(em.group(1))
        before_match = c.start() < mr.start()
    # exit statuses of the error arm
    arm = main[mr.start():match_brace(main, mr.end() - 1)]
    err_codes = sorted(set(int(x) for x in re.findall(r"(?<![\w.])(\d+)(?![\w.])", arm)) - {0})
    # who receives the flag
    cmd = main[r0.start():r1]
    passed = []
    arms = list(re.finditer(r"Commands::(\w+)\s*(\{[^}]*\})?\s*=>", cmd))
    for i, m in enumerate(arms):
        end = arms[i + 1].start() if i + 1 < len(arms) else len(cmd)
        if re.search(r"\binterrupted\b", cmd[m.end():end]):
            passed.append(m.group(1))

    it_raw = open(os.path.join(repo, "renamify-core/src/interrupt.rs")).read()
    it = blank(it_raw)
    act = re.search(r"pub\s+fn\s+activate\s*\(\s*\)\s*->\s*Self\s*\{", it)
    drp = re.search(r"impl\s+Drop\s+for\s+ConfirmationPromptGuard\s*\{", it)
    qry = re.search(r"pub\s+fn\s+confirmation_prompt_active\s*\(\s*\)\s*->\s*bool\s*\{", it)
    if not (act and drp and qry):
        raise Shape("interrupt.rs: activate / Drop / confirmation_prompt_active not found")
    act_b = it[act.end():match_brace(it, act.end() - 1)]
    drp_b = it[drp.end():match_brace(it, drp.end() - 1)]
    qry_b = it[qry.end():match_brace(it, qry.end() - 1)]
    guard_ok = (bool(re.search(r"CONFIRMATION_PROMPT_ACTIVE\s*\.\s*store\s*\(\s*true\b", act_b)) and
                bool(re.search(r"CONFIRMATION_PROMPT_ACTIVE\s*\.\s*store\s*\(\s*false\b", drp_b)) and
                bool(re.search(r"CONFIRMATION_PROMPT_ACTIVE\s*\.\s*load\s*\(", qry_b)))
    users = []
    for base in ("renamify-core/src", "renamify-cli/src"):
        for dp, dn, fn in os.walk(os.path.join(repo, base)):
            for f in sorted(fn):
                if not f.endswith(".rs"):
                    continue
                p = os.path.join(dp, f)
                t = blank(open(p).read())
                for m in re.finditer(r"ConfirmationPromptGuard::activate\s*\(", t):
                    fns = list(re.finditer(r"\bfn\s+(\w+)", t[:m.start()]))
                    users.append(os.path.relpath(p, repo) + "::" + (fns[-1].group(1) if fns else "?"))
    return {"sigint": sigint, "sigterm": sigterm, "extra_handlers": extra_handlers, "flag_after": flag_after,
            "before_match": before_match, "code": code, "err_codes": err_codes, "passed": passed,
            "guard_ok": guard_ok, "users": sorted(users)}


def render(f):
    def handler(name, h):
        return [f"/-- calls besides eprintln!/swap/store/exit/confirmation_prompt_active: {', '.join(h['others']) or 'none'} -/",
                f"def {name} : Handler :=",
                f"  {{ setsFlag := {str(h['sets_flag']).lower()}, exitUnderPrompt := {opt(h['under'])}, "
                f"exitAlways := {opt(h['always'])}, otherCalls := {len(h['others'])} }}", ""]
    out = ["/- GENERATED by translate/signal_handlers.py from renamify-cli/src/main.rs and renamify-core/src/interrupt.rs — do not edit -/",
           "namespace Gen.SignalHandlers", "",
           "structure Handler where",
           "  /-- the body stores `true` to the interrupted flag -/",
           "  setsFlag : Bool",
           "  /-- `process::exit(c)` inside `if confirmation_prompt_active() { .. }` -/",
           "  exitUnderPrompt : Option Nat",
           "  /-- `process::exit(c)` anywhere else in the body -/",
           "  exitAlways : Option Nat",
           "  /-- number of distinct other functions/methods called in the body -/",
           "  otherCalls : Nat",
           "  deriving DecidableEq, Repr", ""]
    out += handler("sigint", f["sigint"])
    out += handler("sigterm", f["sigterm"])
    out += ["/-- handler registrations in `main` beyond the two above -/",
            f"def extraHandlers : Nat := {f['extra_handlers']}", "",
            "/-- `if interrupted.load(..) { .. exit(c) }` exists after `let result = match cli.command {..};` -/",
            f"def flagCheckAfterCommand : Bool := {str(f['flag_after']).lower()}", "",
            "/-- … and stands before `match result {` (so 130 wins over the command's own error code) -/",
            f"def flagCheckBeforeResultMatch : Bool := {str(f['before_match']).lower()}", "",
            f"def interruptExitCode : Nat := {f['code']}", "",
            "/-- the non-zero constants of the `match result` arm -/",
            f"def errorExitCodes : List Nat := [{', '.join(str(c) for c in f['err_codes'])}]", "",
            f"/-- command arms that mention the flag: {', '.join(f['passed']) or 'none'} -/",
            f"def flagPassedToCommands : Nat := {len(f['passed'])}",
            f"def flagPassedOnlyToTestLock : Bool := {str(f['passed'] in ([], ['TestLock'])).lower()}", "",
            "/-- interrupt.rs: activate() stores true, Drop stores false, confirmation_prompt_active() loads -/",
            f"def promptGuardWellFormed : Bool := {str(f['guard_ok']).lower()}", "",
            f"/-- call sites of ConfirmationPromptGuard::activate: {', '.join(f['users']) or 'none'} -/",
            f"def promptGuardUsers : Nat := {len(f['users'])}",
            "def promptGuardOnlyInRenameConfirmation : Bool := "
            + str(f["users"] == ["renamify-core/src/operations/rename.rs::get_user_confirmation"]).lower(), "",
            "end Gen.SignalHandlers", ""]
    return "\n".join(out)


def run():
    f = extract()
    path = os.path.join(common.LEAN, "RModel/Gen/SignalHandlers.lean")
    return [("Gen/SignalHandlers.lean", common.write_if_changed(path, render(f)))]


if __name__ == "__main__":
    import json
    print(json.dumps(extract(), indent=1))
