"""Gen/LineAfterColumn.lean: which position does scanner.rs::generate_hunks use to splice a match into the (lossily decoded)
line when it builds `line_after` — the match's BYTE column (`m.column`) or a CHARACTER offset?

`line_after` is sliced by byte (`line.get(pos..)`, `&line[..pos]`, directly or inside a local helper function).  The theorem
C15.line_after_single ("the after line is the line with THAT match replaced; the find() fallback is unreachable") is true only
for a byte column: with a character offset the slice misses as soon as a multi-byte character precedes the match and the
fallback replaces the first textual occurrence instead.  Extraction, from the statement `let line_after = …;` of generate_hunks:

  * the positions used to slice: identifiers in `.get(ID..)`, `[..ID]`, `[ID..]`, and identifiers passed in the position
    argument of a local helper whose body slices its parameter that way;
  * the fallback position (bound from `.find(`) is ignored; the first remaining identifier is THE column;
  * its binding `let ID = <expr>;` inside generate_hunks decides: `m.column` -> byte (true); an expression mentioning
    `char_offset`, `byte_offset_to_char_offset` or `.chars()` -> character (false); anything else raises.

A restructuring this cannot follow raises (broken tie).  The flag is validated against behaviour by the hunk-geometry
correspondence of checks/c03.py and checks/c15.py (the model splices at the column the flag says)."""
import os
import re

from checks import common
from translate.replace_offsets import function_body

SLICE = [r"\.get\(\s*(\w+)\s*\.\.\s*\)", r"\[\s*\.\.\s*(\w+)\s*\]", r"\[\s*(\w+)\s*\.\.\s*\]"]


def statement(body, start):
    """text from `start` to the `;` that closes the statement (depth 0 w.r.t. (), [], {})"""
    depth, j = 0, start
    while j < len(body):
        c = body[j]
        if c in "([{":
            depth += 1
        elif c in ")]}":
            depth -= 1
        elif c == ";" and depth == 0:
            return body[start:j]
        j += 1
    raise RuntimeError("translate/line_after_column: unterminated `let line_after` statement")


def helper_positions(src, stmt):
    """(helper name, index of its slicing parameter) for local functions called in the statement"""
    out = []
    for name in set(re.findall(r"\b([a-z_][a-z0-9_]*)\s*\(", stmt)):
        m = re.search(r"\bfn\s+" + re.escape(name) + r"\s*\(([^)]*)\)", src)
        if not m:
            continue
        params = [p.strip().split(":")[0].strip() for p in m.group(1).split(",") if p.strip()]
        hbody = function_body(src, name)
        for i, prm in enumerate(params):
            if any(re.search(pat.replace(r"(\w+)", re.escape(prm)), hbody) for pat in SLICE):
                out.append((name, i))
    return out


def call_args(stmt, name):
    """argument lists (split at depth-0 commas) of every call of `name` in the statement"""
    res = []
    for m in re.finditer(r"\b" + re.escape(name) + r"\s*\(", stmt):
        depth, j, cur, args = 1, m.end(), "", []
        while j < len(stmt) and depth:
            c = stmt[j]
            if c in "([{":
                depth += 1
            elif c in ")]}":
                depth -= 1
                if depth == 0:
                    break
            if c == "," and depth == 1:
                args.append(cur.strip()); cur = ""
            else:
                cur += c
            j += 1
        args.append(cur.strip())
        res.append((m.start(), args))
    return res


def extract(src):
    body = function_body(src, "generate_hunks")
    m = re.search(r"\blet\s+line_after\s*=", body)
    if not m:
        raise RuntimeError("translate/line_after_column: `let line_after =` not found in generate_hunks")
    stmt = statement(body, m.end())
    found = []          # (position in statement, identifier)
    for pat in SLICE:
        for mm in re.finditer(pat, stmt):
            found.append((mm.start(), mm.group(1)))
    for name, idx in helper_positions(src, stmt):
        for pos, args in call_args(stmt, name):
            if idx < len(args) and re.fullmatch(r"\w+", args[idx]):
                found.append((pos, args[idx]))
    fallback = set(re.findall(r"let\s+(?:Some\(\s*)?(\w+)\s*\)?\s*=\s*[\w.&]*\.find\(", stmt))
    cols = [ident for _, ident in sorted(found) if ident not in fallback]
    if not cols:
        raise RuntimeError("translate/line_after_column: no slicing position found in the `line_after` statement")
    col = cols[0]
    b = re.search(r"\blet\s+(?:mut\s+)?" + re.escape(col) + r"\b[^=;]*=\s*([^;]+);", body)
    if not b:
        raise RuntimeError(f"translate/line_after_column: binding of `{col}` not found")
    expr = b.group(1).strip()
    if re.fullmatch(r"m\.column", expr):
        return True, col, expr, decoded_parts(body, stmt, col)
    if re.search(r"char_offset|\.chars\(\)", expr):
        return False, col, expr, False
    raise RuntimeError(f"translate/line_after_column: cannot classify `let {col} = {expr}` (byte column or character offset?)")


def decoded_parts(body, stmt, col):
    """Are `line_after` and `char_offset` built from the separately decoded text before / after the match?
      True   `line_after` decodes two slices of the RAW line (`String::from_utf8_lossy(&line[..COL])`, `…(&line[END..])`), guarded
             by a comparison of the raw slice with the content, and `char_offset` counts the characters of the decoded head;
      False  `line_after` slices the decoded line (`line_string.get(COL..)`) and `char_offset` is
             `byte_offset_to_char_offset(&line_before, m.column)`;
    a mixture raises."""
    raw = re.search(r"let\s+line\s*=\s*lines\[", body) is not None
    la_parts = raw and re.search(r"from_utf8_lossy\(\s*&line\[\s*\.\.\s*" + re.escape(col) + r"\s*\]\s*\)", stmt) is not None \
        and re.search(r"from_utf8_lossy\(\s*&line\[\s*\w+\s*\.\.\s*\]\s*\)", stmt) is not None \
        and re.search(r"line\s*\.get\(\s*" + re.escape(col) + r"\s*\.\.\s*\w+\s*\)\s*==\s*Some\(\s*content\.as_bytes\(\)\s*\)", stmt) is not None
    la_string = re.search(r"line_string\s*\.get\(\s*" + re.escape(col) + r"\s*\.\.\s*\)", stmt) is not None
    m = re.search(r"\blet\s+char_offset\s*=", body)
    if not m:
        raise RuntimeError("translate/line_after_column: `let char_offset =` not found in generate_hunks")
    cstmt = statement(body, m.end())
    co_parts = re.search(r"from_utf8_lossy\(\s*head\s*\)\s*\.chars\(\)\s*\.count\(\)", cstmt) is not None \
        and re.search(r"line\s*\.get\(\s*\.\.\s*" + re.escape(col) + r"\s*\)", cstmt) is not None
    co_string = re.fullmatch(r"\s*byte_offset_to_char_offset\(\s*&line_before\s*,\s*m\.column\s*\)\s*", cstmt) is not None
    if la_parts and co_parts and not la_string:
        return True
    if la_string and co_string and not la_parts:
        return False
    raise RuntimeError("translate/line_after_column: cannot tell whether generate_hunks decodes the text before/after the match "
                       f"separately (line_after parts={la_parts} string={la_string}, char_offset parts={co_parts} string={co_string})")


def run():
    src = open(os.path.join(common.REPO, "renamify-core/src/scanner.rs")).read()
    flag, col, expr, parts = extract(src)
    out = ["/- GENERATED by translate/line_after_column.py from renamify-core/src/scanner.rs (generate_hunks) — do not edit -/",
           "namespace Gen", "",
           f"/-- is the position at which `generate_hunks` splices a match into the line (`{col} = {expr}`) the match's byte column? -/",
           f"def lineAfterColumnIsByte : Bool := {'true' if flag else 'false'}",
           "",
           "/-- are `line_after` and `char_offset` computed from the separately decoded text before / after the match (raw line slices)? -/",
           f"def lineAfterDecodesParts : Bool := {'true' if parts else 'false'}",
           "", "end Gen", ""]
    path = os.path.join(common.LEAN, "RModel/Gen/LineAfterColumn.lean")
    return [("Gen/LineAfterColumn.lean", common.write_if_changed(path, "\n".join(out)))]
