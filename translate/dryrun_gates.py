"""Gen/DryRunGates.lean: which statements of the planning / previewing operations write to disk, and whether a dry run
skips them.

For `operations/plan.rs::plan_operation`, `operations/rename.rs::rename_operation` and `renamify-cli/src/replace.rs::
handle_replace` every call that can write (`LockFile::acquire`, `write_plan`, `create_dir_all`, `apply_plan`,
`apply_rename_changes`, and any other `fs::write / File::create / OpenOptions / remove_* / fs::rename / fs::copy /
set_permissions` — reported as kind `other`) is located in the function body and classified as *skipped by a dry run* iff
  * it stands inside `if !dry_run { .. }`, or in the `else` block of `if dry_run { .. } else { .. }`, or
  * an `if dry_run { .. return .. }` at the top level of the function body precedes it.
Also extracted: the `Commands::Search` arm of main.rs passes the literal `true` in the `dry_run` position of
`handle_plan`; how `lock.rs::LockFile::acquire` publishes the lock file;
`rename.rs::detect_case_insensitive_fs` creates its probe through `TempDir::new_in` and never
persists it (`keep` / `into_path` / `forget`), and is called from the rename planner only.
Raises if a function or the dry_run parameter cannot be found (broken tie)."""
import os
import re

from checks import common
from ._rust import Shape, blank, match_brace, fn_body, split_top_level

WRITE_CALLS = [("lock", r"LockFile::acquire\s*\("), ("planWrite", r"\bwrite_plan\s*\("),
               ("mkdir", r"\bcreate_dir(?:_all)?\s*\("), ("apply", r"\bapply_plan\s*\("),
               ("apply", r"\bapply_rename_changes\s*\("),
               ("other", r"\bfs::write\s*\("), ("other", r"\bFile::create\s*\("), ("other", r"\bOpenOptions::new\s*\("),
               ("other", r"\bremove_file\s*\("), ("other", r"\bremove_dir(?:_all)?\s*\("), ("other", r"\bfs::rename\s*\("),
               ("other", r"\bfs::copy\s*\("), ("other", r"\bset_permissions\s*\("), ("other", r"\bcommit_changes\s*\("),
               ("other", r"\bHistory::"), ("other", r"\bwrite_all\s*\(")]


def enclosing_headers(body, pos):
    """headers (text between the previous `;`/`{`/`}` and the `{`) of all blocks of `body` that contain pos, outermost
    first; for an `else` block the header is 'else <header of its if>'"""
    out = []
    stack = []
    i = 0
    while i < pos:
        c = body[i]
        if c == "{":
            j = i - 1
            while j >= 0 and body[j] not in ";{}":
                j -= 1
            hdr = body[j + 1:i].strip()
            if hdr == "else" or hdr.startswith("else"):
                # find the if-header this else belongs to: the block that closed right before `else`
                k = j
                while k >= 0 and body[k] != "}":
                    k -= 1
                # walk back to its opening brace
                depth, m = 0, k
                while m >= 0:
                    if body[m] == "}":
                        depth += 1
                    elif body[m] == "{":
                        depth -= 1
                        if depth == 0:
                            break
                    m -= 1
                n = m - 1
                while n >= 0 and body[n] not in ";{}":
                    n -= 1
                hdr = "else-of " + body[n + 1:m].strip()
            stack.append(hdr)
        elif c == "}":
            if stack:
                stack.pop()
        i += 1
    return list(stack)


def early_returns(body):
    """positions after which a dry run has returned: `if dry_run {` blocks at depth 0 of the body that contain `return`"""
    out = []
    depth = 0
    for m in re.finditer(r"[{}]|\bif\s+dry_run\s*\{", body):
        t = m.group(0)
        if t == "{":
            depth += 1
        elif t == "}":
            depth -= 1
        else:
            if depth == 0:
                o = m.end() - 1
                c = match_brace(body, o)
                if re.search(r"\breturn\b", body[o:c]):
                    out.append(c)
            depth += 1
    return out


def gates_of(path, fn_re, op):
    raw = open(path).read()
    text = blank(raw)
    a, b = fn_body(text, fn_re, f"{os.path.basename(path)}::{fn_re}")
    sig = text[text.rfind("fn ", 0, a):a]
    if not re.search(r"\bdry_run\s*:\s*bool", sig):
        raise Shape(f"{path}: no dry_run parameter in {fn_re}")
    body = text[a:b]
    rets = early_returns(body)
    gates = []
    seen = set()
    for kind, pat in WRITE_CALLS:
        for m in re.finditer(pat, body):
            if m.start() in seen:
                continue
            seen.add(m.start())
            hdrs = enclosing_headers(body, m.start())
            inside = any(re.fullmatch(r"if\s+!\s*dry_run", h) or re.fullmatch(r"else-of\s+(?:let\s+\w+\s*=\s*)?if\s+dry_run", h)
                         for h in hdrs)
            after = any(r < m.start() for r in rets)
            line = raw.count("\n", 0, a + m.start()) + 1
            gates.append({"op": op, "kind": kind, "skipped": bool(inside or after), "line": line,
                          "what": raw[a + m.start():a + m.end()].strip(" (")})
    gates.sort(key=lambda g: g["line"])
    return gates


def search_dry_run_literal(repo):
    plan_rs = blank(open(os.path.join(repo, "renamify-cli/src/plan.rs")).read())
    m = re.search(r"\bfn\s+handle_plan\s*\(", plan_rs)
    if not m:
        raise Shape("plan.rs: handle_plan not found")
    params = split_top_level(plan_rs[m.end():match_brace(plan_rs, m.end() - 1)])
    names = [re.match(r"\s*(?:mut\s+)?(\w+)\s*:", p).group(1) for p in params if re.match(r"\s*(?:mut\s+)?(\w+)\s*:", p)]
    if "dry_run" not in names:
        raise Shape("plan.rs: handle_plan has no dry_run parameter")
    idx = names.index("dry_run")
    main = blank(open(os.path.join(repo, "renamify-cli/src/main.rs")).read())
    s = re.search(r"Commands::Search\s*\{[^}]*\}\s*=>", main)
    if not s:
        raise Shape("main.rs: Commands::Search arm not found")
    c = re.compile(r"plan::handle_plan\s*\(").search(main, s.end())
    nxt = re.compile(r"Commands::\w+\s*\{[^}]*\}\s*=>").search(main, s.end())
    if not c or (nxt and c.start() > nxt.start()):
        raise Shape("main.rs: the Search arm does not call plan::handle_plan")
    args = split_top_level(main[c.end():match_brace(main, c.end() - 1)])
    if len(args) != len(names):
        raise Shape(f"main.rs: Search arm passes {len(args)} arguments, handle_plan takes {len(names)}")
    return args[idx].strip() == "true"


def probe_facts(repo):
    raw = open(os.path.join(repo, "renamify-core/src/rename.rs")).read()
    text = blank(raw)
    a, b = fn_body(text, "detect_case_insensitive_fs", "rename.rs::detect_case_insensitive_fs")
    body = text[a:b]
    raii = bool(re.search(r"TempDir::new_in\s*\(", body)) and not re.search(r"\.keep\s*\(|into_path\s*\(|forget\s*\(|ManuallyDrop", body)
    callers = []
    for base in ("renamify-core/src", "renamify-cli/src"):
        for dp, dn, fn in os.walk(os.path.join(repo, base)):
            for f in sorted(fn):
                if f.endswith(".rs"):
                    t = blank(open(os.path.join(dp, f)).read())
                    # non-test call sites
                    cut = re.search(r"#\[cfg\(test\)\]\s*(?:#\[[^\]]*\]\s*)*mod\s", t)
                    t = t if not cut else t[:cut.start()]
                    for m in re.finditer(r"(?<!fn )\bdetect_case_insensitive_fs\s*\(", t):
                        if t[max(0, m.start() - 3):m.start()] == "fn ":
                            continue
                        fns = list(re.finditer(r"\bfn\s+(\w+)", t[:m.start()]))
                        callers.append(os.path.relpath(os.path.join(dp, f), repo) + "::" + (fns[-1].group(1) if fns else "?"))
    return raii, sorted(set(callers))


def lock_publish(repo):
    """how LockFile::acquire makes the lock file appear: `tmpLink` = write `<lock>.<pid>.tmp`, fs::hard_link it to the lock
    path, remove the tmp; `createNew` = OpenOptions::create_new + write_all on the lock path itself"""
    text = blank(open(os.path.join(repo, "renamify-core/src/lock.rs")).read())
    m = re.search(r"pub\s+fn\s+acquire\s*\(", text)
    if not m:
        raise Shape("lock.rs: LockFile::acquire not found")
    o = text.find("{", match_brace(text, m.end() - 1))
    body = text[o:match_brace(text, o)]
    w = re.search(r"fs::write\s*\(\s*&\s*tmp_path", body)
    l = re.search(r"fs::hard_link\s*\(\s*&\s*tmp_path\s*,\s*&\s*lock_path\s*\)", body)
    r = re.search(r"remove_file\s*\(\s*&\s*tmp_path\s*\)", body)
    if w and l and r and w.start() < l.start() < r.start() and not re.search(r"create_new", body):
        return "tmpLink"
    if re.search(r"create_new\s*\(\s*true\s*\)", body) and re.search(r"write_all\s*\(", body) and not l:
        return "createNew"
    raise Shape("lock.rs: LockFile::acquire publishes the lock file in a way the translator does not know")


def extract():
    repo = common.REPO
    g = []
    g += gates_of(os.path.join(repo, "renamify-core/src/operations/plan.rs"), "plan_operation", "plan")
    g += gates_of(os.path.join(repo, "renamify-core/src/operations/rename.rs"), "rename_operation", "rename")
    g += gates_of(os.path.join(repo, "renamify-cli/src/replace.rs"), "handle_replace", "replace")
    for op in ("plan", "rename", "replace"):
        if not [x for x in g if x["op"] == op]:
            raise Shape(f"no write statement found in the {op} operation")
    raii, callers = probe_facts(repo)
    return {"gates": g, "search_true": search_dry_run_literal(repo), "probe_raii": raii, "probe_callers": callers,
            "publish": lock_publish(repo)}


def render(f):
    out = ["/- GENERATED by translate/dryrun_gates.py from operations/plan.rs, operations/rename.rs, renamify-cli/src/replace.rs,",
           "   main.rs and rename.rs — do not edit -/",
           "namespace Gen.DryRunGates", "",
           "inductive Op where | plan | rename | replace",
           "  deriving DecidableEq, Repr", "",
           "/-- lock = LockFile::acquire, planWrite = write_plan, mkdir = create_dir_all, apply = apply_plan /",
           "    apply_rename_changes, other = any further call that writes -/",
           "inductive Kind where | lock | planWrite | mkdir | apply | other",
           "  deriving DecidableEq, Repr", "",
           "structure Gate where",
           "  op : Op",
           "  kind : Kind",
           "  /-- the statement is not executed when `dry_run` is true -/",
           "  skippedByDryRun : Bool",
           "  line : Nat",
           "  deriving DecidableEq, Repr", "",
           "def gates : List Gate := ["]
    for i, g in enumerate(f["gates"]):
        out.append(f"  {{ op := .{g['op']}, kind := .{g['kind']}, skippedByDryRun := {str(g['skipped']).lower()}, line := {g['line']} }}"
                   + ("," if i + 1 < len(f["gates"]) else "") + f"  -- {g['what']}")
    out += ["]", "",
            "/-- how LockFile::acquire makes the lock file appear: tmpLink = write `<lock>.<pid>.tmp`, hard_link it to the lock path,",
            "    remove the tmp (never visible incomplete); createNew = open(O_EXCL) the lock path and write into it -/",
            "inductive LockPublish where | tmpLink | createNew",
            "  deriving DecidableEq, Repr", "",
            f"def lockPublish : LockPublish := .{f['publish']}", "",
            "/-- the `Commands::Search` arm passes the literal `true` for `dry_run` -/",
            f"def searchPassesDryRunTrue : Bool := {str(f['search_true']).lower()}", "",
            "/-- detect_case_insensitive_fs: TempDir::new_in, never persisted -/",
            f"def probeIsRaii : Bool := {str(f['probe_raii']).lower()}", "",
            f"/-- non-test callers of detect_case_insensitive_fs: {', '.join(f['probe_callers']) or 'none'} -/",
            f"def probeCallers : Nat := {len(f['probe_callers'])}",
            "/-- … all of them in the rename planner (rename.rs) or in undo_renaming -/",
            "def probeOnlyFromRenamePlanner : Bool := "
            + str(all(c.startswith("renamify-core/src/rename.rs::") or c == "renamify-core/src/undo.rs::undo_renaming"
                      for c in f["probe_callers"]) and
                  any(c.startswith("renamify-core/src/rename.rs::") for c in f["probe_callers"])).lower(),
            "", "end Gen.DryRunGates", ""]
    return "\n".join(out)


def run():
    f = extract()
    path = os.path.join(common.LEAN, "RModel/Gen/DryRunGates.lean")
    return [("Gen/DryRunGates.lean", common.write_if_changed(path, render(f)))]


if __name__ == "__main__":
    import json
    print(json.dumps(extract(), indent=1))
