"""Gen/LanguageRules.lean: the twelve language modules of the ambiguity resolver
(renamify-core/src/ambiguity/languages/*.rs, function `suggest_style`) parsed into the decision trees of
Model/ResolverRules.lean (`Resolver.Block` / `Resolver.Cond`).

Accepted shape (anything else raises = broken tie):
    pub fn suggest_style(context: &str, possible_styles: &[Style]) -> Option<Style> { <stmt>* None }
    <stmt>  ::= let <name> = <expr>;                      (only `context.split("lit").last().unwrap_or("")`; a binding whose
                                                           name starts with `_` and is never used is dropped)
              | if <cond> <block> (else if <cond> <block>)* (else <block>)?
    <block> ::= { return Some(Style::X); } | { <stmt>* }   with exactly one if-chain per block
    <cond>  ::= || && ! ( ) over the atoms
              R.ends_with(lit) R.contains(lit) R.starts_with(lit)                     R = context
              possible_styles.contains(&Style::X)
              R.chars().all(|c| c.is_uppercase() || c == '_' || c == '=' || c.is_whitespace())        R = context
              R.chars().filter(|c| c.is_alphabetic()).all(char::is_uppercase)         R = context or a split-last binding
              R.chars().any(char::is_alphabetic)                                      R = a split-last binding
"""
import os, re
from checks import common
from translate.acronyms import STYLE_LEAN

MODULES = ["ruby", "python", "javascript", "go", "rust", "java", "c_cpp", "css", "html", "shell", "yaml", "config"]
TOK = re.compile(r"""
    (?P<ws>\s+|//[^\n]*)
  | (?P<str>"(?:[^"\\]|\\.)*")
  | (?P<chr>'(?:[^'\\]|\\.)')
  | (?P<id>[A-Za-z_][A-Za-z0-9_]*)
  | (?P<num>\d+)
  | (?P<op>&&|\|\||::|==|!=|=>|->|.)
""", re.X | re.S)
ESC = {"n": "\n", "t": "\t", "r": "\r", "\\": "\\", "'": "'", '"': '"', "0": "\0"}


class Bad(RuntimeError):
    pass


def tokenize(src):
    out, i = [], 0
    while i < len(src):
        m = TOK.match(src, i)
        if not m:
            raise Bad(f"cannot tokenize at {src[i:i + 30]!r}")
        i = m.end()
        if m.lastgroup != "ws":
            out.append((m.lastgroup, m.group()))
    return out


def literal(tok):
    kind, text = tok
    if kind not in ("str", "chr"):
        raise Bad(f"string or char literal expected, got {text!r}")
    body, out, i = text[1:-1], "", 0
    while i < len(body):
        if body[i] == "\\":
            if body[i + 1] not in ESC:
                raise Bad(f"escape {body[i:i + 2]!r} in {text}")
            out += ESC[body[i + 1]]
            i += 2
        else:
            out += body[i]
            i += 1
    if not out.isascii() or not out:
        raise Bad(f"literal {text} is empty or not ASCII")
    return out


def blit(s):
    return "[" + ", ".join(str(b) for b in s.encode()) + "]"


class Parser:
    def __init__(self, toks, name):
        self.t, self.i, self.name = toks, 0, name
        self.binds = {}          # let-bound name -> split pattern
        self.used = set()

    def peek(self, k=0):
        return self.t[self.i + k][1] if self.i + k < len(self.t) else None

    def eat(self, text=None):
        tok = self.t[self.i]
        if text is not None and tok[1] != text:
            raise Bad(f"{self.name}: expected {text!r}, got {tok[1]!r} (token {self.i})")
        self.i += 1
        return tok

    def seq(self, *texts):
        for x in texts:
            self.eat(x)

    # ---- statements ---------------------------------------------------------------------------------------------------
    def block(self, top=False):
        """-> tree: ('none',) | ('ret', style) | ('ite', cond, then, else)"""
        self.eat("{")
        chain = None
        while self.peek() != "}":
            if self.peek() == "let":
                self.let()
            elif self.peek() == "if":
                if chain is not None:
                    raise Bad(f"{self.name}: two if-chains in one block (control would re-enter after the first)")
                chain = self.ifchain()
            elif self.peek() == "return":
                if chain is not None:
                    raise Bad(f"{self.name}: return after an if-chain")
                self.seq("return", "Some", "(", "Style", "::")
                st = self.eat()[1]
                self.seq(")", ";")
                if st not in STYLE_LEAN:
                    raise Bad(f"{self.name}: unknown style {st}")
                self.eat("}")
                return ("ret", st)
            elif top and self.peek() == "None":
                self.eat("None")
                break
            else:
                raise Bad(f"{self.name}: statement starting with {self.peek()!r} is outside the accepted shape")
        self.eat("}")
        return chain if chain is not None else ("none",)

    def let(self):
        self.eat("let")
        name = self.eat()[1]
        self.eat("=")
        start = self.i
        depth = 0
        while not (self.peek() == ";" and depth == 0):
            depth += {"(": 1, ")": -1}.get(self.peek(), 0)
            self.i += 1
        expr = self.t[start:self.i]
        self.eat(";")
        text = "".join(x[1] for x in expr)
        m = re.fullmatch(r'context\.split\(("(?:[^"\\]|\\.)*")\)\.last\(\)\.unwrap_or\(""\)', text)
        if m:
            self.binds[name] = literal(("str", m.group(1)))
        elif name.startswith("_"):
            self.binds[name] = None          # dead binding: must stay unused
        else:
            raise Bad(f"{self.name}: let {name} = {text}")

    def ifchain(self):
        self.eat("if")
        cond = self.cond_until_brace()
        then = self.block()
        if self.peek() == "else":
            self.eat("else")
            if self.peek() == "if":
                return ("ite", cond, then, self.ifchain())
            return ("ite", cond, then, self.block())
        return ("ite", cond, then, ("none",))

    # ---- conditions ---------------------------------------------------------------------------------------------------
    def cond_until_brace(self):
        start, depth = self.i, 0
        while not (self.peek() == "{" and depth == 0):
            depth += {"(": 1, ")": -1}.get(self.peek(), 0)
            self.i += 1
        toks = self.t[start:self.i]
        c, rest = self.p_or(toks)
        if rest:
            raise Bad(f"{self.name}: trailing tokens in condition: {rest[:4]}")
        return c

    def p_or(self, toks):
        a, toks = self.p_and(toks)
        while toks and toks[0][1] == "||":
            b, toks = self.p_and(toks[1:])
            a = ("or", a, b)
        return a, toks

    def p_and(self, toks):
        a, toks = self.p_un(toks)
        while toks and toks[0][1] == "&&":
            b, toks = self.p_un(toks[1:])
            a = ("and", a, b)
        return a, toks

    def p_un(self, toks):
        if toks[0][1] == "!":
            c, toks = self.p_un(toks[1:])
            return ("not", c), toks
        if toks[0][1] == "(":
            depth, j = 0, 0
            while True:
                depth += {"(": 1, ")": -1}.get(toks[j][1], 0)
                if depth == 0:
                    break
                j += 1
            c, rest = self.p_or(toks[1:j])
            if rest:
                raise Bad(f"{self.name}: trailing tokens in parenthesis")
            return c, toks[j + 1:]
        depth, j = 0, 0
        while j < len(toks) and not (depth == 0 and toks[j][1] in ("&&", "||", ")")):
            depth += {"(": 1, ")": -1}.get(toks[j][1], 0)
            j += 1
        return self.atom(toks[:j]), toks[j:]

    def atom(self, toks):
        text = "".join(x[1] for x in toks)
        recv = toks[0][1]
        if recv == "possible_styles":
            m = re.fullmatch(r"possible_styles\.contains\(&Style::(\w+)\)", text)
            if not m or m.group(1) not in STYLE_LEAN:
                raise Bad(f"{self.name}: atom {text}")
            return ("poss", m.group(1))
        if recv != "context" and recv not in self.binds:
            raise Bad(f"{self.name}: atom on unknown receiver: {text}")
        if recv != "context":
            if self.binds[recv] is None:
                raise Bad(f"{self.name}: the dead binding {recv} is used")
            self.used.add(recv)
        tail = text[len(recv):]
        if len(toks) == 6 and [x[1] for x in toks[1:4:2]] == [".", "("] and toks[5][1] == ")" and \
                toks[2][1] in ("ends_with", "contains", "starts_with") and recv == "context":
            return ({"ends_with": "ew", "contains": "has", "starts_with": "sw"}[toks[2][1]], literal(toks[4]))
        if tail == ".chars().all(|c|c.is_uppercase()||c=='_'||c=='='||c.is_whitespace())" and recv == "context":
            return ("allCapsAssign",)
        if tail == ".chars().filter(|c|c.is_alphabetic()).all(char::is_uppercase)":
            return ("lettersAllUpper",) if recv == "context" else ("afterLettersAllUpper", self.binds[recv])
        if tail == ".chars().any(char::is_alphabetic)" and recv != "context":
            return ("afterHasLetter", self.binds[recv])
        raise Bad(f"{self.name}: atom {text} is outside the accepted shape")


def lean_cond(c):
    k = c[0]
    if k in ("ew", "has", "sw", "afterLettersAllUpper", "afterHasLetter"):
        return f"(.{k} {blit(c[1])})"
    if k == "poss":
        return f"(.poss .{STYLE_LEAN[c[1]]})"
    if k in ("allCapsAssign", "lettersAllUpper"):
        return "." + k
    if k == "not":
        return f"(.not {lean_cond(c[1])})"
    return f"(.{k} {lean_cond(c[1])} {lean_cond(c[2])})"


def show_cond(c):
    k = c[0]
    if k in ("ew", "has", "sw"):
        return f"{k} {c[1]!r}"
    if k == "poss":
        return f"possible({c[1]})"
    if k in ("afterLettersAllUpper", "afterHasLetter"):
        return f"{k}({c[1]!r})"
    if k in ("allCapsAssign", "lettersAllUpper"):
        return k
    if k == "not":
        return "!" + show_cond(c[1])
    return "(" + show_cond(c[1]) + (" && " if k == "and" else " || ") + show_cond(c[2]) + ")"


def lean_block(b, ind):
    pad = "  " * ind
    if b[0] == "none":
        return pad + ".none"
    if b[0] == "ret":
        return pad + f"(.ret .{STYLE_LEAN[b[1]]})"
    comment = show_cond(b[1]).replace("-/", "- /")
    return (f"{pad}(.ite  -- {comment[:150]}\n{pad}  {lean_cond(b[1])}\n{lean_block(b[2], ind + 1)}\n{lean_block(b[3], ind)})")


def parse_module(name, src):
    code = src.split("#[cfg(test)]")[0]
    m = re.search(r"pub fn suggest_style\(\s*context: &str,\s*possible_styles: &\[Style\]\s*\) -> Option<Style> ", code)
    if not m:
        raise Bad(f"{name}: signature of suggest_style not found")
    if sum(1 for k, t in tokenize(code) if k == "id" and t == "fn") != 1:
        raise Bad(f"{name}: more than one function in the module")
    p = Parser(tokenize(code[m.end():]), name)
    tree = p.block(top=True)
    if p.i != len(p.t):
        raise Bad(f"{name}: tokens after the function body")
    return tree


def run():
    d = os.path.join(common.REPO, "renamify-core/src/ambiguity/languages")
    on_disk = sorted(f[:-3] for f in os.listdir(d) if f.endswith(".rs") and f != "mod.rs")
    if on_disk != sorted(MODULES):
        raise RuntimeError(f"translate/languagerules: language modules on disk: {on_disk}")
    L = ["import RModel.Model.ResolverRules",
         "/- GENERATED by translate/languagerules.py from renamify-core/src/ambiguity/languages/*.rs — do not edit -/",
         "namespace Gen", "open Resolver CaseModel", ""]
    for name in MODULES:
        try:
            tree = parse_module(name, open(os.path.join(d, name + ".rs")).read())
        except Bad as e:
            raise RuntimeError(f"translate/languagerules: languages/{name}.rs: {e}")
        L += [f"/-- languages/{name}.rs `suggest_style` -/", f"def {name.replace('_c', 'C')}Rules : Block :=", lean_block(tree, 1), ""]
    L += ["/-- (module name, decision tree) -/", "def languageRules : List (Bytes × Block) := ["]
    L += [f"  ({blit(n)}, {n.replace('_c', 'C')}Rules){',' if k + 1 < len(MODULES) else ''}  -- {n}" for k, n in enumerate(MODULES)]
    L += ["]", "", "end Gen", ""]
    path = os.path.join(common.LEAN, "RModel", "Gen", "LanguageRules.lean")
    return [(path, common.write_if_changed(path, "\n".join(L)))]
