"""Gen/PanicSites.lean + corpus/C16/sites.json: inventory of the potentially panicking sites in the non-test code of
renamify-core and renamify-cli, and Gen/ExitCodes.lean: the exit-status mapping of renamify-cli/src/main.rs.

Inventory source: `cargo clippy --message-format=json` with the restriction lints
  string_slice, indexing_slicing, unwrap_used, expect_used, panic, unreachable, arithmetic_side_effects
(run with cwd = harness/ so that the repository's `-D warnings` config is not read; clippy without `--tests`
never sees `#[cfg(test)]` code), plus a regex pass for constructs those lints do not flag
(`split_at`, `replace_range`, `drain`, `remove`, `swap_remove`, `assert!`, `unimplemented!`, `todo!`, `unsafe`).

Every site is keyed by (file, enclosing fn, lint, normalised source text, occurrence index among equal texts in
that fn) — not by line number — so unrelated edits do not invalidate the committed classification
(corpus/C16/classification.json).  If clippy cannot run, the translator falls back to a regex-only inventory
and says so in the result (`mode`), which the check reports as a broken tie.
"""
import hashlib
import json
import os
import re
import subprocess
import time

from checks import common

LINTS = ["string_slice", "indexing_slicing", "unwrap_used", "expect_used", "panic", "unreachable", "arithmetic_side_effects"]
CRATES = ["renamify-core", "renamify-cli"]
REGEX_SITES = [
    ("split_at", re.compile(r"\.split_at(_mut)?\(")),
    ("replace_range", re.compile(r"\.replace_range\(")),
    ("drain", re.compile(r"\.drain\(")),
    ("remove", re.compile(r"\.(remove|swap_remove)\(\s*[^)&\"]")),
    ("assert", re.compile(r"\b(debug_)?assert(_eq|_ne)?!\(")),
    ("unimplemented", re.compile(r"\b(unimplemented|todo)!\(")),
    ("unsafe", re.compile(r"\bunsafe\s*\{")),
    ("env_args", re.compile(r"\benv::args\(\)")),      # panics on an argument that is not valid Unicode (args_os does not)
]
FN_RE = re.compile(r"^\s*(?:pub(?:\([^)]*\))?\s+)?(?:default\s+)?(?:const\s+)?(?:async\s+)?(?:unsafe\s+)?(?:extern\s+\"[^\"]*\"\s+)?fn\s+(\w+)")


def norm(text):
    return re.sub(r"\s+", " ", text.strip())


class Source:
    """one Rust file: enclosing fn per line, test-module cut-off"""
    _cache = {}

    def __init__(self, path):
        self.lines = open(path, encoding="utf-8", errors="replace").read().split("\n")
        self.fn_at = []
        cur = "<top>"
        self.test_from = len(self.lines) + 1
        if self.lines and self.lines[0].strip() == "#[cfg(test)]":
            self.test_from = 1          # a file-level attribute: the whole file is test code
        for i, line in enumerate(self.lines):
            m = FN_RE.match(line)
            if m:
                cur = m.group(1)
            self.fn_at.append(cur)
            if line.strip() == "#[cfg(test)]" and i + 1 < len(self.lines) and re.match(r"\s*mod\s+\w+\s*\{", self.lines[i + 1]) \
                    and self.test_from > len(self.lines):
                self.test_from = i + 1

    @classmethod
    def get(cls, repo, rel):
        key = (repo, rel)
        st = os.stat(os.path.join(repo, rel))
        c = cls._cache.get(key)
        if c is None or c[0] != (st.st_mtime_ns, st.st_size):
            c = ((st.st_mtime_ns, st.st_size), cls(os.path.join(repo, rel)))
            cls._cache[key] = c
        return c[1]

    def fn(self, line_no):
        """enclosing fn of a 1-based line"""
        if 1 <= line_no <= len(self.fn_at):
            return self.fn_at[line_no - 1]
        return "<top>"

    def is_test(self, line_no):
        return line_no >= self.test_from


def enclosing_fn(repo, rel, line_no):
    """(fn name, is test code) of `rel:line_no` in the tree at `repo`; rel as printed in panic messages"""
    rel = rel.replace("\\", "/")
    for cand in (rel, rel.split("/repo/", 1)[-1]):
        p = os.path.join(repo, cand)
        if os.path.isfile(p):
            s = Source.get(repo, cand)
            return s.fn(line_no), s.is_test(line_no)
    return "<unknown>", False


def rust_files(repo):
    out = []
    for crate in CRATES:
        base = os.path.join(repo, crate, "src")
        for dp, dn, fn in os.walk(base):
            for f in sorted(fn):
                if f.endswith(".rs"):
                    out.append(os.path.relpath(os.path.join(dp, f), repo))
    return sorted(out)


class StaleDiagnostics(RuntimeError):
    pass


def clippy_sites(repo, attempt=0):
    try:
        return _clippy_sites(repo)
    except StaleDiagnostics:
        if attempt:
            raise
        time.sleep(1)
        return clippy_sites(repo, attempt + 1)


def _clippy_sites(repo):
    cmd = ["cargo", "clippy", "--offline", "--message-format=json", "--manifest-path", os.path.join(repo, "Cargo.toml"),
           "-p", "renamify-core", "-p", "renamify", "--"]
    for lint in LINTS:
        cmd += ["-W", "clippy::" + lint]
    env = dict(common.BASE_ENV)
    if os.path.realpath(repo) != "/repo":
        # cargo hashes workspace members relative to the workspace root: two checkouts of the same workspace would share
        # (and corrupt) each other's cached diagnostics in one target directory
        env["CARGO_TARGET_DIR"] = os.path.join(common.CACHE, "target-" + hashlib.sha1(os.path.realpath(repo).encode()).hexdigest()[:8])
    with common.build_lock("cargo"):
        p = subprocess.run(cmd, cwd=common.HARNESS, env=env, stdout=subprocess.PIPE, stderr=subprocess.PIPE, timeout=1800)
    if p.returncode != 0:
        raise RuntimeError("cargo clippy failed: " + p.stderr.decode("utf-8", "replace")[-1500:])
    sites, finished = [], False
    for line in p.stdout.decode("utf-8", "replace").splitlines():
        try:
            o = json.loads(line)
        except ValueError:
            continue
        if o.get("reason") == "build-finished":
            finished = bool(o.get("success"))
        if o.get("reason") != "compiler-message":
            continue
        m = o["message"]
        code = (m.get("code") or {}).get("code") or ""
        if not code.startswith("clippy::") or code[8:] not in LINTS:
            continue
        for sp in m["spans"]:
            if not sp.get("is_primary"):
                continue
            rel = sp["file_name"]
            if os.path.isabs(rel):
                rel = os.path.relpath(rel, repo)
            if not any(rel.startswith(c + "/src/") for c in CRATES):
                continue
            # the expression the lint points at, not the whole line: two sites on one line stay distinct
            src = Source.get(repo, rel)
            # cargo replays cached diagnostics: make sure they describe the file as it is now
            if sp.get("text") and (sp["line_start"] > len(src.lines)
                                   or src.lines[sp["line_start"] - 1].rstrip("\r") != sp["text"][0]["text"].rstrip("\r")):
                raise StaleDiagnostics(f"{rel}:{sp['line_start']}: clippy reported {sp['text'][0]['text'].strip()[:60]!r}, "
                                       f"the file has {src.lines[sp['line_start'] - 1].strip()[:60]!r}" if sp["line_start"] <= len(src.lines)
                                       else f"{rel}:{sp['line_start']} past end of file")
            if sp["line_start"] == sp["line_end"] and sp.get("text"):
                t = sp["text"][0]
                expr = t["text"][t["highlight_start"] - 1: t["highlight_end"] - 1]
            else:
                expr = " ".join(t["text"] for t in sp.get("text", []))
            sites.append({"file": rel, "line": sp["line_start"], "lint": code[8:], "expr": norm(expr)[:160],
                          "text": norm(src.lines[sp["line_start"] - 1])[:200] if sp["line_start"] <= len(src.lines) else ""})
    if not finished:
        raise RuntimeError("cargo clippy did not report build-finished/success")
    return sites


def regex_sites(repo, lints_too=False):
    pats = list(REGEX_SITES)
    if lints_too:   # fallback inventory when clippy is unavailable
        pats += [("string_slice|indexing_slicing", re.compile(r"\w\[[^\]\n]*\]")),
                 ("unwrap_used", re.compile(r"\.unwrap\(\)")), ("expect_used", re.compile(r"\.expect\(")),
                 ("panic", re.compile(r"\bpanic!\(")), ("unreachable", re.compile(r"\bunreachable!\(")),
                 ("arithmetic_side_effects", re.compile(r"\w\s*(-|\+|\*)=?\s*[\w(]"))]
    sites = []
    for rel in rust_files(repo):
        src = Source.get(repo, rel)
        for i, line in enumerate(src.lines, 1):
            if src.is_test(i):
                break
            code = line.split("//")[0]
            if not code.strip() or code.strip().startswith("#["):
                continue
            for name, pat in pats:
                m = pat.search(code)
                if m:
                    sites.append({"file": rel, "line": i, "lint": "regex::" + name, "expr": norm(m.group(0)), "text": norm(line)[:200]})
    return sites


INDEX_RE = re.compile(r"(?<![#!\w])((?:[A-Za-z_]\w*(?:\.[A-Za-z_]\w*|\([^()\n]*\))*|\)))\[([^\[\]\n]+)\]")
NOT_INDEX_BASES = {"vec", "matches", "println", "eprintln", "format", "json", "write", "writeln", "assert", "assert_eq", "debug_assert", "cfg", "derive"}


def in_cfg_windows(src, line_no):
    """is the 1-based line inside the item / block that follows a `#[cfg(windows)]` attribute?"""
    for a in range(line_no - 1, max(0, line_no - 80), -1):
        if src.lines[a - 1].strip() == "#[cfg(windows)]":
            depth, opened = 0, False
            for j in range(a, len(src.lines)):
                code = src.lines[j].split("//")[0]
                depth += code.count("{") - code.count("}")
                opened = opened or "{" in code
                if j + 1 == line_no:
                    return opened and (depth > 0 or "{" in code)
                if opened and depth <= 0:
                    break
                if not opened and code.rstrip().endswith(";"):
                    break
            return False
    return False


def index_sites(repo, clippy):
    """every `base[index]` expression of the non-test code that clippy did NOT report: `Index` impls on types that are not
    slices (regex::Captures `caps[i]` / `caps["name"]` — panics for a group that took no part in the match —, serde_json
    `value[i]`, BTreeMap/HashMap `map[&k]` where clippy cannot see the type) and code compiled out on this platform."""
    flagged = {}
    for s in clippy:
        if s["lint"] in ("indexing_slicing", "string_slice"):
            flagged.setdefault((s["file"], s["line"]), []).append(s["expr"].replace(" ", ""))
    out = []
    for rel in rust_files(repo):
        src = Source.get(repo, rel)
        for i, line in enumerate(src.lines, 1):
            if src.is_test(i):
                break
            code = line.split("//")[0]
            if not code.strip() or code.strip().startswith("#"):
                continue
            for m in INDEX_RE.finditer(code):
                if m.group(1) in NOT_INDEX_BASES:
                    continue
                e = m.group(0).replace(" ", "")
                if any(e in f or f in e for f in flagged.get((rel, i), [])):
                    continue
                lint = "regex::index_cfg_windows" if in_cfg_windows(src, i) else "regex::index"
                out.append({"file": rel, "line": i, "lint": lint, "expr": norm(m.group(0))[:160], "text": norm(line)[:200]})
    return out


def inventory(repo=None):
    """list of site dicts with stable keys; (sites, mode)"""
    repo = repo or common.REPO
    Source._cache.clear()
    mode = "clippy+regex"
    try:
        cs = clippy_sites(repo)
        sites = cs + regex_sites(repo) + index_sites(repo, cs)
    except (RuntimeError, OSError, subprocess.TimeoutExpired) as ex:
        mode = "regex-only (clippy unavailable: %s)" % str(ex)[:300]
        sites = regex_sites(repo, lints_too=True)
    out, seen, dup = [], set(), {}
    for s in sorted(sites, key=lambda s: (s["file"], s["line"], s["lint"], s["expr"])):
        src = Source.get(repo, s["file"])
        if src.is_test(s["line"]):
            continue
        ident = (s["file"], s["line"], s["lint"], s["expr"])
        if ident in seen:
            continue
        seen.add(ident)
        s["fn"] = src.fn(s["line"])
        base = (s["file"], s["fn"], s["lint"], s["expr"], s["text"])
        k = dup.get(base, 0)
        dup[base] = k + 1
        s["occ"] = k
        s["key"] = "%s::%s::%s::%s" % (s["file"].replace("renamify-core/src/", "core/").replace("renamify-cli/src/", "cli/"),
                                         s["fn"], s["lint"], hashlib.sha1(repr(base + (k,)).encode()).hexdigest()[:10])
        out.append(s)
    return out, mode


def lean_str(s):
    return '"' + s.replace("\\", "\\\\").replace('"', '\\"') + '"'


def exit_codes(repo):
    """the status mapping at the end of main(): ordered (substrings, status) rules, the fallback, and every literal
    process::exit status in the non-test code of the CLI"""
    src = open(os.path.join(repo, "renamify-cli/src/main.rs")).read()
    m = re.search(r"let exit_code = (if .*?\});?\s*\n\s*std::process::exit\(exit_code\)", src, re.S)
    if not m:
        raise RuntimeError("translate/panic_sites: exit-code mapping not found in main.rs")
    chain = m.group(1)
    rules, fallback = [], None
    pos = 0
    arm = re.compile(r"\s*(?:else\s+)?if\s+(.*?)\{\s*(\d+)\s*(?://[^\n]*)?\s*\}", re.S)
    while True:
        mm = arm.match(chain, pos)
        if not mm:
            break
        cond = mm.group(1)
        subs = re.findall(r'e\.to_string\(\)\.contains\("([^"]*)"\)', cond)
        leftover = re.sub(r'e\.to_string\(\)\.contains\("[^"]*"\)', "", cond).replace("||", "").strip()
        if not subs or leftover:
            raise RuntimeError("translate/panic_sites: unrecognised exit-code condition: " + cond.strip())
        rules.append((subs, int(mm.group(2))))
        pos = mm.end()
    mm = re.match(r"\s*else\s*\{\s*(\d+)\s*(?://[^\n]*)?\s*\}\s*$", chain[pos:], re.S)
    if not mm or not rules:
        raise RuntimeError("translate/panic_sites: unrecognised exit-code chain tail: " + chain[pos:][:200])
    fallback = int(mm.group(1))
    if not re.search(r"Ok\(\(\)\)\s*=>\s*(?:\{(?:[^{}]|\{[^{}]*\})*?)?std::process::exit\(0\)", src):
        raise RuntimeError("translate/panic_sites: success arm `Ok(()) => std::process::exit(0)` not found")
    literals = []
    for rel in rust_files(repo):
        if not rel.startswith("renamify-cli/"):
            continue
        s = Source.get(repo, rel)
        for i, line in enumerate(s.lines, 1):
            if s.is_test(i):
                break
            if rel.endswith("test_lock_signals.rs"):
                break
            for n in re.findall(r"process::exit\(\s*(\d+)\s*\)", line.split("//")[0]):
                literals.append((rel, s.fn(i), int(n)))
    return rules, fallback, literals


def fn_body(repo, rel, name):
    """source text of fn `name` in `rel` (comments stripped, whitespace collapsed); raises if the fn is gone"""
    src = Source.get(repo, rel)
    start = None
    for i, line in enumerate(src.lines):
        m = FN_RE.match(line)
        if m and m.group(1) == name and not src.is_test(i + 1):
            start = i
            break
    if start is None:
        raise RuntimeError(f"translate/panic_sites: fn {name} not found in {rel}")
    indent = len(src.lines[start]) - len(src.lines[start].lstrip())
    end = len(src.lines)
    for j in range(start + 1, len(src.lines)):
        line = src.lines[j]
        if src.is_test(j + 1):
            end = j
            break
        m = FN_RE.match(line)
        if m and len(line) - len(line.lstrip()) <= indent:
            end = j
            break
    body = "\n".join(l.split("//")[0] for l in src.lines[start:end])
    return re.sub(r"\s+", " ", body)


# repaired shape of each formerly panicking site: (flag, file, fn, [patterns that must occur], [patterns that must not])
C = "renamify-core/src/"
GUARDS = [
    ("lineAfterChecked", C + "scanner.rs", "generate_hunks",
     [r"line_string \.get\(match_col\.\.\)"], [r"line_string\[match_col\.\.\]"]),
    # third shape of the same site (7807217): the match is compared on the RAW byte line, the parts are decoded separately
    ("lineAfterRawChecked", C + "scanner.rs", "generate_hunks",
     [r"let raw_end = match_col \+ content\.len\(\);",
      r"if line\.get\(match_col\.\.raw_end\) == Some\(content\.as_bytes\(\)\) \{ let mut after_line = String::from_utf8_lossy\(&line\[\.\.match_col\]\)\.into_owned\(\);",
      r"String::from_utf8_lossy\(&line\[raw_end\.\.\]\)"],
     [r"line_string\[match_col", r"line_string\[\.\.match_col"]),
    ("resolverPrefixChecked", C + "ambiguity/resolver.rs", "try_language_heuristics",
     [r"line\.get\(\.\.match_pos\)"], [r"line\[\.\.match_pos\]"]),
    ("diffAfterLineChecked", C + "preview/diff.rs", "render_diff",
     [r"after_line \.get\(col\.\.\)"], [r"after_line\[col"]),
    ("diffHighlightChecked", C + "preview/diff.rs", "highlight_line_with_hunks",
     [r"line\.get\(last_end\.\.col\)", r"line\.get\(col\.\.end\)", r"line\.get\(last_end\.\.\)"], [r"&line\["]),
    ("matchesLineChecked", C + "preview/matches.rs", "render_matches",
     [r"line_before\.get\(\.\.col\)", r"line_before\.get\(col\.\.actual_end\)", r"line_before \.?get\(actual_end\.\.\)|line_before\.get\(actual_end\.\.\)"],
     [r"line_before\["]),
    ("ciEmptyAndLengthGuard", C + "coercion.rs", "replace_case_insensitive",
     [r"if pattern_lower\.is_empty\(\) \|\| text_lower\.len\(\) != text\.len\(\) \|\| pattern_lower\.len\(\) != pattern\.len\(\) \{ return text\.to_string\(\); \}"], []),
    ("ciSlicesChecked", C + "coercion.rs", "replace_case_insensitive",
     [r"text_lower \.get\(last_end\.\.\)", r"text\.get\(last_end\.\.absolute_start\)", r"text\.get\(last_end\.\.\)"],
     [r"text_lower\[", r"&text\["]),
    ("coercionPartChecked", C + "coercion.rs", "apply_coercion",
     [r"container_without_prefix\.get\(pos\.\.pos \+ old_pattern\.len\(\)\)\?"], [r"container_without_prefix\[pos"]),
    ("applyOrigChecked", C + "apply.rs", "apply_content_edits_with_content",
     [r"original_content\.get\(\*start\.\.\*end\)"], [r"original_content\[\*start\.\.\*end\]"]),
    ("applyModifiedChecked", C + "apply.rs", "apply_content_edits_with_content",
     [r"if modified\.get\(\*start\.\.\*end\)\.is_none\(\) \{ return Err"], []),
    ("lockAgeSaturating", C + "lock.rs", "acquire",
     [r"current_time\.saturating_sub\(timestamp\)"], [r"current_time - timestamp"]),
    ("emptyVariantSkipped", C + "case_model.rs", "generate_variant_map_internal",
     [r"if search_variant\.is_empty\(\) \{ continue; \} map\.entry\(search_variant\)", r"&& !search\.is_empty\(\)"], []),
    ("upperRunCountsChars", C + "case_constraints.rs", "has_consecutive_uppercase",
     [r"let sequence_len = i - start;", r"\(2\.\.=sequence_len\)"], [r"sequence\.len\(\)"]),
    ("emptyLiteralRejected", C + "scanner.rs", "create_simple_plan",
     [r"if pattern\.is_empty\(\) && !is_regex \{ return Err"], []),
    ("jsonPlanChecked", C + "output.rs", None,
     [r"serde_json::to_value\(&self\.plan\)\.unwrap_or\(serde_json::Value::Null\)"], [r"\"plan\": self\.plan"]),
    ("capturesGetChecked", C + "scanner.rs", "process_file_content",
     [r"captures\.get\(0\)", r"if let Some\(cap\) = captures\.get\(i\)"], [r"captures\[", r"caps\["]),
    ("acronymAsciiGuard", C + "acronym.rs", "find_longest_match",
     [r"if !bytes\[i\]\.is_ascii\(\) \{ break; \} let ch = bytes\[i\] as char;"], []),
]


def guards(repo):
    out = []
    for flag, rel, fn, must, must_not in GUARDS:
        if fn is None:
            src = Source.get(repo, rel)
            body = re.sub(r"\s+", " ", "\n".join(l.split("//")[0] for l in src.lines[: src.test_from - 1]))
        else:
            body = fn_body(repo, rel, fn)
        ok = all(re.search(p, body) for p in must) and not any(re.search(p, body) for p in must_not)
        out.append((flag, ok, rel, fn or "<file>"))
    return out


def run():
    repo = common.REPO
    sites, mode = inventory(repo)
    if not sites:
        raise RuntimeError("translate/panic_sites: empty inventory")
    inv = {"mode": mode, "count": len(sites),
           "sites": [{k: s[k] for k in ("key", "file", "fn", "lint", "expr", "text", "line", "occ")} for s in sites]}
    res = [("corpus/C16/sites.json", common.write_if_changed(os.path.join(common.ROOT, "corpus/C16/sites.json"),
                                                              json.dumps(inv, indent=0, sort_keys=True) + "\n"))]
    by_lint = {}
    for s in sites:
        by_lint[s["lint"]] = by_lint.get(s["lint"], 0) + 1
    out = ["/- GENERATED by translate/panic_sites.py from `cargo clippy` on /repo (non-test code) — do not edit -/",
           "namespace Gen.PanicSites", "",
           "structure Site where", "  file : String", "  fn : String", "  lint : String", "  expr : String", "  deriving Repr", "",
           f"def mode : String := {lean_str(mode.split(' (')[0])}", "",
           "def sites : List Site := ["]
    for i, s in enumerate(sites):
        out.append(f"  ⟨{lean_str(s['file'])}, {lean_str(s['fn'])}, {lean_str(s['lint'])}, {lean_str(s['expr'])}⟩" + ("," if i + 1 < len(sites) else ""))
    out += ["]", "", f"def count : Nat := {len(sites)}", "",
            "def countByLint : List (String × Nat) := [" + ", ".join(f"({lean_str(k)}, {v})" for k, v in sorted(by_lint.items())) + "]",
            "", "end Gen.PanicSites", ""]
    res.append(("Gen/PanicSites.lean", common.write_if_changed(os.path.join(common.LEAN, "RModel/Gen/PanicSites.lean"), "\n".join(out))))

    rules, fallback, literals = exit_codes(repo)

    def bl(s):
        return "[" + ", ".join(str(b) for b in s.encode()) + "]"
    out = ["import RModel.Base.Bytes",
           "/- GENERATED by translate/panic_sites.py from renamify-cli/src/main.rs (end of `main`) and every literal",
           "   `process::exit(n)` in the non-test code of renamify-cli — do not edit -/",
           "namespace Gen.ExitCodes", "",
           "/-- ordered rules: the first rule one of whose substrings occurs in the error message decides the status -/",
           "def rules : List (List Bytes × Nat) := ["]
    out += ["  ([" + ", ".join(bl(x) for x in subs) + f"], {code})" + ("," if i + 1 < len(rules) else "") + "  -- " + " | ".join(subs)
            for i, (subs, code) in enumerate(rules)]
    out += ["]", "", f"def fallback : Nat := {fallback}", "", "def success : Nat := 0", "",
            "/-- literal `process::exit(n)` statuses (file, fn, n) -/",
            "def literalExits : List (String × String × Nat) := ["]
    out += [f"  ({lean_str(f)}, {lean_str(fn)}, {n})" + ("," if i + 1 < len(literals) else "") for i, (f, fn, n) in enumerate(literals)]
    out += ["]", "", "end Gen.ExitCodes", ""]
    res.append(("Gen/ExitCodes.lean", common.write_if_changed(os.path.join(common.LEAN, "RModel/Gen/ExitCodes.lean"), "\n".join(out))))
    gs = guards(repo)
    out = ["/- GENERATED by translate/panic_sites.py: does the source have the repaired (checked) shape at each formerly",
           "   panicking site?  `true` = the guard / checked slice is there, `false` = the old unchecked shape (or anything else).",
           "   The model in RModel/Model/Panics.lean selects the `…Old` or the checked function by these flags — do not edit -/",
           "namespace Gen.PanicGuards", ""]
    for flag, ok, rel, fn in gs:
        out.append(f"/-- {rel} :: {fn} -/")
        out.append(f"def {flag} : Bool := {'true' if ok else 'false'}")
    out += ["", "end Gen.PanicGuards", ""]
    res.append(("Gen/PanicGuards.lean", common.write_if_changed(os.path.join(common.LEAN, "RModel/Gen/PanicGuards.lean"), "\n".join(out))))
    run.last = {"mode": mode, "sites": sites, "guards": {g[0]: g[1] for g in gs}}
    return res
