"""Gen/ScanShape.lean: the ordering-relevant shape of scanner.rs::scan_repository_multi.

Extracted syntactically: the comparison chain of `matches.sort_by(|a, b| a.X.cmp(&b.X).then_with(|| a.Y.cmp(&b.Y))…)`
(the global sort key), whether that sort is the stable `sort_by`, whether the per-file outcomes are produced by
`file_entries.par_iter().map(..).collect()` into a Vec (rayon keeps input order for that; `for_each`, a Mutex/channel
sink, `par_bridge` or `collect` into a hash container would not), and the per-file pre-sort key.
Also the rename list (`plan.paths`): stable per-root sort in rename.rs with a comparator that ties on equal-depth directories,
per-root lists appended in root order, order-preserving `retain` de-duplication, and the number of passes through a hash
container (see rename_list_shape).
Raises if the function or the sort cannot be found (broken tie)."""
import os
import re

from checks import common
from ._rust import Shape, blank, match_brace, fn_body

FIELDS = {"file": "file", "line": "line", "byte_offset": "byteOffset"}


def extract():
    raw = open(os.path.join(common.REPO, "renamify-core/src/scanner.rs")).read()
    text = blank(raw)
    a, b = fn_body(text, "scan_repository_multi", "scanner.rs::scan_repository_multi")
    body = text[a:b]
    m = re.search(r"\bmatches\s*\.\s*(sort_by|sort_unstable_by|sort_by_key|sort_unstable_by_key|sort_by_cached_key|sort|sort_unstable)\s*\(", body)
    if not m:
        raise Shape("scan_repository_multi: no sort of `matches`")
    call = body[m.end() - 1:match_brace(body, m.end() - 1) + 1]
    keys = re.findall(r"\ba\s*\.\s*(\w+)\s*\.\s*cmp\s*\(\s*&\s*b\s*\.\s*(\w+)\s*\)", call)
    if not keys or any(x != y for x, y in keys):
        raise Shape("scan_repository_multi: the sort comparator is not a chain of a.X.cmp(&b.X)")
    if len(re.findall(r"\.cmp\s*\(", call)) != len(keys) or len(re.findall(r"then_with|\.then\s*\(", call)) != len(keys) - 1:
        raise Shape("scan_repository_multi: unexpected comparator shape")
    stable = m.group(1) == "sort_by"
    pm = re.search(r"let\s+outcomes\s*:\s*Vec\s*<\s*FileOutcome\s*>\s*=\s*file_entries\s*\.\s*par_iter\s*\(\s*\)\s*\.\s*map\s*\(", body)
    ordered = False
    if pm:
        close = match_brace(body, pm.end() - 1)
        ordered = bool(re.match(r"\s*\.\s*collect\s*\(\s*\)\s*;", body[close + 1:]))
    sinks = len(re.findall(r"\bfor_each(?:_with)?\s*\(|\bMutex\b|\bmpsc\b|\bchannel\s*\(|\bpar_bridge\s*\(|\bRwLock\b|collect\s*::\s*<\s*Hash", body))
    pre = re.search(r"file_matches\s*\.\s*sort_by_key\s*\(\s*\|\s*m\s*\|\s*\(\s*m\s*\.\s*(\w+)\s*,\s*m\s*\.\s*(\w+)\s*\)\s*\)", body)
    res = {"keys": [k for k, _ in keys], "stable": stable, "ordered": ordered, "sinks": sinks,
           "presort": list(pre.groups()) if pre else []}
    res.update(rename_list_shape(text, body))
    return res


def rename_list_shape(scanner_text, multi_body):
    """how the rename list (`plan.paths`) is put together:
      * per root: rename.rs sorts the walk-ordered candidates with the STABLE `sort_by` and a comparator whose
        (dir, dir) arm compares only the depth (equal-depth directories tie and keep walk order) and whose (file, file) arm
        compares the path;
      * scan_repository_multi appends the per-root lists in the order of `roots` (`for root in roots { .. append .. }`);
      * what happens to the concatenation afterwards: only order-preserving steps (`retain` with a HashSet membership test),
        or a pass through a hash container (`HashMap` + `into_values` / `values` / `into_iter` / `drain`) = hash order."""
    rn = blank(open(os.path.join(common.REPO, "renamify-core/src/rename.rs")).read())
    cut = re.search(r"#\[cfg\(test\)\]\s*(?:#\[[^\]]*\]\s*)*mod\s", rn)
    rn_code = rn if not cut else rn[:cut.start()]
    # the comparator: inline closure or a named fn handed to sort_by
    m = re.search(r"collected_renames\s*\.\s*(sort_by|sort_unstable_by)\s*\(", rn_code)
    if not m:
        raise Shape("rename.rs: no sort of collected_renames")
    call = rn_code[m.end() - 1:match_brace(rn_code, m.end() - 1) + 1]
    cmp_body = call
    nm = re.fullmatch(r"\(\s*([A-Za-z_][\w:]*)\s*\)", call)
    if nm:
        fa, fb = fn_body(rn_code, nm.group(1).split("::")[-1], "rename.rs comparator")
        cmp_body = rn_code[fa:fb]
    dd = re.search(r"\(\s*true\s*,\s*true\s*\)\s*=>\s*([^,]+),", cmp_body)
    ff = re.search(r"\(\s*false\s*,\s*false\s*\)\s*=>\s*([^,]+),", cmp_body)
    if not dd or not ff:
        raise Shape("rename.rs: the rename comparator is not the (is_dir, is_dir) match")
    dir_arm, file_arm = dd.group(1), ff.group(1)
    ties = "depth" in dir_arm and "path" not in dir_arm
    files_by_path = bool(re.search(r"\.path\s*\.\s*cmp\s*\(", file_arm))
    # the block that builds `paths`
    pb = re.search(r"let\s+paths\s*=\s*if\b", multi_body)
    if not pb:
        raise Shape("scan_repository_multi: `let paths = if ..` not found")
    o = multi_body.find("{", pb.end())
    block = multi_body[o:match_brace(multi_body, o)]
    in_root_order = bool(re.search(r"for\s+root\s+in\s+roots\s*\{", block)) and bool(re.search(r"all_renames\s*\.\s*append\s*\(", block))
    # helper functions of scanner.rs called in that block
    hash_ordered, post = 0, []
    HASHY = r"\bHashMap\b|\bHashSet\b"
    ITER = r"into_values\s*\(|\.\s*values\s*\(|into_keys\s*\(|\.\s*drain\s*\(|into_iter\s*\(\s*\)\s*\.\s*(?:map|collect|filter)"
    for call_m in re.finditer(r"\b([a-z_][a-z0-9_]*)\s*\(\s*(?:&mut\s+)?all_renames\b", block):
        name = call_m.group(1)
        post.append(name)
        try:
            fa, fb = fn_body(scanner_text, name, name)
        except Shape:
            continue
        fbody = scanner_text[fa:fb]
        if re.search(r"\bHashMap\b", fbody) and re.search(ITER, fbody):
            hash_ordered += 1
        if re.search(r"\bHashSet\b", fbody) and re.search(r"into_iter\s*\(\s*\)\s*\.\s*collect|\.\s*drain\s*\(", fbody):
            hash_ordered += 1
    if re.search(r"\bHashMap\b", block) and re.search(ITER, block):
        hash_ordered += 1
    retain_dedup = False
    for name in post:
        try:
            fa, fb = fn_body(scanner_text, name, name)
        except Shape:
            continue
        fbody = scanner_text[fa:fb]
        if re.search(r"\.\s*retain\s*\(", fbody) and re.search(r"\.\s*insert\s*\(", fbody):
            retain_dedup = True
    return {"ren_stable": m.group(1) == "sort_by", "ren_ties": ties, "ren_files_by_path": files_by_path,
            "ren_root_order": in_root_order, "ren_hash_ordered": hash_ordered, "ren_retain_dedup": retain_dedup,
            "ren_post": post}


def render(f):
    ks = ", ".join("." + FIELDS.get(k, "other") for k in f["keys"])
    return "\n".join([
        "/- GENERATED by translate/scan_shape.py from renamify-core/src/scanner.rs::scan_repository_multi — do not edit -/",
        "namespace Gen.ScanShape", "",
        "inductive Field where | file | line | byteOffset | other",
        "  deriving DecidableEq, Repr", "",
        f"/-- the comparison chain of `matches.sort_by`: {', '.join(f['keys'])} -/",
        f"def sortKey : List Field := [{ks}]", "",
        "/-- the stable `sort_by` is used -/",
        f"def sortIsStable : Bool := {str(f['stable']).lower()}", "",
        "/-- `let outcomes: Vec<FileOutcome> = file_entries.par_iter().map(..).collect();` -/",
        f"def collectIsOrdered : Bool := {str(f['ordered']).lower()}", "",
        "/-- for_each / Mutex / channel / par_bridge / hash-collect occurrences in the function -/",
        f"def unorderedSinks : Nat := {f['sinks']}", "",
        f"/-- per-file pre-sort `file_matches.sort_by_key(|m| (m.{', m.'.join(f['presort']) if f['presort'] else '?'}))` present -/",
        f"def perFilePresort : Bool := {str(f['presort'] == ['line', 'column']).lower()}", "",
        "-- the rename list (`plan.paths`)", "",
        "/-- rename.rs sorts the walk-ordered candidates of a root with the stable `sort_by` -/",
        f"def renameSortIsStable : Bool := {str(f['ren_stable']).lower()}", "",
        "/-- the comparator's (dir, dir) arm compares only the depth: directories of equal depth TIE (the order is not total),",
        "    so their relative order is whatever order they are handed to the sort in -/",
        f"def renameOrderTiesOnEqualDepthDirs : Bool := {str(f['ren_ties']).lower()}", "",
        "/-- the (file, file) arm compares the path -/",
        f"def renameFilesByPath : Bool := {str(f['ren_files_by_path']).lower()}", "",
        "/-- scan_repository_multi appends the per-root lists in the order of `roots` -/",
        f"def renamesConcatInRootOrder : Bool := {str(f['ren_root_order']).lower()}", "",
        f"/-- functions applied to the concatenated list: {', '.join(f['ren_post']) or 'none'}; the de-duplication is an order-preserving",
        "    `retain` with a set-membership test -/",
        f"def renameDedupIsRetain : Bool := {str(f['ren_retain_dedup']).lower()}", "",
        "/-- passes of the rename list through a hash container (HashMap into_values / values / drain, HashSet into_iter):",
        "    each would hand the list to the sort in per-process hash order -/",
        f"def renameListHashOrderedPasses : Nat := {f['ren_hash_ordered']}", "",
        "end Gen.ScanShape", ""])


def run():
    path = os.path.join(common.LEAN, "RModel/Gen/ScanShape.lean")
    return [("Gen/ScanShape.lean", common.write_if_changed(path, render(extract())))]


if __name__ == "__main__":
    import json
    print(json.dumps(extract(), indent=1))
